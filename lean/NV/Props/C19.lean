/-
  NV.Props.C19 — system DNS activation is reversible and crash-safe.

  Model: NV.Model.FS (host/dns_resolvconf.go, host/dns_linux.go).  A history is a list of events
  `act dns crash? | deact crash? | env ext'`; every event runs the real sequence of system calls from the
  state it finds, cut at an arbitrary crash point.  All theorems quantify over ALL byte contents, symlink
  texts, proxy addresses, histories and crash points.

  Two defects were found by this check on the code as found and repaired in the repository:
   * `strings.HasPrefix(line, "nameserver ")` kept `nameserver<TAB>1.2.3.4` (and \v \f \r NBSP …) lines
     (`found_keeps_tab_nameserver`);
   * `os.Stat(resolvBackupFile)` follows a backup SYMLINK: when its target is gone (reboot clears /run) the
     backup counted as missing and the managed file was renamed over it (`found_loses_original`).
  The model carries both variants (`Variant`); the theorems below hold for every variant with the repaired
  decisions and `gen_variant_agree` proves that this is what the source says now.
-/
import NV.Model.FS
import NV.Lemmas.FS
import NV.Gen.Resolv
import NV.Driver.FS
import NV.Model.Activate
import NV.Lemmas.Activate
import NV.Gen.Activate
namespace NV.C19
open NV.FS

/-! ### ties to the regenerated facts -/

/-- the source has os.Lstat and the first-field nameserver test — the variant the driver runs and the
    theorems are instantiated with -/
theorem gen_variant_agree : Gen.Resolv.variant = Variant.cur := by decide

/-- the header lines and the final format written by writeTempResolvConf are the model's; the scan loop
    copies `line` -/
theorem gen_render_agree :
    Gen.Resolv.header = header ∧ Gen.Resolv.nsFormat = nsLine (asc "%s") ++ [10] ∧ Gen.Resolv.loopWritesLine = true := by
  decide

/-- three distinct names in one directory (rename stays on one file system), renamed in the modelled
    order: live→backup before staging→live; ResetDNS backup→live -/
theorem gen_names_agree :
    Gen.Resolv.names = ["/etc/resolv.conf", "/etc/resolv.conf.nextdns-bak", "/etc/resolv.conf.nextdns-tmp"] ∧
    Gen.Resolv.setupRenames = [("resolvFile", "resolvBackupFile"), ("resolvTmpFile", "resolvFile")] ∧
    Gen.Resolv.resetRenames = [("resolvBackupFile", "resolvFile")] := by
  decide

/-! ### inv: the original is always on disk -/

/-- the original resolv.conf node (file bytes or symlink text) is the live file with no backup, or it is
    the backup -/
def Inv (orig : Node) (s : FS) : Prop :=
  (s.bak = .absent ∧ s.live = orig) ∨ (s.bak = orig ∧ orig ≠ .absent)

instance (orig : Node) (s : FS) : Decidable (Inv orig s) := by unfold Inv; infer_instance

/-- a pristine system: resolv.conf is `orig`, no backup, anything (stale) under the staging name -/
def pristine (orig tmp : Node) (ext : List (Bytes × Bytes)) : FS := ⟨orig, .absent, tmp, ext⟩

/-- every prefix of the system calls of one activation keeps the invariant -/
theorem inv_act_prefix (v : Variant) (hv : v.lstat = true) (orig : Node) (s : FS) (dns : Bytes)
    (pre : List Prim) (hp : pre <+: (setup v s dns).1) (h : Inv orig s) : Inv orig (applyAll s pre) := by
  cases hr : readThrough s s.live with
  | none =>
    rw [setup_open_fails v s dns hr] at hp
    rcases prefix_one hp with rfl | rfl <;> simpa [applyAll, apply] using h
  | some content =>
    have keep : ∀ q, q <+: stage v s content dns → Inv orig (applyAll s q) := by
      intro q hq
      have ht := applyAll_tmpOnly s q (fun p hpq => stage_tmpOnly v s content dns p (hq.subset hpq))
      unfold Inv
      rw [ht.1, ht.2.1]
      exact h
    cases hs : (scan content).2 with
    | true =>
      rw [setup_scan_fails v s dns content hr hs] at hp
      exact keep pre hp
    | false =>
      rw [setup_ok v s dns content hr hs] at hp
      rcases prefix_append_cases hp with hq | ⟨b, hb, rfl⟩
      · exact keep pre hq
      · rw [applyAll_append, applyAll_stage]
        have hlive : s.live ≠ .absent := by
          intro e; rw [e] at hr; simp [readThrough] at hr
        have hbe : bakExists v s = (s.bak != .absent) := by simp [bakExists, hv]
        by_cases hbak : s.bak = .absent
        · -- first activation: the backup is made now
          have horig : s.live = orig := by
            rcases h with ⟨_, h2⟩ | ⟨h1, h2⟩
            · exact h2
            · exact absurd (h1.symm.trans hbak) h2
          have : bakExists v s = false := by simp [hbe, hbak]
          rw [this] at hb
          simp only [Bool.false_eq_true, if_false, List.singleton_append] at hb
          cases hl : s.live with
          | absent => exact absurd hl hlive
          | file c =>
            rcases prefix_two hb with rfl | rfl | rfl <;>
              simp [applyAll, apply, FS.get, FS.set, hl, Inv, hbak, ← horig]
          | symlink t =>
            rcases prefix_two hb with rfl | rfl | rfl <;>
              simp [applyAll, apply, FS.get, FS.set, hl, Inv, hbak, ← horig]
        · -- repeated activation: the backup is not touched
          have horig : s.bak = orig ∧ orig ≠ .absent := by
            rcases h with ⟨h1, _⟩ | h
            · exact absurd h1 hbak
            · exact h
          have : bakExists v s = true := by simp [hbe, hbak]
          rw [this] at hb
          simp only [if_true, List.nil_append] at hb
          rcases prefix_one hb with rfl | rfl
          · simp [applyAll, Inv, horig]
          · simp [applyAll, apply, FS.get, FS.set, Inv, horig]

/-- every prefix of a deactivation keeps the invariant -/
theorem inv_deact_prefix (orig : Node) (s : FS) (pre : List Prim) (hp : pre <+: (reset s).1)
    (h : Inv orig s) : Inv orig (applyAll s pre) := by
  simp only [reset] at hp
  rcases prefix_one hp with rfl | rfl
  · simpa [applyAll] using h
  · cases hb : s.bak with
    | absent => simpa [applyAll, apply, FS.get, hb] using h
    | file c =>
      rcases h with ⟨h1, _⟩ | ⟨h1, _⟩
      · rw [hb] at h1; cases h1
      · simp [applyAll, apply, FS.get, FS.set, hb, Inv, ← h1]
    | symlink t =>
      rcases h with ⟨h1, _⟩ | ⟨h1, _⟩
      · rw [hb] at h1; cases h1
      · simp [applyAll, apply, FS.get, FS.set, hb, Inv, ← h1]

theorem inv_step (v : Variant) (hv : v.lstat = true) (orig : Node) (s : FS) (ev : Ev) (h : Inv orig s) :
    Inv orig (stepEv v s ev) := by
  cases ev with
  | act dns c => exact inv_act_prefix v hv orig s dns _ (cut_prefix _ c) h
  | deact c => exact inv_deact_prefix orig s _ (cut_prefix _ c) h
  | env e => exact h

/-- **inv.**  After every history of activations, deactivations and environment changes — each cut at
    any crash point, i.e. after every prefix of every sequence — started from a pristine system, the
    original resolv.conf is the live file with no backup, or it is the backup. -/
theorem inv (orig tmp : Node) (ext : List (Bytes × Bytes)) (evs : List Ev) :
    Inv orig (run Variant.cur (pristine orig tmp ext) evs) := by
  suffices h : ∀ s, Inv orig s → Inv orig (run Variant.cur s evs) from
    h _ (Or.inl ⟨rfl, rfl⟩)
  induction evs with
  | nil => exact fun s h => h
  | cons ev evs ih =>
    intro s h
    exact ih _ (inv_step Variant.cur rfl orig s ev h)

/-- the code as found loses the original: orig is a symlink, activate, the link target vanishes,
    activate again ⇒ the backup is the nextdns-managed file -/
theorem found_loses_original :
    ∃ orig ext evs, ¬ Inv orig (run Variant.found (pristine orig .absent ext) evs) :=
  ⟨.symlink (asc "stub"), [(asc "stub", [])],
   [.act (asc "::1") none, .env [], .act (asc "::1") none], by decide⟩

/-! ### deactivate_restores -/

/-- **deactivate_restores.**  From any state satisfying the invariant a completed ResetDNS leaves the
    original as the live node (bytes or symlink text, byte for byte) and no backup. -/
theorem deactivate_restores (orig : Node) (s : FS) (h : Inv orig s) :
    (applyAll s (reset s).1).live = orig ∧ (applyAll s (reset s).1).bak = .absent := by
  simp only [reset]
  cases hb : s.bak with
  | absent =>
    rcases h with ⟨_, h2⟩ | ⟨h1, h2⟩
    · simp [applyAll, apply, FS.get, hb, h2]
    · exact absurd (h1.symm.trans hb) h2
  | file c =>
    rcases h with ⟨h1, _⟩ | ⟨h1, _⟩
    · rw [hb] at h1; cases h1
    · simp [applyAll, apply, FS.get, FS.set, hb, ← h1]
  | symlink t =>
    rcases h with ⟨h1, _⟩ | ⟨h1, _⟩
    · rw [hb] at h1; cases h1
    · simp [applyAll, apply, FS.get, FS.set, hb, ← h1]

/-- … however many activations, crashes and environment changes preceded -/
theorem deactivate_restores_after_any_history (orig tmp : Node) (ext : List (Bytes × Bytes)) (evs : List Ev) :
    (run Variant.cur (pristine orig tmp ext) (evs ++ [.deact none])).live = orig ∧
    (run Variant.cur (pristine orig tmp ext) (evs ++ [.deact none])).bak = .absent := by
  simp only [run, List.foldl_append, List.foldl_cons, List.foldl_nil, stepEv, cut]
  exact deactivate_restores orig _ (inv orig tmp ext evs)

/-- the symlink content and every other file are never written: `ext` only changes by `env` events -/
theorem ext_untouched (v : Variant) (s : FS) (ev : Ev) (h : ∀ e, ev ≠ .env e) : (stepEv v s ev).ext = s.ext := by
  have hall := fun (ps : List Prim) (s : FS) => applyAll_ext s ps
  cases ev with
  | act dns c => exact hall _ _
  | deact c => exact hall _ _
  | env e => exact absurd rfl (h e)

/-! ### tmp_never_live -/

/-- **tmp_never_live.**  At every crash point of an activation the live name holds what it held before,
    or nothing (between the two renames of a first activation), or the COMPLETE rendering: a partially
    written staging file is never renamed over resolv.conf (whatever stale staging file existed). -/
theorem tmp_never_live (v : Variant) (s : FS) (dns content : Bytes) (hr : readThrough s s.live = some content)
    (pre : List Prim) (hp : pre <+: (setup v s dns).1) :
    (applyAll s pre).live = s.live ∨ (applyAll s pre).live = .absent ∨
      (applyAll s pre).live = .file (render v content dns) := by
  have keep : ∀ q, q <+: stage v s content dns → (applyAll s q).live = s.live := fun q hq =>
    (applyAll_tmpOnly s q (fun p hpq => stage_tmpOnly v s content dns p (hq.subset hpq))).1
  cases hs : (scan content).2 with
  | true =>
    rw [setup_scan_fails v s dns content hr hs] at hp
    exact Or.inl (keep pre hp)
  | false =>
    rw [setup_ok v s dns content hr hs] at hp
    rcases prefix_append_cases hp with hq | ⟨b, hb, rfl⟩
    · exact Or.inl (keep pre hq)
    · rw [applyAll_append, applyAll_stage]
      have hlive : s.live ≠ .absent := by
        intro e; rw [e] at hr; simp [readThrough] at hr
      cases hbe : bakExists v s with
      | true =>
        rw [hbe] at hb
        simp only [if_true, List.nil_append] at hb
        rcases prefix_one hb with rfl | rfl
        · exact Or.inl (by simp [applyAll])
        · exact Or.inr (Or.inr (by simp [applyAll, apply, FS.get, FS.set]))
      | false =>
        rw [hbe] at hb
        simp only [Bool.false_eq_true, if_false, List.singleton_append] at hb
        cases hl : s.live with
        | absent => exact absurd hl hlive
        | file c =>
          rcases prefix_two hb with rfl | rfl | rfl
          · exact Or.inl (by simp [applyAll])
          · exact Or.inr (Or.inl (by simp [applyAll, apply, FS.get, FS.set]))
          · exact Or.inr (Or.inr (by simp [applyAll, apply, FS.get, FS.set]))
        | symlink t =>
          rcases prefix_two hb with rfl | rfl | rfl
          · exact Or.inl (by simp [applyAll])
          · exact Or.inr (Or.inl (by simp [applyAll, apply, FS.get, FS.set]))
          · exact Or.inr (Or.inr (by simp [applyAll, apply, FS.get, FS.set]))

/-- OUTSIDE the property's quantifier (process death), recorded as an open finding: the Go code ignores
    the results of its writes, so when they fail (disk full) from the 5th on, `tmp_never_live`'s
    conclusion is false — a header-only staging file becomes resolv.conf and SetDNS reports success.
    (The original is still the backup: `inv` is not affected, deactivation recovers.) -/
theorem write_errors_go_live :
    let s := pristine (.file (asc "search lan\nnameserver 1.1.1.1\n")) .absent []
    let r := setup Variant.cur s (asc "::1")
    let s' := applyAll s (failWrites 5 r.1)
    r.2 = .ok ∧ s'.live ≠ s.live ∧ s'.live ≠ .absent ∧
      s'.live ≠ .file (render Variant.cur (asc "search lan\nnameserver 1.1.1.1\n") (asc "::1")) ∧
      s'.live = .file ((header.map (· ++ [10])).flatten) ∧ s'.bak = s.live := by
  decide

/-- an unreadable resolv.conf (absent, dangling link) fails before any change -/
theorem unreadable_is_noop (v : Variant) (s : FS) (dns : Bytes) (hr : readThrough s s.live = none)
    (c : Option Crash) : stepEv v s (.act dns c) = s := by
  simp only [stepEv, setup_open_fails v s dns hr]
  have := cut_prefix [Prim.openRead .live] c
  rcases prefix_one this with h | h <;> simp [h, applyAll, apply]

/-! ### activated_shape -/

/-- the trimmed lines of a resolv.conf body, as the scanner and TrimSpace deliver them -/
def parsed (b : Bytes) : List Bytes := (rawLines b).map (fun l => trim (dropCR l))

/-- a (trimmed) line is a nameserver line: the keyword alone, or the keyword followed by a white-space
    rune (space, TAB, \v, \f, \r, NBSP, …) — a superset of what glibc (space/TAB), musl (isspace) and Go's
    resolver accept -/
def IsNameserverLine (t : Bytes) : Prop :=
  t = kwNameserver ∨ ∃ w ∈ wsSeqs, ∃ r, t = kwNameserver ++ w ++ r

/-- non-empty, not a `#` comment, not a nameserver line -/
def isDirective (t : Bytes) : Bool := !(t.isEmpty || t.head? == some 35 || isNsLine true t)

def directives (b : Bytes) : List Bytes := (parsed b).filter isDirective
/-- the addresses of the nameserver lines, in order -/
def nameservers (b : Bytes) : List Bytes := ((parsed b).filter (isNsLine true)).map (fun t => trim (t.drop 10))

/-- the executable test is the declarative definition -/
theorem isNsLine_iff (t : Bytes) : isNsLine true t = true ↔ IsNameserverLine t := by
  unfold isNsLine IsNameserverLine
  simp only [if_true, Bool.and_eq_true, Bool.or_eq_true, beq_iff_eq]
  constructor
  · rintro ⟨h1, h2⟩
    have ht : t = kwNameserver ++ t.drop 10 := by
      conv => lhs; rw [← List.take_append_drop 10 t]
      rw [h1]
    rcases h2 with h2 | h2
    · left
      have : t.drop 10 = [] := by simp [List.drop_eq_nil_iff, h2]
      rw [this] at ht; simpa using ht
    · right
      cases hw : startsWith wsSeqs (t.drop 10) with
      | none => simp [hw] at h2
      | some w =>
        obtain ⟨hm, r, hr⟩ := startsWith_some hw
        exact ⟨w, hm, r, by rw [List.append_assoc, hr]; exact ht⟩
  · rintro (h | ⟨w, hw, r, h⟩)
    · subst h; decide
    · subst h
      have hk : kwNameserver.length = 10 := by decide
      refine ⟨by simp [hk], Or.inr ?_⟩
      have hd : (kwNameserver ++ w ++ r).drop 10 = w ++ r := by
        rw [List.append_assoc, List.drop_append_of_le_length (by simp [hk])]
        simp [← hk]
      rw [hd]
      cases hs : startsWith wsSeqs (w ++ r) with
      | some _ => rfl
      | none => exact absurd (List.prefix_append w r) (startsWith_none hs w hw)

/-- what the stub resolvers call a nameserver line is one -/
theorem resolver_view_covered (c : UInt8) (r : Bytes) (hc : c = 32 ∨ c = 9 ∨ c = 11 ∨ c = 12 ∨ c = 13) :
    IsNameserverLine (kwNameserver ++ [c] ++ r) := by
  refine Or.inr ⟨[c], ?_, r, rfl⟩
  rcases hc with rfl | rfl | rfl | rfl | rfl <;> decide

/-- proxy addresses are non-empty printable ASCII without blanks (activate.go passes "127.0.0.1", "::1"
    or a string accepted by net.ParseIP) -/
def ValidDns (dns : Bytes) : Prop := dns ≠ [] ∧ ∀ d ∈ dns, 33 ≤ d.toNat ∧ d.toNat ≤ 126

instance (dns : Bytes) : Decidable (ValidDns dns) := by unfold ValidDns; infer_instance

/-- **activated_shape.**  After a completed activation (no scanner error) the new resolv.conf, parsed
    back from its bytes, has exactly one nameserver line, naming the proxy, and exactly the non-comment,
    non-nameserver directives of the file that was read, in order (each trimmed). -/
theorem activated_shape (v : Variant) (hv : v.nsFields = true) (content dns : Bytes)
    (hs : (scan content).2 = false) (hvd : ValidDns dns) :
    nameservers (render v content dns) = [dns] ∧
    directives (render v content dns) = directives content := by
  obtain ⟨hdne, hd⟩ := hvd
  -- dns has a first and a last byte, both printable
  obtain ⟨a, as, hcons⟩ : ∃ a as, dns = a :: as := by
    cases dns with
    | nil => exact absurd rfl hdne
    | cons a as => exact ⟨a, as, rfl⟩
  have hdL : startsWith wsSeqs dns = none := by
    rw [hcons]; exact (plain_no_ws a as (hd a (by simp [hcons]))).1
  obtain ⟨b, bs, hrev⟩ : ∃ b bs, dns.reverse = b :: bs := by
    cases hr : dns.reverse with
    | nil => exact absurd (by simpa using hr) hdne
    | cons b bs => exact ⟨b, bs, rfl⟩
  have hb : 33 ≤ b.toNat ∧ b.toNat ≤ 126 :=
    hd b (List.mem_reverse.mp (by rw [hrev]; simp))
  -- the lines written
  have hkeeps : keeps v = isDirective := by funext t; simp [keeps, isDirective, hv]
  have hscan : (scan content).1 = (rawLines content).map dropCR := by
    have hpre := List.takeWhile_prefix (p := fun l : Bytes => decide (l.length < maxToken)) (l := rawLines content)
    have h2 : ((rawLines content).takeWhile (fun l => l.length < maxToken)).length = (rawLines content).length := by
      have := hs; simp only [scan, decide_eq_false_iff_not, Nat.not_lt] at this
      exact Nat.le_antisymm hpre.length_le this
    have h3 : (rawLines content).takeWhile (fun l => l.length < maxToken) = rawLines content :=
      hpre.eq_of_length h2
    simp [scan, h3]
  have hK : ((scan content).1.map trim).filter (keeps v) = directives content := by
    simp [hscan, directives, parsed, hkeeps, List.map_map, Function.comp_def]
  have hrender : render v content dns = ((header ++ directives content ++ [nsLine dns]).map (· ++ [10])).flatten := by
    simp [render, chunks, hK]
  -- none of them contains a newline
  have hnoNL : ∀ l ∈ header ++ directives content ++ [nsLine dns], (10 : UInt8) ∉ l := by
    intro l hl
    simp only [List.mem_append, List.mem_singleton] at hl
    rcases hl with (hl | hl) | rfl
    · revert l; decide
    · intro h10
      simp only [directives, parsed, List.mem_filter, List.mem_map] at hl
      obtain ⟨⟨raw, hraw, rfl⟩, _⟩ := hl
      exact rawLines_no_nl content raw hraw (dropCR_sub _ _ (trim_sub _ _ h10))
    · intro h10
      simp only [nsLine, List.mem_append] at h10
      rcases h10 with h10 | h10
      · revert h10; decide
      · have := hd _ h10; simp at this
  have hdirfix : (directives content).map (fun l => trim (dropCR l)) = directives content := by
    have h := List.map_congr_left (l := directives content) (f := fun l => trim (dropCR l)) (g := id) (by
      intro t ht
      simp only [directives, parsed, List.mem_filter, List.mem_map] at ht
      obtain ⟨⟨raw, _, rfl⟩, _⟩ := ht
      simp only [id]
      rw [dropCR_trim, trim_idem])
    rw [h]; simp
  have hk11 : asc "nameserver " = 110 :: asc "ameserver " := by decide
  have hk10 : asc "nameserver " = kwNameserver ++ [32] := by decide
  have hnsfix : trim (dropCR (nsLine dns)) = nsLine dns := by
    have h1 : startsWith wsSeqs (nsLine dns) = none := by
      have : nsLine dns = 110 :: (asc "ameserver " ++ dns) := by simp [nsLine, hk11]
      rw [this]; exact (plain_no_ws 110 _ (by decide)).1
    have h2 : startsWith wsSeqsRev (nsLine dns).reverse = none := by
      have : (nsLine dns).reverse = b :: (bs ++ (asc "nameserver ").reverse) := by
        simp [nsLine, hrev]
      rw [this]; exact (plain_no_ws b _ hb).2
    rw [dropCR_of_clean _ h2, trim_fix _ h1 h2]
  have hparsed : parsed (render v content dns) =
      header.map (fun l => trim (dropCR l)) ++ directives content ++ [nsLine dns] := by
    unfold parsed
    rw [hrender, rawLines_flatten _ hnoNL]
    simp only [List.map_append, List.map_cons, List.map_nil, hdirfix, hnsfix]
  have hhdrD : (header.map (fun l => trim (dropCR l))).filter isDirective = [] := by decide
  have hhdrN : (header.map (fun l => trim (dropCR l))).filter (isNsLine true) = [] := by decide
  have hnsLine : isNsLine true (nsLine dns) = true := by
    rw [isNsLine_iff]
    exact Or.inr ⟨[32], by decide, dns, by simp [nsLine, hk10]⟩
  constructor
  · unfold nameservers
    rw [hparsed]
    simp only [List.filter_append, hhdrN, List.nil_append]
    have hD : (directives content).filter (isNsLine true) = [] := by
      apply List.filter_eq_nil_iff.mpr
      intro t ht
      simp only [directives, List.mem_filter, isDirective] at ht
      have := ht.2
      simp only [Bool.not_eq_true', Bool.or_eq_false_iff] at this
      simp [this.2]
    rw [hD]
    simp only [List.nil_append, List.filter_cons, hnsLine, if_true, List.filter_nil, List.map_cons, List.map_nil]
    have hdrop : (nsLine dns).drop 10 = 32 :: dns := by
      have hkd : kwNameserver.drop 10 = [] := by decide
      simp only [nsLine, hk10, List.append_assoc]
      rw [List.drop_append_of_le_length (by decide), hkd]
      simp
    rw [hdrop]
    congr 1
    -- TrimSpace(" " ++ dns) = dns
    have hsw : startsWith wsSeqs (32 :: dns) = some [32] := by
      simp [startsWith, wsSeqs, List.find?, List.isPrefixOf]
    have hleft : trimLeft (32 :: dns) = dns := by
      unfold trimLeft
      simp only [List.length_cons, stripF, hsw, List.length_nil, List.drop_succ_cons, List.drop_zero]
      exact stripF_id _ _ _ hdL
    have hright : trimRight dns = dns := by
      have := trim_plain dns hd
      unfold trim trimLeft at this
      rwa [stripF_id _ _ _ hdL] at this
    unfold trim
    rw [hleft, hright]
  · unfold directives
    rw [hparsed]
    simp only [List.filter_append, hhdrD, List.nil_append]
    have hD : (directives content).filter isDirective = directives content := by
      simp [directives, List.filter_filter]
    have hN : [nsLine dns].filter isDirective = [] := by
      simp [isDirective, hnsLine]
    rw [show (parsed content).filter isDirective = directives content from rfl, hD, hN]
    simp

/-- the code as found kept `nameserver<TAB>1.2.3.4`: two nameservers after activation -/
theorem found_keeps_tab_nameserver :
    nameservers (render Variant.found (asc "nameserver\t1.2.3.4\n") (asc "::1")) = [asc "1.2.3.4", asc "::1"] := by
  decide

/-! ### non-vacuity -/

example : ValidDns (asc "127.0.0.1") ∧ ValidDns (asc "fd00::53") := by decide
example : (scan (asc "search lan\r\nnameserver\t1.1.1.1\n  options ndots:2 ")).2 = false := by decide
example : directives (asc "# c\nsearch lan\r\nnameserver\t1.1.1.1\n  options ndots:2 ") =
    [asc "search lan", asc "options ndots:2"] := by decide
example : nameservers (render Variant.cur (asc "search lan\nnameserver\t1.1.1.1\n") (asc "::1")) = [asc "::1"] := by decide
/-- Inv is not trivially true: the state reached by the unrepaired code violates it -/
example : ¬ Inv (.symlink [1]) ⟨.file [], .file [], .absent, []⟩ := by decide
/-- a first activation killed between its two renames: no live file, the original is the backup -/
example : (stepEv Variant.cur (pristine (.file (asc "nameserver 1.1.1.1\n")) .absent []) (.act (asc "::1") (some ⟨.rename, 2⟩))).live = .absent ∧
    (stepEv Variant.cur (pristine (.file (asc "nameserver 1.1.1.1\n")) .absent []) (.act (asc "::1") (some ⟨.rename, 2⟩))).bak
      = .file (asc "nameserver 1.1.1.1\n") := by decide
/-- in that window a new activation fails without touching anything (resolv.conf cannot be opened);
    only `deactivate` recovers — see `unreadable_is_noop` and `deactivate_restores` -/
example : (setup Variant.cur ⟨.absent, .file [1], .absent, []⟩ []).2 = .errOpen := by decide


/-! ### NetworkManager installed, its reload failing -/

/-- **C19**: what deactivation does to the three resolv.conf names does not depend on
NetworkManager: with its conf.d present and `systemctl reload` failing, `ResetDNS` leaves exactly
the files plain `ResetDNS` leaves (resolv.conf is dealt with first; only the returned status and
the drop-in differ). With `deactivate_restores` the original is back whatever NetworkManager does. -/
theorem deactivate_independent_of_networkmanager (s : FS) (nm : Bool) :
    (NV.resetNM s nm).1 = applyAll s (reset s).1 := by
  unfold NV.resetNM
  cases h : reset s with
  | mk ps st =>
    simp only []
    cases st <;> cases hb : s.bak <;> simp

/-- … and activation: the files are those of plain `SetDNS` -/
theorem activate_independent_of_networkmanager (s : FS) (dns : Bytes) (nm : Bool) :
    (NV.setupNM s dns nm).1 = applyAll s (setup Variant.cur s dns).1 := by
  unfold NV.setupNM
  cases h : setup Variant.cur s dns with
  | mk ps st => cases st <;> simp

/-! ### activate.go: WHICH address the activated file names -/
section Activate
open NV.Activate

/-- the bytes of an (ASCII) address text as `host.SetDNS` writes them -/
def toBytes (s : S) : Bytes := s.map fun c => c.toNat.toUInt8

theorem ipChar_printable (c : Char) (h : ipChar c = true) : 33 ≤ (c.toNat.toUInt8).toNat ∧ (c.toNat.toUInt8).toNat ≤ 126 := by
  have hb : 33 ≤ c.toNat ∧ c.toNat ≤ 126 := by
    simp only [ipChar, isHex, isDigit, Bool.or_eq_true, Bool.and_eq_true, decide_eq_true_eq, beq_iff_eq] at h
    rcases h with (((h | h) | h) | h) | h
    · omega
    · omega
    · omega
    · subst h; decide
    · subst h; decide
  have : (c.toNat.toUInt8).toNat = c.toNat := by
    simp [Nat.toUInt8, UInt8.toNat_ofNat']
    omega
  omega

/-- an address `net.ParseIP` accepts is a non-empty string of hex digits, ':' and '.': what `activated_shape` needs -/
theorem parsed_ip_valid_dns (h : S) (hip : parseIP h = true) : ValidDns (toBytes h) := by
  obtain ⟨hne, hc⟩ := parseIP_chars h hip
  refine ⟨by simpa [toBytes] using hne, ?_⟩
  intro d hd
  simp only [toBytes, List.mem_map] at hd
  obtain ⟨c, hcm, rfl⟩ := hd
  exact ipChar_printable c (hc c hcm)

/-- **every outcome of `listenIP`**: a loopback address, the host as written when it is an IP literal, the first
address the hosts file lists for the name — or an error, in which case `activate` returns before touching any file. -/
theorem listenIP_cases (lookup : S → List S) (listen : S) :
    listenIP lookup listen = .addr loopback4 ∨ listenIP lookup listen = .addr loopback6 ∨
    listenIP lookup listen = .errPort ∨ listenIP lookup listen = .errNoAddr ∨
    ∃ host port, splitHostPort listen = some (host, port) ∧ (port = port53 ∨ port = portDomain) ∧
      ((parseIP host = true ∧ listenIP lookup listen = .addr host) ∨
       (parseIP host = false ∧ ∃ a rest, lookup host = a :: rest ∧ listenIP lookup listen = .addr a)) := by
  cases hs : splitHostPort listen with
  | none => left; simp [listenIP, hs]
  | some hp =>
    obtain ⟨host, port⟩ := hp
    by_cases hport : port ≠ port53 ∧ port ≠ portDomain
    · right; right; left; simp [listenIP, hs, hport]
    · have hp' : port = port53 ∨ port = portDomain := by
        by_cases h1 : port = port53
        · exact Or.inl h1
        · right
          by_cases h2 : port = portDomain
          · exact h2
          · exact absurd ⟨h1, h2⟩ hport
      by_cases hw : host = [] ∨ host = wild4
      · left; simp only [listenIP, hs, if_neg hport, if_pos hw]
      · by_cases h6 : host = wild6
        · right; left; simp only [listenIP, hs, if_neg hport, if_neg hw, if_pos h6]
        · cases hip : parseIP host with
          | true =>
            right; right; right; right
            refine ⟨host, port, rfl, hp', Or.inl ⟨hip, ?_⟩⟩
            simp only [listenIP, hs, if_neg hport, if_neg hw, if_neg h6, hip, if_true]
          | false =>
            cases hl : lookup host with
            | nil =>
              right; right; right; left
              simp only [listenIP, hs, if_neg hport, if_neg hw, if_neg h6, hip, hl]
              simp
            | cons a rest =>
              right; right; right; right
              refine ⟨host, port, rfl, hp', Or.inr ⟨hip, a, rest, hl, ?_⟩⟩
              simp only [listenIP, hs, if_neg hport, if_neg hw, if_neg h6, hip, hl]
              simp

/-- a listen value with any port other than 53 / "domain" never activates: nothing is written -/
theorem non53_never_activates (lookup : S → List S) (listen host port : S)
    (hs : splitHostPort listen = some (host, port)) (h1 : port ≠ port53) (h2 : port ≠ portDomain) :
    listenIP lookup listen = .errPort := by
  simp [listenIP, hs, h1, h2]

/-- a wildcard listen address activates the loopback address of its family; a value without a port activates 127.0.0.1 -/
theorem wildcards_to_loopback (lookup : S → List S) :
    listenIP lookup (':' :: port53) = .addr loopback4 ∧ listenIP lookup (wild4 ++ ':' :: port53) = .addr loopback4 ∧
    listenIP lookup ('[' :: (wild6 ++ ']' :: ':' :: port53)) = .addr loopback6 ∧
    listenIP lookup (wild4 ++ ':' :: portDomain) = .addr loopback4 ∧
    listenIP lookup ['l', 'o', 'c', 'a', 'l', 'h', 'o', 's', 't'] = .addr loopback4 := by
  have h1 : splitHostPort (':' :: port53) = some ([], port53) := by decide
  have h2 : splitHostPort (wild4 ++ ':' :: port53) = some (wild4, port53) := by decide
  have h3 : splitHostPort ('[' :: (wild6 ++ ']' :: ':' :: port53)) = some (wild6, port53) := by decide
  have h4 : splitHostPort (wild4 ++ ':' :: portDomain) = some (wild4, portDomain) := by decide
  have h5 : splitHostPort ['l', 'o', 'c', 'a', 'l', 'h', 'o', 's', 't'] = none := by decide
  have n1 : wild6 ≠ [] ∧ wild6 ≠ wild4 ∧ portDomain ≠ port53 := by decide
  refine ⟨?_, ?_, ?_, ?_, ?_⟩
  · unfold listenIP; rw [h1]; simp
  · unfold listenIP; rw [h2]; simp
  · unfold listenIP; rw [h3]; simp [n1.1, n1.2.1]
  · unfold listenIP; rw [h4]; simp [n1.2.2]
  · unfold listenIP; rw [h5]

/-- **the proxy's own address is the one that is named**: an IPv4 literal (or any IP literal without ':') listening on
port 53 activates exactly that address -/
theorem literal_address_kept (lookup : S → List S) (h : S) (hip : parseIP h = true)
    (hc : ∀ x ∈ h, x ≠ ':' ∧ x ≠ '[' ∧ x ≠ ']') (hw : h ≠ wild4) :
    listenIP lookup (h ++ ':' :: port53) = .addr h := by
  have hs := splitHostPort_join h port53 hc (by decide)
  have hne : h ≠ [] := (parseIP_chars h hip).1
  have h6 : h ≠ wild6 := by
    intro he; subst he; exact absurd (hc ':' (by decide)).1 (by decide)
  simp [listenIP, hs, hne, hw, h6, hip]

example : listenIP (fun _ => []) "192.168.1.1:53".toList = .addr "192.168.1.1".toList ∧
    listenIP (fun _ => []) "[fd00::1]:53".toList = .addr "fd00::1".toList ∧
    listenIP (fun _ => []) "[::ffff:10.0.0.1]:domain".toList = .addr "::ffff:10.0.0.1".toList ∧
    listenIP (fun _ => []) "192.168.1.1:5353".toList = .errPort ∧
    listenIP (fun _ => []) "lan-a:53".toList = .errNoAddr ∧
    listenIP (fun n => if n = "lan-a".toList then ["10.0.0.9".toList, "fd00::9".toList] else []) "lan-a:53".toList
      = .addr "10.0.0.9".toList := by decide

/-- with the router integration on, the host's own resolver goes through dnsmasq on the loopback address, whatever
`-listen` says -/
theorem router_always_loopback (lookup : S → List S) (l : S) (ls : List S) :
    activate lookup (l :: ls) true = .addr loopback4 := by
  have h1 : splitHostPort routerListen = some (loopback4, port53) := by decide
  have hip : parseIP loopback4 = true := by decide
  have n1 : loopback4 ≠ [] ∧ loopback4 ≠ wild4 ∧ loopback4 ≠ wild6 := by decide
  simp [activate, listenIP, h1, hip, n1.1, n1.2.1, n1.2.2]

/-- **the address handed to `host.SetDNS` satisfies the hypothesis of `activated_shape`** (non-empty printable ASCII
without blanks), provided the hosts file's addresses do — they are `net.IP.String()` texts. -/
theorem activate_addr_valid (lookup : S → List S) (listens : List S) (sr : Bool) (a : S)
    (hl : ∀ h x, x ∈ lookup h → ValidDns (toBytes x)) (ha : activate lookup listens sr = .addr a) :
    ValidDns (toBytes a) := by
  unfold activate at ha
  cases listens with
  | nil => simp at ha
  | cons l ls =>
    simp only at ha
    generalize (if sr = true then routerListen else l) = listen at ha
    rcases listenIP_cases lookup listen with h | h | h | h | ⟨host, port, _, _, h⟩
    · rw [h] at ha; cases ha; decide
    · rw [h] at ha; cases ha; decide
    · rw [h] at ha; cases ha
    · rw [h] at ha; cases ha
    · rcases h with ⟨hip, h⟩ | ⟨_, x, rest, hlk, h⟩
      · rw [h] at ha; cases ha; exact parsed_ip_valid_dns _ hip
      · rw [h] at ha; cases ha; exact hl host a (by simp [hlk])

open NV.Gen in
/-- **(regenerated)** the tables of `listenIP` and the shape of `activate` are the ones the model was written from:
ports 53 / domain, wildcard hosts, the fallback when SplitHostPort fails, the router override, `c.Listens[0]`, and
`host.SetDNS` applied to listenIP's result. -/
theorem gen_activate_agree :
    Gen.Activate.ports = ["53", "domain"] ∧
    Gen.Activate.wildcards = [(["", "0.0.0.0"], "127.0.0.1"), (["::"], "::1")] ∧
    Gen.Activate.splitErrorResult = "127.0.0.1" ∧ Gen.Activate.routerListen = String.ofList NV.Activate.routerListen ∧
    Gen.Activate.firstListen = true ∧ Gen.Activate.setDNSOfListenIP = true ∧
    Gen.Activate.parseIPBeforeLookup = true ∧ Gen.Activate.firstLookupAddr = true := by decide

end Activate


end NV.C19
