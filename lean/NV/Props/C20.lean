/-
  C20 — router integration points dnsmasq at the proxy and undoes it on stop.

  The theorems are about `NV.Model.Router` (New/Configure/Setup/Restore of the eight firmware
  packages over files · uci · nvram · dnsmasq's view) instantiated with the constants REGENERATED from
  router/*/setup.go (`NV.Gen.Router`: templates, ListenPort, drop-in paths, the `c.Listens`
  expressions, restart argv's, exported struct fields, nvram lists, detection order).
-/
import NV.Lemmas.Router
import NV.Gen.Router
import NV.Lemmas.RouterUci
import NV.Model.SvcLife
import NV.Lemmas.SvcLife
import NV.Gen.Hooks
namespace NV.C20
open NV NV.Router NV.Tmpl

/-- the regenerated constants of a firmware -/
def constsOf : Fw → FwConsts
  | .openwrt => Gen.Router.openwrt | .merlin => Gen.Router.merlin | .ddwrt => Gen.Router.ddwrt
  | .edgeos => Gen.Router.edgeos | .synology => Gen.Router.synology | .ubios => Gen.Router.ubios
  | .firewalla => Gen.Router.firewalla | .generic => Gen.Router.generic

abbrev names := Gen.Router.ddwrtSaveNames
abbrev vars := Gen.Router.ddwrtSetVars

/-! ## ties to the source -/

/-- what /verif/extract reads from the repository now is what the hand copy says (a change of a
template, port, path, listen expression, restart command, struct field, nvram list or of the
detection order breaks this obligation) -/
theorem gen_consts_agree :
    Gen.Router.openwrt = Hand.openwrt ∧ Gen.Router.merlin = Hand.merlin ∧ Gen.Router.ddwrt = Hand.ddwrt ∧
    Gen.Router.edgeos = Hand.edgeos ∧ Gen.Router.synology = Hand.synology ∧ Gen.Router.ubios = Hand.ubios ∧
    Gen.Router.firewalla = Hand.firewalla ∧ Gen.Router.generic = Hand.generic ∧
    Gen.Router.ddwrtSaveNames = Hand.ddwrtSaveNames ∧ Gen.Router.ddwrtSetVars = Hand.ddwrtSetVars ∧
    Gen.Router.detectOrder = Hand.detectOrder := by decide +kernel

/-- **C20 (regenerated)**: no firmware package assigns `Router.ListenPort` outside `New()`: the port
the templates name (several spell `5342` out instead of using `{{.ListenPort}}`) and the port put
into `c.Listens` are the same constant, which is what the rows of `forwards_to_listen` are computed
from. A Configure that picks another port at run time breaks this obligation. -/
theorem gen_listen_port_constant : Gen.Router.portReassigned = [] := by decide

/-- every firmware the property lists is reachable from detectRouter, under its own name, and
`generic` is the last resort -/
theorem detect_covers_all_firmwares :
    (∀ fw ∈ Fw.all, fw.name ∈ Gen.Router.detectOrder ∧ (constsOf fw).name = fw.name) ∧
    Gen.Router.detectOrder.getLast? = some Fw.generic.name := by decide +kernel

/-! ## forwards_to_listen (the whole table) -/

/-- dnsmasq directives of an installed text: its non-comment lines; for the merlin postconf script the
arguments of `pc_append "…"` before the `## NextDNS END` marker (what follows is the user's script) -/
def takeQuoted : Bytes → Bytes
  | [] => []
  | c :: r => if c = 34 then [] else c :: takeQuoted r

def directives (fw : Fw) (text : Bytes) : List Bytes :=
  match fw with
  | .merlin =>
    ((splitLines text).takeWhile (· ≠ endMarker)).filterMap fun l =>
      let l := dropWs l
      if isPrefix b!"pc_append \"" l then some (takeQuoted (l.drop 11)) else none
  | _ => (splitLines text).filter fun l => !isPrefix b!"#" l

structure Row where
  fw : Fw
  cache : Bool
  report : Bool
  port : Nat      -- openwrt uci dhcp.@dnsmasq[0].port: 0 absent, 1 "53", 2 "5353"
  dhcp : Bool     -- synology: DHCP enabled in /etc/dhcpd/dhcpd.info
  deriving DecidableEq, Repr

def allRows : List Row :=
  Fw.all.flatMap fun fw => [true, false].flatMap fun cache => [true, false].flatMap fun report =>
    match fw with
    | .openwrt => [0, 1, 2].map fun p => ⟨fw, cache, report, p, true⟩
    | .synology => [true, false].map fun d => ⟨fw, cache, report, 0, d⟩
    | _ => [⟨fw, cache, report, 0, true⟩]

/-- a pre-existing state on which the firmware is detected and can be set up -/
def rowState (r : Row) : Sys :=
  let files : Store := match r.fw with
    | .openwrt => [(b!"/etc/os-release", b!"ID=\"openwrt\"\n")]
    | .merlin => [(b!"/.nv/uname-o", b!"ASUSWRT-Merlin\n"), (b!"/jffs/scripts/dnsmasq.postconf", b!"#!/bin/sh\nexit 0\n")]
    | .ddwrt => [(b!"/.nv/uname-o", b!"DD-WRT\n")]
    | .edgeos => [(b!"/etc/ubnt/init/vyatta-router", [])]
    | .synology => [(b!"/.nv/uname-u", b!"synology_x\n"), (b!"/etc/dhcpd/dhcpd.info", if r.dhcp then b!"enable=\"yes\"\n" else b!"enable=\"no\"\n")]
    | .ubios => [(b!"/data/unifi/.keep", []), (b!"/run/dnsmasq.pid", b!"1234\n")]
    | .firewalla => [(b!"/etc/firewalla_release", [])]
    | .generic => []
  let uci : UStore := match r.fw with
    | .openwrt => [(kLanIP, [b!"192.168.1.1"])] ++
        (if r.port = 1 then [(kPort, [b!"53"])] else if r.port = 2 then [(kPort, [b!"5353"])] else [])
    | _ => []
  let s : Sys := { files := files, uciS := uci, uciC := uci }
  { s with view := some (snapOf s) }

def rowCfg (r : Row) : Cfg :=
  { listens := [b!"localhost:53"], cacheSize := if r.cache then b!"10MB" else b!"0", report := r.report, cacheOn := r.cache }

/-- New; Configure; Setup on the row's state -/
def rowRun (r : Row) : Option (Bool × Cfg × Sys) :=
  let c := constsOf r.fw
  match new c r.fw (rowState r) with
  | none => none
  | some o =>
    let a := configure c names vars r.fw o (rowCfg r) (rowState r)
    let b := setup c names vars r.fw a.2.1 a.2.2.2
    some (a.1 && b.1, a.2.2.1, b.2.2)

def stripPrefix (p l : Bytes) : Option Bytes := if isPrefix p l then some (l.drop p.length) else none

/-- the property on the outcome of a row -/
def rowSpec (r : Row) (cfg : Cfg) (s : Sys) : Bool :=
  let c := constsOf r.fw
  let text : Option Bytes := match r.fw with
    | .ddwrt => aget s.nvL b!"dnsmasq_options"
    | .generic => none
    | _ => aget s.files c.path
  let dirs := match text with | some t => directives r.fw t | none => []
  let servers := dirs.filter fun d => isPrefix b!"server=" d
  let synced := s.view = some (snapOf s)
  if cfg.listens = [b!":53"] then
    -- the proxy takes port 53: dnsmasq must not forward to it and its own DNS must be off port 53
    servers.isEmpty && synced &&
    (match text with
     | some _ => dirs.contains b!"port=0" ||
         (r.fw = .openwrt && (match aget s.uciC kPort with | some p => p ≠ [b!"53"] | none => false))
     | none => r.fw = .generic || (r.fw = .synology && !r.dhcp))
  else
    match cfg.listens with
    | [l] =>
      match (stripPrefix b!"127.0.0.1:" l).orElse (fun _ => stripPrefix b!"localhost:" l) with
      | some port =>
        servers = [b!"server=127.0.0.1#" ++ port] && synced &&
        (dirs.contains b!"add-mac" == (r.report || r.fw = .firewalla)) &&
        dirs.contains b!"add-subnet=32,128" && !dirs.contains b!"port=0"
      | none => false
    | _ => false

def rowOK (r : Row) : Bool :=
  match rowRun r with
  | some (true, cfg, s) => rowSpec r cfg s
  | _ => false

/-- FORWARDS_TO_LISTEN: for every firmware × cache on/off × client reporting on/off × firmware flag
(openwrt uci port absent/53/custom, synology DHCP on/off), after New; Configure; Setup the installed
dnsmasq text has exactly one `server=` directive and it names the address/port Configure put into
c.Listens (127.0.0.1 or localhost, same port) with `add-mac` iff client reporting (always on
firewalla) and `add-subnet=32,128`; or Configure chose `:53` and then there is no `server=` and
dnsmasq's DNS is off port 53 (`port=0`, or openwrt with a custom uci port; generic and synology with
DHCP disabled install nothing); and dnsmasq was restarted after the last change. -/
theorem forwards_to_listen : ∀ r ∈ allRows, rowOK r = true := by decide +kernel

example : allRows.length = 44 := by decide

/-! ## the restart commands of the source are restarts for dnsmasq -/

/-- tie: the argv's regenerated from the source are, for the tool semantics of the jail shims, a
restart of dnsmasq (ddwrt: stop, then start) — a changed argv breaks this obligation -/
theorem restart_cmds_effective (s : Sys) :
    runCmds Gen.Router.openwrt.cmds s = (true, restartNow s) ∧
    runCmds Gen.Router.merlin.cmds s = (true, restartNow s) ∧
    runCmds Gen.Router.edgeos.cmds s = (true, restartNow s) ∧
    runCmds Gen.Router.synology.cmds s = (true, restartNow s) ∧
    runCmds Gen.Router.firewalla.cmds s = (true, restartNow s) ∧
    runCmds Gen.Router.ddwrt.cmds s = (true, restartNow { s with view := none }) := by
  have e : Gen.Router.openwrt.cmds = [[b!"/etc/init.d/dnsmasq", b!"restart"]] ∧
      Gen.Router.merlin.cmds = [[b!"service", b!"restart_dnsmasq"]] ∧
      Gen.Router.edgeos.cmds = [[b!"sudo", b!"/etc/init.d/dnsmasq", b!"restart"]] ∧
      Gen.Router.synology.cmds = [[b!"/etc/rc.network", b!"nat-restart-dhcp"]] ∧
      Gen.Router.firewalla.cmds = [[b!"systemctl", b!"restart", b!"firerouter_dns.service"]] ∧
      Gen.Router.ddwrt.cmds = [[b!"stopservice", b!"dnsmasq"], [b!"startservice", b!"dnsmasq"]] := by decide +kernel
  obtain ⟨e1, e2, e3, e4, e5, e6⟩ := e
  rw [e1, e2, e3, e4, e5, e6]
  simp [runCmds, execCmd, execBase]

/-- the firmwares whose integration is a drop-in file removed on stop -/
abbrev RestartsBy (c : FwConsts) : Prop := ∀ s, runCmds c.cmds s = (true, restartNow s)

/-! ## Setup installs exactly the rendered template, whatever the pre-existing state

`forwards_to_listen` evaluates the renders on one state per table row; these theorems show that on
EVERY state a successful Setup leaves exactly `renderFw c o` (a function of the Router value only:
ListenPort, ClientReporting, CacheEnabled, SetPort0, CurrentPostConf) at the drop-in path and that
dnsmasq was restarted after it was written. -/

theorem setup_installs_render_file (c : FwConsts) (hc : RestartsBy c) (o : Obj) (s : Sys)
    (h : (fileSetup c o s).1 = true) :
    ∃ b, renderFw c o = .ok b ∧ (fileSetup c o s).2.2 = restartNow { s with files := aset s.files o.path b } := by
  unfold fileSetup at h ⊢
  by_cases hw : (writeTemplate c o s).1 = true
  · obtain ⟨b, hb, hs⟩ := writeTemplate_ok c o s hw
    exact ⟨b, hb, by simp [hw, hc _, hs]⟩
  · simp [hw] at h

theorem setup_installs_render_synology (c : FwConsts) (hc : RestartsBy c) (o : Obj) (s : Sys)
    (h : (synSetup c o s).1 = true) :
    ∃ b, renderFw c o = .ok b ∧ (synSetup c o s).2.2 =
      restartNow { s with files := aset (aset s.files o.path b) (synInfoPath o.path) b!"enable=\"yes\"" } := by
  unfold synSetup at h ⊢
  by_cases hw : (writeTemplate c o s).1 = true
  · obtain ⟨b, hb, hs⟩ := writeTemplate_ok c o s hw
    exact ⟨b, hb, by simp [hw, hc _, hs]⟩
  · simp [hw] at h

theorem setup_installs_render_ubios (c : FwConsts) (o : Obj) (s : Sys) (h : (ubSetup c o s).1 = true) :
    ∃ b, renderFw c o = .ok b ∧ (ubSetup c o s).2.2 = restartNow { s with files := aset s.files o.path b } := by
  unfold ubSetup at h ⊢
  by_cases hw : (writeTemplate c o s).1 = true
  · obtain ⟨b, hb, hs⟩ := writeTemplate_ok c o s hw
    simp only [hw] at h ⊢
    have hk := killDNSMasq_ok (writeTemplate c o s).2 (by simpa using h)
    rw [hs] at hk
    exact ⟨b, hb, by simp [hs, hk]⟩
  · simp [hw] at h

theorem setup_installs_render_openwrt (c : FwConsts) (hc : RestartsBy c) (o : Obj) (s : Sys)
    (h : (owFinish c o s).1 = true) :
    ∃ b, renderFw c o = .ok b ∧ aget (owFinish c o s).2.2.files o.path = some b ∧
      (owFinish c o s).2.2.view = some (snapOf (owFinish c o s).2.2) := by
  unfold owFinish at h ⊢
  by_cases hw : (writeTemplate c o s).1 = true
  · obtain ⟨b, hb, hs⟩ := writeTemplate_ok c o s hw
    refine ⟨b, hb, ?_⟩
    simp only [hw, hs] at h ⊢
    simp at h ⊢
    split
    · simp_all
    · split <;> (try split) <;> simp [hc, restartNow, uciCommit, uciAddList, snapOf]
  · simp [hw] at h

/-! ## restore_undoes — drop-in firmwares: after a successful Restore the drop-in is gone, no other
file changed, and dnsmasq was restarted after the removal.  The statement is about EVERY state and
EVERY Router value, hence it covers `Setup; Restore` from any pre-existing state as well as
`Setup; crash; New; Configure; Setup; Restore` (unclean_restart below). -/

def DropinGone (o : Obj) (s s' : Sys) : Prop :=
  aget s'.files o.path = none ∧ (∀ p, p ≠ o.path → aget s'.files p = aget s.files p) ∧
  s'.nvL = s.nvL ∧ s'.view = some (snapOf s')

theorem restore_undoes_edgeos_firewalla (c : FwConsts) (hc : RestartsBy c) (fw : Fw) (hfw : fw = .edgeos ∨ fw = .firewalla)
    (o : Obj) (s : Sys) (h : (restore c fw o s).1 = true) :
    DropinGone o s (restore c fw o s).2.2 ∧ (restore c fw o s).2.2.uciC = s.uciC := by
  rcases hfw with rfl | rfl <;>
  · unfold restore removeStrict at h ⊢
    cases hf : aget s.files o.path <;> simp [hf] at h ⊢
    simp [DropinGone, hc, restartNow, snapOf]
    intro p hp
    exact aget_adel_ne _ _ _ (Ne.symm hp)

theorem restore_undoes_ubios (c : FwConsts) (o : Obj) (s : Sys) (h : (restore c .ubios o s).1 = true) :
    DropinGone o s (restore c .ubios o s).2.2 ∧ (restore c .ubios o s).2.2.uciC = s.uciC := by
  unfold restore removeStrict at h ⊢
  cases hf : aget s.files o.path <;> simp [hf] at h ⊢
  have hk := killDNSMasq_ok _ h
  simp [DropinGone, hk, restartNow, snapOf]
  intro p hp
  exact aget_adel_ne _ _ _ (Ne.symm hp)

theorem restore_undoes_synology (c : FwConsts) (hc : RestartsBy c) (o : Obj) (hd : o.disabled = false) (s : Sys) :
    (restore c .synology o s).1 = true ∧
    DropinGone o s (restore c .synology o s).2.2 ∧ (restore c .synology o s).2.2.uciC = s.uciC := by
  unfold restore
  simp [hd, DropinGone, hc, restartNow, snapOf]
  intro p hp
  exact aget_adel_ne _ _ _ (Ne.symm hp)

theorem restore_undoes_openwrt_dropin (c : FwConsts) (hc : RestartsBy c) (o : Obj) (s : Sys)
    (h : (owRestore c o s).1 = true) : DropinGone o s (owRestore c o s).2.2 := by
  unfold owRestore at h ⊢
  have hp := owRestoreFwd_preserves (splitSp o.savedFwd) s
  by_cases hf : o.savedFwd ≠ []
  all_goals
    simp only [hf, if_false] at h ⊢
    split
    · simp_all
    · simp [DropinGone, hc _, restartNow, snapOf, uciCommit, uciDelList]
      refine ⟨?_, ?_, ?_⟩
      · split <;> (try split) <;> simp_all [uciCommit]
      · intro p hp'
        split <;> (try split) <;> simp_all [uciCommit, aget_adel_ne _ _ _ (Ne.symm hp')]
      · split <;> (try split) <;> simp_all [uciCommit]

/-- **start that fails half-way, then stop (edgeos, firewalla)**: whatever the service commands do
during Setup (`c'.cmds` is any list: e.g. the restart fails), the drop-in written by it is removed
by the Restore of the following stop, no other file changes, and dnsmasq is restarted after the
removal. -/
theorem restore_after_any_setup_file (c c' : FwConsts) (hc : RestartsBy c) (fw : Fw) (hfw : fw = .edgeos ∨ fw = .firewalla)
    (o : Obj) (s : Sys) (b : Bytes) (hw : renderFw c' o = .ok b) :
    let a := fileSetup c' o s
    let r := restore c fw a.2.1 a.2.2
    r.1 = true ∧ DropinGone o s r.2.2 ∧ r.2.2.uciC = s.uciC := by
  intro a r
  have hwt : writeTemplate c' o s = (true, { s with files := aset s.files o.path b }) := by
    simp [writeTemplate, hw]
  obtain ⟨pf, pu, _, pn, _⟩ := runCmds_preserves c'.cmds { s with files := aset s.files o.path b }
  have ha : a = ((runCmds c'.cmds { s with files := aset s.files o.path b }).1, o,
      (runCmds c'.cmds { s with files := aset s.files o.path b }).2) := by
    show fileSetup c' o s = _
    simp [fileSetup, hwt]
  have hfile : aget a.2.2.files o.path = some b := by
    rw [ha]; simp only []; rw [pf]; simp
  have hr : r = (true, o, restartNow { a.2.2 with files := adel a.2.2.files o.path }) := by
    show restore c fw a.2.1 a.2.2 = _
    have ho : a.2.1 = o := by rw [ha]
    rw [ho]
    rcases hfw with rfl | rfl <;> simp [restore, removeStrict, hfile, hc _]
  rw [hr]
  have hf2 : a.2.2.files = aset s.files o.path b := by rw [ha]; exact pf
  have hu2 : a.2.2.uciC = s.uciC := by rw [ha]; exact pu
  have hn2 : a.2.2.nvL = s.nvL := by rw [ha]; exact pn
  refine ⟨rfl, ⟨?_, ?_, ?_, ?_⟩, ?_⟩
  · simp [restartNow]
  · intro p hp
    simp only [restartNow, hf2]
    rw [aget_adel_ne _ _ _ (Ne.symm hp), aget_aset_ne _ _ _ _ (Ne.symm hp)]
  · simpa [restartNow] using hn2
  · simp [restartNow, snapOf]
  · simpa [restartNow] using hu2

/-! ## restore_undoes — ddwrt: for EVERY pre-existing nvram store (any values, multi-line, unset),
after setupDNSMasq (run by Setup, or by Configure in cache mode) and Restore every nvram variable
reads as before (unset ≡ empty), the values are committed, no file changed and dnsmasq was started
after the last change.  (True of the repaired internal.NVRAM; the `nvram show` parsing it replaces is
refuted below.) -/

theorem ddwrt_names_have_no_eq : ∀ n ∈ Gen.Router.ddwrtSaveNames, (61 : UInt8) ∉ n := by decide +kernel

theorem restore_undoes_ddwrt (o : Obj) (s : Sys)
    (h : (ddSetup Gen.Router.ddwrt names vars o s).1 = true) :
    let a := ddSetup Gen.Router.ddwrt names vars o s
    let r := ddRestore Gen.Router.ddwrt a.2.1 a.2.2
    r.1 = true ∧ (∀ k, nvGet r.2.2 k = nvGet s k) ∧ r.2.2.nvC = r.2.2.nvL ∧ r.2.2.files = s.files ∧
    r.2.2.uciC = s.uciC ∧ r.2.2.view = some (snapOf r.2.2) := by
  have hcmd : ∀ s, runCmds Gen.Router.ddwrt.cmds s = (true, restartNow { s with view := none }) :=
    fun s => (restart_cmds_effective s).2.2.2.2.2
  have hv : Gen.Router.ddwrtSetVars = Hand.ddwrtSetVars := gen_consts_agree.2.2.2.2.2.2.2.2.2.1
  have hn : Gen.Router.ddwrtSaveNames = Hand.ddwrtSaveNames := gen_consts_agree.2.2.2.2.2.2.2.2.1
  intro a r
  have ha : a = ddSetup Gen.Router.ddwrt names vars o s := rfl
  unfold ddSetup at ha h
  cases hr : renderFw Gen.Router.ddwrt o with
  | err => simp [hr] at h
  | unsupported => simp [hr] at h
  | ok rendered =>
    simp only [hr] at ha
    -- the variables set by Setup, as (name, value) pairs
    let pairs : List (Bytes × Bytes) := [(b!"dns_dnsmasq", b!"1"), (b!"dnsmasq_options", rendered), (b!"dns_crypt", b!"0"),
      (b!"dnssec", b!"0"), (b!"dnsmasq_no_dns_rebind", b!"0"), (b!"dnsmasq_add_mac", b!"0")]
    have hvars : (vars.map fun v => if v.2 then v.1 ++ rendered else v.1) = pairs.map fun p => p.1 ++ 61 :: p.2 := by
      show (Gen.Router.ddwrtSetVars.map _) = _
      rw [hv]; simp [Hand.ddwrtSetVars, pairs]
    have hpk : ∀ p ∈ pairs, (61 : UInt8) ∉ p.1 := by
      intro p hp
      simp only [pairs, List.mem_cons, List.not_mem_nil, or_false] at hp
      rcases hp with rfl | rfl | rfl | rfl | rfl | rfl <;> simp
    have hset := setNVRAMLoop_pairs pairs hpk s
    have hne : (vars.map fun v => if v.2 then v.1 ++ rendered else v.1).isEmpty = false := by
      rw [hvars]; simp [pairs]
    -- the saved values, as pairs
    have hsaved : getNVRAM names s = (names.map fun n => (n, nvGet s n)).map fun p => p.1 ++ 61 :: p.2 := by
      simp [getNVRAM, List.map_map, Function.comp_def]
    have hnk : ∀ p ∈ (names.map fun n => (n, nvGet s n)), (61 : UInt8) ∉ p.1 := by
      intro p hp
      simp only [List.mem_map] at hp
      obtain ⟨n, hn', rfl⟩ := hp
      exact ddwrt_names_have_no_eq n hn'
    have hnames_ne : (getNVRAM names s).isEmpty = false := by
      show (getNVRAM Gen.Router.ddwrtSaveNames s).isEmpty = false
      rw [hn]; simp [getNVRAM, Hand.ddwrtSaveNames]
    have hkeys : pairs.map (·.1) = names := by
      show _ = Gen.Router.ddwrtSaveNames
      rw [hn]; simp [pairs, Hand.ddwrtSaveNames]
    have hsetup : a = (true, { o with savedParams := getNVRAM names s },
        restartNow { (nvCommit { s with nvL := setAll pairs s.nvL }) with view := none }) := by
      rw [ha]
      simp only [setNVRAM, hne]
      rw [hvars, hset]
      simp [hcmd]
    have hr2 : r = (true, { o with savedParams := getNVRAM names s },
        restartNow { (nvCommit { (restartNow { (nvCommit { s with nvL := setAll pairs s.nvL }) with view := none }) with
          nvL := setAll (names.map fun n => (n, nvGet s n)) (setAll pairs s.nvL) }) with view := none }) := by
      show ddRestore Gen.Router.ddwrt a.2.1 a.2.2 = _
      rw [hsetup]
      simp only [ddRestore, setNVRAM, hnames_ne]
      rw [hsaved, setNVRAMLoop_pairs _ hnk]
      simp [hcmd, restartNow, nvCommit]
    rw [hr2]
    refine ⟨rfl, ?_, ?_, ?_, ?_, ?_⟩
    · intro k
      simp only [nvGet, nvCommit, restartNow]
      by_cases hk : k ∈ names
      · rw [aget_setAll_fun names (fun n => (aget s.nvL n).getD []) _ k hk]; simp
      · rw [aget_setAll_notin _ _ k (by simpa [List.map_map, Function.comp_def] using hk)]
        rw [aget_setAll_notin pairs _ k (by rw [hkeys]; exact hk)]
    · simp [nvCommit, restartNow]
    · simp [nvCommit, restartNow]
    · simp [nvCommit, restartNow]
    · simp [nvCommit, restartNow, snapOf]

/-- the hypothesis of `restore_undoes_ddwrt` is satisfiable: a store with a multi-line value, an unset
variable and a foreign variable whose value contains a line `dnssec=1` -/
def ddWitness : Sys :=
  { nvL := [(b!"dnsmasq_options", b!"cache-size=500\nlog-queries\n"), (b!"rc_startup", b!"echo\ndnssec=1\n"), (b!"dns_crypt", b!"1")] }

example : (ddSetup Gen.Router.ddwrt names vars {} ddWitness).1 = true := by decide +kernel

/-- **start that fails half-way, then stop (ddwrt)**: whatever the service commands do during
Setup — `c'.cmds` is ANY command list, in particular the real one with one command failing
(`faultConsts`, corollary below) — the nvram values were saved before anything was written, so the
Restore of the stop that follows re-installs every previous value, commits, and starts dnsmasq
after the last change. run.go only logs a Setup error and keeps the daemon running, so this is the
history `start (restart of dnsmasq fails); …; stop`. -/
theorem restore_after_any_setup_ddwrt (c' : FwConsts) (o : Obj) (s : Sys) (rendered : Bytes)
    (hr' : renderFw c' o = .ok rendered) :
    let a := ddSetup c' names vars o s
    let r := ddRestore Gen.Router.ddwrt a.2.1 a.2.2
    r.1 = true ∧ (∀ k, nvGet r.2.2 k = nvGet s k) ∧ r.2.2.nvC = r.2.2.nvL ∧ r.2.2.files = s.files ∧
    r.2.2.uciC = s.uciC ∧ r.2.2.view = some (snapOf r.2.2) := by
  have hcmd : ∀ s, runCmds Gen.Router.ddwrt.cmds s = (true, restartNow { s with view := none }) :=
    fun s => (restart_cmds_effective s).2.2.2.2.2
  have hv : Gen.Router.ddwrtSetVars = Hand.ddwrtSetVars := gen_consts_agree.2.2.2.2.2.2.2.2.2.1
  have hn : Gen.Router.ddwrtSaveNames = Hand.ddwrtSaveNames := gen_consts_agree.2.2.2.2.2.2.2.2.1
  intro a r
  let cs := c'.cmds
  let pairs : List (Bytes × Bytes) := [(b!"dns_dnsmasq", b!"1"), (b!"dnsmasq_options", rendered), (b!"dns_crypt", b!"0"),
    (b!"dnssec", b!"0"), (b!"dnsmasq_no_dns_rebind", b!"0"), (b!"dnsmasq_add_mac", b!"0")]
  have hvars : (vars.map fun v => if v.2 then v.1 ++ rendered else v.1) = pairs.map fun p => p.1 ++ 61 :: p.2 := by
    show (Gen.Router.ddwrtSetVars.map _) = _
    rw [hv]; simp [Hand.ddwrtSetVars, pairs]
  have hpk : ∀ p ∈ pairs, (61 : UInt8) ∉ p.1 := by
    intro p hp
    simp only [pairs, List.mem_cons, List.not_mem_nil, or_false] at hp
    rcases hp with rfl | rfl | rfl | rfl | rfl | rfl <;> simp
  have hne : (vars.map fun v => if v.2 then v.1 ++ rendered else v.1).isEmpty = false := by
    rw [hvars]; simp [pairs]
  have hsaved : getNVRAM names s = (names.map fun n => (n, nvGet s n)).map fun p => p.1 ++ 61 :: p.2 := by
    simp [getNVRAM, List.map_map, Function.comp_def]
  have hnk : ∀ p ∈ (names.map fun n => (n, nvGet s n)), (61 : UInt8) ∉ p.1 := by
    intro p hp
    simp only [List.mem_map] at hp
    obtain ⟨n, hn', rfl⟩ := hp
    exact ddwrt_names_have_no_eq n hn'
  have hnames_ne : (getNVRAM names s).isEmpty = false := by
    show (getNVRAM Gen.Router.ddwrtSaveNames s).isEmpty = false
    rw [hn]; simp [getNVRAM, Hand.ddwrtSaveNames]
  have hkeys : pairs.map (·.1) = names := by
    show _ = Gen.Router.ddwrtSaveNames
    rw [hn]; simp [pairs, Hand.ddwrtSaveNames]
  -- the state Setup leaves: the NextDNS values written and committed, then whatever `cs` did
  let s1 : Sys := nvCommit { s with nvL := setAll pairs s.nvL }
  have hsetup : a = ((runCmds cs s1).1, { o with savedParams := getNVRAM names s }, (runCmds cs s1).2) := by
    show ddSetup c' names vars o s = _
    unfold ddSetup
    simp only [hr', setNVRAM, hne]
    rw [hvars, setNVRAMLoop_pairs pairs hpk s]
    simp [s1, cs]
  obtain ⟨pf, pu, _, pn, _⟩ := runCmds_preserves cs s1
  let s2 : Sys := (runCmds cs s1).2
  have hr2 : r = (true, { o with savedParams := getNVRAM names s },
      restartNow { (nvCommit { s2 with nvL := setAll (names.map fun n => (n, nvGet s n)) s2.nvL }) with view := none }) := by
    show ddRestore Gen.Router.ddwrt a.2.1 a.2.2 = _
    rw [hsetup]
    simp only [ddRestore, setNVRAM, hnames_ne]
    rw [hsaved, setNVRAMLoop_pairs _ hnk]
    simp [hcmd, s2]
  rw [hr2]
  have hn2 : s2.nvL = setAll pairs s.nvL := by
    show (runCmds cs s1).2.nvL = _
    rw [pn]; rfl
  refine ⟨rfl, ?_, ?_, ?_, ?_, ?_⟩
  · intro k
    simp only [nvGet, nvCommit, restartNow, hn2]
    by_cases hk : k ∈ names
    · rw [aget_setAll_fun names (fun n => (aget s.nvL n).getD []) _ k hk]; simp
    · rw [aget_setAll_notin _ _ k (by simpa [List.map_map, Function.comp_def] using hk)]
      rw [aget_setAll_notin pairs _ k (by rw [hkeys]; exact hk)]
  · simp [nvCommit, restartNow]
  · simpa [nvCommit, restartNow, s1, s2] using pf
  · simpa [nvCommit, restartNow, s1, s2] using pu
  · simp [nvCommit, restartNow, snapOf]

theorem renderFw_faultConsts (c : FwConsts) (k : Nat) (o : Obj) : renderFw (faultConsts c k) o = renderFw c o := by
  unfold faultConsts
  split <;> rfl

/-- … in particular when the `k`-th service command of the regenerated restart sequence fails
(`stopservice dnsmasq` for k = 1, `startservice dnsmasq` for k = 2), for every pre-existing state. -/
theorem restore_after_failed_setup_ddwrt (k : Nat) (o : Obj) (s : Sys) (rendered : Bytes)
    (hr : renderFw Gen.Router.ddwrt o = .ok rendered) :
    let a := ddSetup (faultConsts Gen.Router.ddwrt k) names vars o s
    let r := ddRestore Gen.Router.ddwrt a.2.1 a.2.2
    r.1 = true ∧ (∀ k, nvGet r.2.2 k = nvGet s k) ∧ r.2.2.nvC = r.2.2.nvL ∧ r.2.2.files = s.files ∧
    r.2.2.uciC = s.uciC ∧ r.2.2.view = some (snapOf r.2.2) := by
  refine restore_after_any_setup_ddwrt (faultConsts Gen.Router.ddwrt k) o s rendered ?_
  rw [← hr]
  exact renderFw_faultConsts _ _ _

/-- the fault is real in the model: with the first or the second command failing Setup reports an
error, and after the first one dnsmasq is still running on the configuration it had (stale view),
after the second it is stopped — from the witness state of `restore_undoes_ddwrt`. -/
example : (ddSetup (faultConsts Gen.Router.ddwrt 1) names vars {} ddWitness).1 = false ∧
    (ddSetup (faultConsts Gen.Router.ddwrt 2) names vars {} ddWitness).1 = false ∧
    (ddSetup (faultConsts Gen.Router.ddwrt 2) names vars {} ddWitness).2.2.view = none := by decide +kernel

/-- the `nvram show` parsing that internal.NVRAM used before the repair does NOT have the property:
on `ddWitness` the multi-line value is cut to its first line, the line `dnssec=1` of rc_startup is
taken for the variable dnssec, and the unset variables are not recorded (so they are not restored) -/
theorem nvram_show_parsing_refuted :
    getNVRAMShow names ddWitness = [b!"dnsmasq_options=cache-size=500", b!"dnssec=1", b!"dns_crypt=1"] ∧
    getNVRAM names ddWitness = [b!"dns_dnsmasq=", b!"dnsmasq_options=cache-size=500\nlog-queries\n", b!"dns_crypt=1",
      b!"dnssec=", b!"dnsmasq_no_dns_rebind=", b!"dnsmasq_add_mac="] := by decide +kernel

/-! ## restore_undoes — merlin: the postconf script.  New() keeps `readPostConf` of the existing
script (bufio.Scanner lines, everything up to the last `## NextDNS END` line dropped, leading
newlines dropped, every line newline-terminated); Restore writes that back, or removes the file when
nothing is kept. -/

theorem restore_merlin (c : FwConsts) (hc : RestartsBy c) (o : Obj) (s : Sys) :
    let r := restore c .merlin o s
    r.1 = true ∧ aget r.2.2.files o.path = (if o.postConf ≠ [] then some o.postConf else none) ∧
    (∀ p, p ≠ o.path → aget r.2.2.files p = aget s.files p) ∧ r.2.2.nvL = s.nvL ∧ r.2.2.uciC = s.uciC ∧
    r.2.2.view = some (snapOf r.2.2) := by
  unfold restore
  by_cases hp : o.postConf ≠ []
  · simp [hp, hc _, restartNow, snapOf]
    intro p hpp
    exact aget_aset_ne _ _ _ _ (Ne.symm hpp)
  · simp [hp, hc _, restartNow, snapOf]
    intro p hpp
    exact aget_adel_ne _ _ _ (Ne.symm hpp)

/-- New; Configure; Setup; Restore -/
def cycle (fw : Fw) (cfg : Cfg) (s : Sys) : Option (Bool × Sys) :=
  let c := constsOf fw
  match new c fw s with
  | none => none
  | some o =>
    let a := configure c names vars fw o cfg s
    let b := setup c names vars fw a.2.1 a.2.2.2
    let d := restore c fw b.2.1 b.2.2
    some (a.1 && b.1 && d.1, d.2.2)

/-- RESTORE_UNDOES (merlin, full cycle, EVERY pre-existing state): after New; Configure; Setup;
Restore the postconf script is exactly `readPostConf` of what was there before (absent when that is
empty), no other file changed, and dnsmasq was restarted after the script was written back. -/
theorem restore_undoes_merlin (cfg : Cfg) (s s' : Sys) (ok : Bool) (h : cycle .merlin cfg s = some (ok, s')) :
    let path := Gen.Router.merlin.path
    let kept := readPostConf ((aget s.files path).getD [])
    aget s'.files path = (if kept ≠ [] then some kept else none) ∧
    (∀ p, p ≠ path → aget s'.files p = aget s.files p) ∧ s'.view = some (snapOf s') := by
  have hc : RestartsBy Gen.Router.merlin := fun s => (restart_cmds_effective s).2.1
  unfold cycle at h
  simp only [constsOf, new] at h
  split at h
  · simp at h
  · rename_i o ho
    split at ho
    · simp at ho
    · simp only [Option.some.injEq] at ho
      subst ho
      simp only [configure, setup, Option.some.injEq, Prod.mk.injEq] at h
      obtain ⟨_, hs'⟩ := h
      subst hs'
      simp only [fileSetup_obj]
      have hr := restore_merlin Gen.Router.merlin hc
        { path := Gen.Router.merlin.path, report := cfg.report, cache := cfg.cacheOn,
          postConf := readPostConf ((aget s.files Gen.Router.merlin.path).getD []) }
        (fileSetup Gen.Router.merlin
          { path := Gen.Router.merlin.path, report := cfg.report, cache := cfg.cacheOn,
            postConf := readPostConf ((aget s.files Gen.Router.merlin.path).getD []) } s).2.2
      obtain ⟨_, h2, h3, _, _, h6⟩ := hr
      refine ⟨h2, ?_, h6⟩
      intro p hp
      rw [h3 p hp]
      exact fileSetup_files _ _ _ p hp

/-- …hence byte-for-byte when the script is in the normal form `readPostConf` produces (LF line
ends, final newline, no leading blank line, no marker line) — `_partial`: the full statement
"previous script content is back" is false for other scripts (next theorem). -/
theorem restore_undoes_merlin_partial (cfg : Cfg) (s s' : Sys) (ok : Bool) (orig : Bytes)
    (ho : aget s.files Gen.Router.merlin.path = some orig) (hn : readPostConf orig = orig) (hne : orig ≠ [])
    (h : cycle .merlin cfg s = some (ok, s')) :
    aget s'.files Gen.Router.merlin.path = some orig := by
  have := (restore_undoes_merlin cfg s s' ok h).1
  simp only [ho, Option.getD_some, hn] at this
  simpa [hne] using this

example : readPostConf b!"#!/bin/sh\npc_append \"log-queries\" $1\n" = b!"#!/bin/sh\npc_append \"log-queries\" $1\n" := by
  decide +kernel

/-- the script is NOT restored byte-for-byte in general: a script without final newline gets one, CR
line ends are dropped, text above a `## NextDNS END` line is dropped (that is how NextDNS's own
head is recognised after an unclean stop), a script of blank lines is removed -/
theorem restore_not_bytewise_merlin :
    readPostConf b!"#!/bin/sh\necho hi" = b!"#!/bin/sh\necho hi\n" ∧
    readPostConf b!"a\r\nb\r\n" = b!"a\nb\n" ∧
    readPostConf b!"mine\n## NextDNS END\nrest\n" = b!"rest\n" ∧
    readPostConf b!"\n\n" = [] := by decide +kernel

/-! ## unclean_restart: `Setup; crash; New; Configure; Setup; Restore` -/

/-- New; Configure; Setup; (crash: the Router value is lost); New; Configure; Setup — the Router
value and the state on which Restore then runs -/
def afterCrash (fw : Fw) (cfg : Cfg) (s : Sys) : Option (Obj × Sys) :=
  let c := constsOf fw
  match new c fw s with
  | none => none
  | some o1 =>
    let a := configure c names vars fw o1 cfg s
    let b := setup c names vars fw a.2.1 a.2.2.2
    match new c fw b.2.2 with
    | none => none
    | some o2 =>
      let a2 := configure c names vars fw o2 cfg b.2.2
      let b2 := setup c names vars fw a2.2.1 a2.2.2.2
      some (b2.2.1, b2.2.2)

/-- UNCLEAN_RESTART for the drop-in firmwares (openwrt, edgeos, synology, ubios, firewalla): a
successful Restore removes the drop-in and restarts dnsmasq afterwards — on the state left by an
unclean stop followed by a new start, as on ANY other state (the proof does not look at the history:
Restore does not depend on anything saved by Setup for the drop-in). -/
theorem unclean_restart (fw : Fw) (hfw : fw ∈ [Fw.openwrt, .edgeos, .synology, .ubios, .firewalla])
    (cfg : Cfg) (s : Sys) (o1 : Obj) (s1 : Sys) (_h : afterCrash fw cfg s = some (o1, s1))
    (hsyn : fw = .synology → o1.disabled = false)
    (hok : (restore (constsOf fw) fw o1 s1).1 = true) :
    DropinGone o1 s1 (restore (constsOf fw) fw o1 s1).2.2 := by
  simp only [List.mem_cons, List.not_mem_nil, or_false] at hfw
  rcases hfw with rfl | rfl | rfl | rfl | rfl
  · exact restore_undoes_openwrt_dropin _ (fun s => (restart_cmds_effective s).1) o1 s1 hok
  · exact (restore_undoes_edgeos_firewalla _ (fun s => (restart_cmds_effective s).2.2.1) .edgeos (Or.inl rfl) o1 s1 hok).1
  · exact (restore_undoes_synology _ (fun s => (restart_cmds_effective s).2.2.2.1) o1 (hsyn rfl) s1).2.1
  · exact (restore_undoes_ubios _ o1 s1 hok).1
  · exact (restore_undoes_edgeos_firewalla _ (fun s => (restart_cmds_effective s).2.2.2.2.1) .firewalla (Or.inr rfl) o1 s1 hok).1

/-- non-vacuity: the history exists and Restore succeeds on it (edgeos, cache off) -/
example : (afterCrash .edgeos (rowCfg ⟨.edgeos, false, true, 0, true⟩) (rowState ⟨.edgeos, false, true, 0, true⟩)).map
    (fun p => (restore (constsOf .edgeos) .edgeos p.1 p.2).1) = some true := by decide +kernel

/-- UNCLEAN_RESTART is FALSE for ddwrt (recorded finding): after Setup; crash; New; Configure; Setup;
Restore the nvram variable dnsmasq_options still holds the text rendered by NextDNS, forwarding to
127.0.0.1#5342, and dnsmasq was restarted with it: the second Setup saved NextDNS's own values. -/
theorem unclean_restart_ddwrt_violated :
    (afterCrash .ddwrt (rowCfg ⟨.ddwrt, false, true, 0, true⟩) (rowState ⟨.ddwrt, false, true, 0, true⟩)).map
      (fun p =>
        let r := restore (constsOf .ddwrt) .ddwrt p.1 p.2
        (r.1, containsSub b!"server=127.0.0.1#5342" (nvGet r.2.2 b!"dnsmasq_options"), decide (r.2.2.view = some (snapOf r.2.2))))
    = some (true, true, true) := by decide +kernel

/-! ### merlin after an unclean stop: NextDNS's own head is recognised and dropped -/

def merlinToks : List Tok := (lex Gen.Router.merlin.tmpl).getD []
def cpc : Bytes := b!"CurrentPostConf"
def merlinPre : List Tok := merlinToks.dropLast

/-- the script head NextDNS renders in front of the user's script -/
def merlinHead (report cache : Bool) : Bytes :=
  match renderFw Gen.Router.merlin { report := report, cache := cache } with
  | .ok h => h
  | _ => []

/-- tie: shape of the regenerated merlin template — it is well-formed, `{{.CurrentPostConf}}` is its
last token and the only use of that field, the tokens before it read only CacheEnabled and
ClientReporting, and for each of the four flag values they render a head that ends with the line
`## NextDNS END` -/
theorem merlin_template_shape :
    lex Gen.Router.merlin.tmpl = some (merlinPre ++ [.field cpc]) ∧
    (merlinPre ++ [Tok.field cpc]).any (· = .bad) = false ∧ balanced (merlinPre ++ [.field cpc]) [] = true ∧
    merlinPre.all (fun t => match tokField t with
      | some n => n = b!"CacheEnabled" || n = b!"ClientReporting" | none => true) = true ∧
    (∀ r c : Bool, runToks (envOf Gen.Router.merlin { report := r, cache := c }) merlinPre ([], []) = some ([], merlinHead r c)) ∧
    (∀ r c : Bool, merlinHead r c = (merlinHead r c).dropLast ++ [10] ∧
      splitLines ((merlinHead r c).dropLast ++ [10]) = (splitLines (merlinHead r c)).dropLast ++ [endMarker]) ∧
    Gen.Router.merlin.fields = [(b!"DNSMasqPath", false), (b!"ListenPort", false), (b!"ClientReporting", true),
      (b!"CacheEnabled", true), (b!"CurrentPostConf", false)] := by decide +kernel

/-- the merlin template never fails and renders head(flags) ++ CurrentPostConf, for EVERY Router value -/
theorem merlin_render (o : Obj) : renderFw Gen.Router.merlin o = .ok (merlinHead o.report o.cache ++ o.postConf) := by
  obtain ⟨h1, h2, h3, h4, h5, _, h7⟩ := merlin_template_shape
  have hagree : ∀ t ∈ merlinPre, ∀ n, tokField t = some n →
      envOf Gen.Router.merlin o n = envOf Gen.Router.merlin { report := o.report, cache := o.cache } n := by
    intro t ht n hn
    have := List.all_eq_true.mp h4 t ht
    simp only [hn, Bool.or_eq_true, decide_eq_true_eq] at this
    rcases this with rfl | rfl <;> simp [envOf, h7, aget]
  unfold renderFw render
  rw [h1]
  simp only [execToks, h2, h3]
  rw [runToks_append, runToks_congr _ _ _ _ hagree, h5]
  simp [runToks, stepTok, active, envOf, h7, aget, cpc, printVal]

theorem merlin_setup_always_ok (o : Obj) (s : Sys) :
    fileSetup Gen.Router.merlin o s =
      (true, o, restartNow { s with files := aset s.files o.path (merlinHead o.report o.cache ++ o.postConf) }) := by
  have hc : RestartsBy Gen.Router.merlin := fun s => (restart_cmds_effective s).2.1
  simp [fileSetup, writeTemplate, merlin_render, hc _]

/-- UNCLEAN_RESTART (merlin, EVERY pre-existing script): after Setup; crash; New; Configure; Setup;
Restore the postconf script is `readPostConf (readPostConf original)` (absent when empty) — a function
of the user's original script only: nothing rendered by NextDNS is left — no other file changed and
dnsmasq was restarted after the script was written back. -/
theorem unclean_restart_merlin (cfg : Cfg) (s : Sys) (o1 : Obj) (s1 : Sys)
    (h : afterCrash .merlin cfg s = some (o1, s1)) :
    let path := Gen.Router.merlin.path
    let kept := readPostConf (readPostConf ((aget s.files path).getD []))
    let r := restore (constsOf .merlin) .merlin o1 s1
    r.1 = true ∧ aget r.2.2.files path = (if kept ≠ [] then some kept else none) ∧
    (∀ p, p ≠ path → aget r.2.2.files p = aget s.files p) ∧ r.2.2.view = some (snapOf r.2.2) := by
  have hc : RestartsBy Gen.Router.merlin := fun s => (restart_cmds_effective s).2.1
  obtain ⟨_, _, _, _, _, h6, _⟩ := merlin_template_shape
  unfold afterCrash at h
  simp only [constsOf] at h
  cases hd : detected .merlin s with
  | false => simp [new, hd] at h
  | true =>
    have hn1 : new Gen.Router.merlin .merlin s = some
        { path := Gen.Router.merlin.path, postConf := readPostConf ((aget s.files Gen.Router.merlin.path).getD []) } := by
      simp [new, hd]
    rw [hn1] at h
    simp only [configure, setup, merlin_setup_always_ok] at h
    generalize hs2 : restartNow _ = s2 at h
    cases hd2 : detected .merlin s2 with
    | false => simp [new, hd2] at h
    | true =>
      have hn2 : new Gen.Router.merlin .merlin s2 = some
          { path := Gen.Router.merlin.path, postConf := readPostConf ((aget s2.files Gen.Router.merlin.path).getD []) } := by
        simp [new, hd2]
      rw [hn2] at h
      simp only [Option.some.injEq, Prod.mk.injEq] at h
      obtain ⟨ho1, hs1⟩ := h
      obtain ⟨hh1, hh2⟩ := h6 cfg.report cfg.cacheOn
      have hfile : (aget s2.files Gen.Router.merlin.path).getD [] =
          merlinHead cfg.report cfg.cacheOn ++ readPostConf ((aget s.files Gen.Router.merlin.path).getD []) := by
        rw [← hs2]; simp [restartNow]
      have hkept : readPostConf ((aget s2.files Gen.Router.merlin.path).getD []) =
          readPostConf (readPostConf ((aget s.files Gen.Router.merlin.path).getD [])) := by
        rw [hfile, hh1, List.append_assoc]
        exact readPostConf_after_head _ _ _ hh2
      rw [hkept] at ho1
      have hr := restore_merlin Gen.Router.merlin hc o1 s1
      intro path kept r
      obtain ⟨r1, r2, r3, _, _, r6⟩ := hr
      have hp1 : o1.path = Gen.Router.merlin.path := by rw [← ho1]
      have hpc : o1.postConf = kept := by rw [← ho1]
      refine ⟨r1, ?_, ?_, r6⟩
      · rw [hp1, hpc] at r2; exact r2
      · intro p hp
        rw [hp1] at r3
        show aget (restore Gen.Router.merlin Fw.merlin o1 s1).2.2.files p = aget s.files p
        rw [r3 p hp, ← hs1]
        simp only [restartNow]
        rw [aget_aset_ne _ _ _ _ (Ne.symm hp), ← hs2]
        simp only [restartNow]
        exact aget_aset_ne _ _ _ _ (Ne.symm hp)

/-- non-vacuity: the unclean history exists on a merlin router with a user script -/
example : (afterCrash .merlin (rowCfg ⟨.merlin, true, true, 0, true⟩) (rowState ⟨.merlin, true, true, 0, true⟩)).isSome = true := by
  decide +kernel

/-! ## openwrt: the uci store after Setup; Restore (every pre-existing state) -/

/-- **RESTORE_UNDOES (openwrt, uci store, non-cache mode), partial**: for EVERY pre-existing staged
uci store — any forwarder list as uci holds it (non-empty values without white space), any DHCP
option list of the user's own — whatever the service commands do (their results are not assumed),
after Setup followed by Restore the committed store is, key by key, what the user had: the
forwarders NextDNS removed are back, the DHCP option it added is gone, nothing else changed.
`_partial`: under the hypothesis that the user's DHCP options do not already contain
`6,<router ip>` — the other case is the recorded finding
(`restore_undoes_openwrt_dhcp_option_violated`). The store is equal as a MAP, not as a list (the
re-added forwarders move to the end; example in NV.Lemmas.RouterUci). -/
theorem restore_undoes_openwrt_uci_partial (c : FwConsts) (o : Obj) (s : Sys) (ip : Bytes)
    (hcache : o.cache = false) (hip : uciGet s kLanIP = some ip)
    (hopt : ∀ ds, aget s.uciS kDhcpOpt = some ds →
      ds ≠ [] ∧ containsSub (b!"6," ++ ip) (trimSpace (joinSp ds)) = false)
    (hfwd : ∀ vs, aget s.uciS kServer = some vs → vs ≠ [] ∧ ∀ v ∈ vs, v ≠ [] ∧ ∀ ch ∈ v, isWs ch = false)
    (hrender : (writeTemplate c o s).1 = true) :
    let r1 := owSetupDNSMasq c o s
    let r2 := owRestore c r1.2.1 r1.2.2
    ∀ k, aget r2.2.2.uciC k = aget s.uciS k :=
  ow_setup_restore_uci_staged c o s ip hcache hip hopt hfwd hrender

/-! ## recorded findings as negative witnesses (the full statements are false of the code) -/

/-- restore_undoes is FALSE for openwrt's uci store when the user already had DHCP option
`6,<router ip>`: Setup adds nothing, Restore deletes the user's entry (recorded finding).  With another
option in the list the store is restored (second component). -/
theorem restore_undoes_openwrt_dhcp_option_violated :
    let s0 (opts : List Bytes) : Sys :=
      let u : UStore := [(kLanIP, [b!"192.168.1.1"]), (kDhcpOpt, opts)]
      { files := [(b!"/etc/os-release", b!"ID=\"openwrt\"\n")], uciS := u, uciC := u }
    let cfg : Cfg := { listens := [b!"localhost:53"], cacheSize := b!"0" }
    (cycle .openwrt cfg (s0 [b!"3,192.168.1.1", b!"6,192.168.1.1"])).map (fun r => (r.1, aget r.2.uciC kDhcpOpt))
      = some (true, some [b!"3,192.168.1.1"]) ∧
    (cycle .openwrt cfg (s0 [b!"3,192.168.1.1"])).map (fun r => (r.1, aget r.2.uciC kDhcpOpt))
      = some (true, some [b!"3,192.168.1.1"]) := by decide +kernel

/-- forwards_to_listen is FALSE on ubios when Configure fails (UDM content filtering on): run.go
logs the error and still runs Setup, which installs `server=127.0.0.1#5342` while c.Listens is still
the default (recorded finding; the table theorem covers the rows where Configure succeeds). -/
theorem ubios_setup_after_failed_configure :
    let s0 : Sys := { files := [(b!"/data/unifi/.keep", []), (b!"/run/dnsmasq.pid", b!"1234\n"), (b!"/run/dnsfilter/dnsfilter", b!"x")] }
    let cfg : Cfg := { listens := [b!"localhost:53"], cacheSize := b!"0", report := true }
    (new (constsOf .ubios) .ubios s0).map (fun o =>
      let a := configure (constsOf .ubios) names vars .ubios o cfg s0
      let b := setup (constsOf .ubios) names vars .ubios a.2.1 a.2.2.2
      (a.1, a.2.2.1.listens, b.1,
        (aget b.2.2.files Gen.Router.ubios.path).map fun t => (directives .ubios t).filter (isPrefix b!"server=")))
    = some (false, [b!"localhost:53"], true, some [b!"server=127.0.0.1#5342"]) := by decide +kernel


/-! ### OnStarted / OnStopped wiring (run.go) and the life cycle it hangs on -/
section Wiring
open NV.SvcStart NV.SvcLife

/-- what undoes a start-up hook -/
def undoOf : String → String
  | "r.Setup" => "r.Restore"
  | "activate" => "deactivate"
  | _ => "?"

/-- the value of a registration condition of run() under a configuration; conditions the model does
not know make the registration unknown (`none`) -/
def condVal (setupRouter autoActivate : Bool) : String → Option Bool
  | "c.SetupRouter" => some setupRouter
  | "c.AutoActivate" => some autoActivate
  | "" => some true
  | _ => none

/-- the calls of one hook round under a configuration, from the REGENERATED registration table -/
def hookCalls (setupRouter autoActivate : Bool) (list : String) : Option (List String) :=
  Gen.Hooks.wiring.foldr (fun w acc =>
    if w.2.1 != list then acc else
    match condVal setupRouter autoActivate w.1, acc with
    | some true, some cs => some (w.2.2 ++ cs)
    | some false, some cs => some cs
    | _, _ => none) (some [])

/-- the start-up calls of a configuration -/
def upCalls (sr aa : Bool) : List String :=
  (if sr then ["r.Setup"] else []) ++ (if aa then ["activate"] else [])

/-- **(regenerated)** for every configuration the shut-down round undoes exactly what the start-up round
did, in the same order: `r.Setup` ↔ `r.Restore` under `-setup-router`, `activate` ↔ `deactivate` under
`-auto-activate`, nothing else and nothing under another condition. -/
theorem gen_wiring_paired (sr aa : Bool) :
    hookCalls sr aa "OnStarted" = some (upCalls sr aa) ∧
    hookCalls sr aa "OnStopped" = some ((upCalls sr aa).map undoOf) := by
  cases sr <;> cases aa <;> decide

/-- the hook calls of a whole history of hook rounds -/
def expand (sr aa : Bool) (log : List Hook) : List String :=
  log.flatMap fun h => ((hookCalls sr aa (match h with | .up => "OnStarted" | .down => "OnStopped")).getD ["?"])

/-- **regenerated**: `Start()` runs the `OnStarted` round itself — one loop over the list, not under `go`, not inside a function
literal — so the round is over when `Start()` returns, and a `Stop()` the run loop makes afterwards (`runLoopOps`) finds
everything `Setup` did (`NV.SvcLife.step`: the `up` entry is in the log when `.start` returns). -/
theorem gen_start_hooks_inline : Gen.Hooks.startHookRounds = 1 ∧ Gen.Hooks.startHookRoundsAsync = 0 := by decide

/-- **the daemon under its run loop, every configuration, every start outcome, every signal sequence**:
a run that started and received a stopping signal made exactly the start-up calls followed by their
undoing calls (router Restore after Setup, deactivate after activate); a run that never started made none;
only a run that is still serving has start-up calls not yet undone. -/
theorem run_undoes_setup (sr aa fg : Bool) (as : List Att) (sigs : List Sig) :
    ∃ s us, SvcLife.run SvcLife.init (runLoopOps fg as sigs) = some s ∧ hookCalls sr aa "OnStarted" = some us ∧
      expand sr aa s.log =
        (if svcStart as = .started then
           (if sigs.any (stopsOn fg) = true then us ++ us.map undoOf else us) else []) := by
  obtain ⟨s, hr, hl, _⟩ := NV.SvcLife.service_run_log' fg as sigs
  obtain ⟨hu, hd⟩ := gen_wiring_paired sr aa
  refine ⟨s, upCalls sr aa, hr, hu, ?_⟩
  rw [hl]
  by_cases h1 : svcStart as = .started
  · by_cases h2 : sigs.any (stopsOn fg) = true
    · simp [h1, h2, expand, hu, hd]
    · simp [h1, h2, expand, hu]
  · simp [h1, expand]

end Wiring

end NV.C20
