/-
  C13 — client addresses in ECS are consumed, never forwarded upstream.

  SPEC side: `NV.Spec.QueryMsg` (structured query + RFC encoding).  CODE side: `NV.parse`
  (`resolver/query/query.go` `parse` + `nutterECSOption` through the dnsmessage model), tied to
  the real `query.New` by the `parse` correspondence area and to the source constants by
  `NV.Gen.Query`.  All statements quantify over every structured query (any number / order of
  options, any question, any pre-OPT additional records) or over every byte string; no bounds.
  Helper lemmas: `NV/Lemmas/Query.lean`.
-/
import NV.Lemmas.Query
import NV.Gen.Query
namespace NV.C13
open NV NV.Spec

/-- the same query with every client-subnet option replaced by the inert option -/
def consumed (m : QueryMsg) : QueryMsg := { m with opts := m.opts.map neutral }

/-- **C13 (headline)**: for every structured query whose options are at most 255 bytes long
(every real ECS option is ≤ 20), `parse` succeeds and the payload it leaves behind — the bytes that
go upstream — is exactly the encoding of the same query in which each ECS option with FAMILY 1/2
and ≥ 8 data bytes has code 0xFFFF and all-zero data of the same length.  Since `encode` is
injective on structure, EVERY OTHER BYTE (header, question, other records, other options, option
lengths, RDLENGTH) is unchanged. -/
theorem ecs_consumed (m : QueryMsg) (hwf : m.WF) (h255 : ∀ o ∈ m.opts, o.data.length ≤ 255) :
    ∃ q, parse (encode m) = .done .ok q ∧ q.payload = encode (consumed m) := by
  refine ⟨_, parse_encode m hwf, ?_⟩
  rw [applyOpts_payload]
  have hfr : (front m).length + 11 = (front m ++ encRH [] 41 m.udpSize m.optTTL (encOpts m.opts).length).length := by
    simp [encRH_length, encLabels]
  have hp : (q0 m (encode m)).payload
      = (front m ++ encRH [] 41 m.udpSize m.optTTL (encOpts m.opts).length) ++ encOpts m.opts := by
    simp [q0, encode, encOPT_eq]
  rw [hfr, hp, foldl_stepPayload_enc m.opts _ h255]
  have hlen : ∀ os : List EOpt, (encOpts (os.map neutral)).length = (encOpts os).length := by
    intro os; induction os with
    | nil => rfl
    | cons o os ih => simp [encOpts, ih, neutral_data_length]
  simp [consumed, encode, front, header, encOPT_eq, hlen]

/-- the rewrite keeps the message length (so all offsets and counts stay valid) -/
theorem consumed_same_length (m : QueryMsg) : (encode (consumed m)).length = (encode m).length := by
  have hlen : ∀ os : List EOpt, (encOpts (os.map neutral)).length = (encOpts os).length := by
    intro os; induction os with
    | nil => rfl
    | cons o os ih => simp [encOpts, ih, neutral_data_length]
  simp [consumed, encode, front, header, encOPT, hlen]

/-- what is left in place of a consumed option: code 0xFFFF, the original length, zeros -/
theorem neutral_shape (o : EOpt) (h : isECS o) :
    encOpt (neutral o) = [255, 255] ++ be16 o.data.length ++ List.replicate o.data.length 0 := by
  simp [neutral, h, encOpt, be16, b8]

/-- … and every other option is forwarded untouched -/
theorem other_option_untouched (o : EOpt) (h : ¬ isECS o) : neutral o = o := by
  simp [neutral, h]

/-- **C13 (identity)**: the client address is taken from the last option that carries a full
address (FAMILY 1 with prefix 32; FAMILY 2 with prefix 128 and all 16 address bytes), otherwise
the socket peer is kept (`none`).  Holds for every option length. -/
theorem peer_ip_spec (m : QueryMsg) (hwf : m.WF) :
    ∃ q, parse (encode m) = .done .ok q ∧ q.peerIP = specPeer m.opts none := by
  refine ⟨_, parse_encode m hwf, ?_⟩
  rw [applyOpts_peer, foldl_stepPeer_spec]
  rfl

/-- **C13**: `parse` never changes the length of the payload — for EVERY byte string, also
malformed ones and whatever stage it stops at. -/
theorem payload_length_preserved (payload : Bytes) (st : Stage) (q : Query)
    (h : parse payload = .done st q) : q.payload.length = payload.length :=
  parse_payload_len payload st q h

/-- **C13**: `nutterECSOption` never reads or writes outside the payload: the version of the
function in which every Go index expression is checked never panics, for every payload and
every data offset, and computes the same bytes. -/
theorem nutter_no_oob (payload : Bytes) (dataOff : Nat) :
    nutterECS? payload dataOff = some (nutterECS payload dataOff) :=
  nutterECS?_eq payload dataOff

/-- **C13 (upstream side)**: the body POSTed by `DOH.resolve` is `q.Payload`
(resolver/doh.go: `bytes.NewReader(q.Payload)`), hence for every structured query with options
≤ 255 bytes it is the encoding of a query none of whose options is a client-subnet option or
carries a full client address. -/
theorem no_address_leaves (m : QueryMsg) (hwf : m.WF) (h255 : ∀ o ∈ m.opts, o.data.length ≤ 255) :
    ∃ q, parse (encode m) = .done .ok q ∧ dohPostBody q = encode (consumed m) ∧
      ∀ o ∈ (consumed m).opts, ¬ isECS o ∧ carried o = none := by
  obtain ⟨q, hq, hp⟩ := ecs_consumed m hwf h255
  refine ⟨q, hq, hp, ?_⟩
  intro o ho
  simp only [consumed, List.mem_map] at ho
  obtain ⟨o', _, rfl⟩ := ho
  by_cases h : isECS o'
  · have hn : neutral o' = ⟨0xFFFF, List.replicate o'.data.length 0⟩ := by
      unfold neutral; rw [if_pos h]
    rw [hn]
    simp [isECS, carried]
  · have h' := h
    have hn : neutral o' = o' := by unfold neutral; rw [if_neg h]
    rw [hn]
    refine ⟨h, ?_⟩
    unfold isECS at h'
    unfold carried
    split
    · rename_i hc
      split
      · rename_i h1; exact absurd ⟨hc.1, hc.2, Or.inl h1.1⟩ h'
      · split
        · rename_i h2; exact absurd ⟨hc.1, hc.2, Or.inr h2.1⟩ h'
        · rfl
    · rfl

/-! ### the negative half, kept visible (DESIGN §7 #6, known finding C13-ecs-len-ge-256)

Full statement WITHOUT the length hypothesis — false of the code:
  `∀ m, m.WF → ∃ q, parse (encode m) = .done .ok q ∧ q.payload = encode (consumed m)`.
`nutterECSOption` reads only the LOW byte of OPTION-LENGTH (`size := int(payload[off+3])`), so for
an option of 256·k + r bytes only the first r data bytes are zeroed. -/

/-- witness: one ECS option, FAMILY 1, prefix 32, address 192.0.2.1, padded to 256 data bytes -/
def w256 : QueryMsg :=
  { id := 0x1234, flags := 0x0100, qname := [[97]], qtype := 1, qcls := 1, pre := [],
    udpSize := 1232, optTTL := 0,
    opts := [⟨8, [0, 1, 32, 0, 192, 0, 2, 1] ++ List.replicate 248 0⟩] }

set_option maxRecDepth 20000 in
theorem w256_wf : w256.WF := by
  constructor <;> decide

set_option maxRecDepth 20000 in
/-- with OPTION-LENGTH 256 nothing is zeroed: the option code becomes 0xFFFF but the client
address 192.0.2.1 is still in the bytes sent upstream, and it is also used as PeerIP. -/
theorem ecs_len_ge_256_witness :
    ∃ q, parse (encode w256) = .done .ok q ∧ q.payload ≠ encode (consumed w256) ∧
      slice q.payload 38 4 = [192, 0, 2, 1] ∧ q.peerIP = some [192, 0, 2, 1] := by
  refine ⟨_, parse_encode w256 w256_wf, ?_, ?_, ?_⟩
  · rw [applyOpts_payload]; decide
  · rw [applyOpts_payload]; decide
  · rw [applyOpts_peer]; decide

/-! ### ties to the source (regenerated by /verif/extract from resolver/query/query.go) -/

/-- the option codes `parse` switches on, and the bytes `nutterECSOption` writes, as the model
has them -/
theorem gen_query_consts_agree :
    Gen.edns0Subnet = 8 ∧ Gen.edns0Mac = 0xfde9 ∧ Gen.nutterHi = 255 ∧ Gen.nutterLo = 255 ∧
    Gen.nutterFill = 0 := by decide

/-- the model reacts to exactly the two regenerated option codes -/
theorem gen_only_two_codes (o : Opt) (q : Query) (h1 : o.code ≠ Gen.edns0Subnet) (h2 : o.code ≠ Gen.edns0Mac) :
    applyOpts [o] q = q := by
  have h1' : ¬ o.code = 8 := h1
  have h2' : ¬ o.code = 0xfde9 := h2
  simp [applyOpts, h1', h2']

/-- the model writes exactly the regenerated bytes over a consumed option -/
theorem gen_nutter_agree (o : EOpt) (A B : Bytes) (h1 : 1 ≤ o.data.length) (h255 : o.data.length ≤ 255) :
    nutterECS (A ++ (encOpt o ++ B)) (A.length + 4)
      = A ++ ([b8 Gen.nutterHi, b8 Gen.nutterLo] ++ be16 o.data.length
              ++ List.replicate o.data.length (b8 Gen.nutterFill) ++ B) := by
  rw [nutterECS_enc o A B h1 h255]
  simp [encOpt, be16, b8, Gen.nutterHi, Gen.nutterLo, Gen.nutterFill]

/-! ### non-vacuity -/

/-- a well-formed query with a pre-OPT additional record, an IPv4/32 ECS option, a cookie and
an IPv6/128 ECS option: all hypotheses of `ecs_consumed` hold and two options are consumed -/
def ex1 : QueryMsg :=
  { id := 7, flags := 0x0100, qname := [[119, 119, 119], [97]], qtype := 28, qcls := 1,
    pre := [⟨[[120]], 1, 1, 60, [10, 0, 0, 1]⟩],
    udpSize := 4096, optTTL := 0x8000,
    opts := [⟨8, [0, 1, 32, 0, 203, 0, 113, 9]⟩, ⟨10, [1, 2, 3, 4, 5, 6, 7, 8]⟩,
             ⟨8, [0, 2, 128, 0, 32, 1, 13, 184, 0, 0, 0, 0, 0, 0, 0, 0, 0, 0, 0, 5]⟩] }

example : ex1.WF ∧ (∀ o ∈ ex1.opts, o.data.length ≤ 255) := by
  refine ⟨?_, by decide⟩
  constructor <;> decide

example : (consumed ex1).opts.map (·.code) = [0xFFFF, 10, 0xFFFF] ∧
    specPeer ex1.opts none = some [32, 1, 13, 184, 0, 0, 0, 0, 0, 0, 0, 0, 0, 0, 0, 5] ∧
    encode (consumed ex1) ≠ encode ex1 := by decide

example : ∃ o, isECS o ∧ ¬ isECS (neutral o) := ⟨⟨8, [0, 1, 32, 0, 1, 2, 3, 4]⟩, by decide⟩
example : ∃ o : EOpt, ¬ isECS o ∧ o.code = 8 := ⟨⟨8, [0, 1, 24]⟩, by decide⟩

end NV.C13
