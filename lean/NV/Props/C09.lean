/-
  C09 — failover and recovery make progress; the manager never deadlocks.

  Two ties to the source:
  * `NV.Gen.ManagerCFG` — the control-flow graphs of every Manager / activeEnpoint method that takes a
    lock (go/cfg, regenerated on every run), projected on `m.mu` write / read and `e.mu` write / read /
    any; `mu_balanced` is the kernel-checked certificate that EVERY path of every function gives
    back what it took and that every `…Locked` callee is reached with its lock held.  On the tree
    before `fix: unlock the manager mutex …` it fails at `getActiveEndpoint` (block "return nil, err").
  * the manager model (NV.Model.Manager), compared with the real Manager by the `mgr` and `mgrc`
    correspondence areas (scripts with started-but-not-yet-run elections; concurrent soak).
-/
import NV.Gen.ManagerDo
import NV.Model.CFG
import NV.Gen.ManagerCFG
import NV.Lemmas.Manager
import NV.Gen.Manager
namespace NV.C09
open NV.CFG NV.Gen NV.Mgr

/-! ### lock discipline (regenerated CFGs) -/

/-- every extracted (function, mutex/mode) projection passes the certificate check -/
theorem mu_balanced :
    (ManagerCFG.all.all fun e => check e.2.2.2.2 e.2.1 e.2.2.1 e.2.2.2.1) = true := by decide

/-- the extraction is not vacuous: the projections exist and carry the events of the source
(Lock / Unlock / defer Unlock / calls of …Locked methods) -/
theorem mu_nonvacuous :
    ManagerCFG.all.length ≥ 30 ∧
    (ManagerCFG.Test_mW.any fun b => b.evs.contains .acq) = true ∧
    (ManagerCFG.Test_mW.any fun b => b.evs.contains .deferRel || b.evs.contains .rel) = true ∧
    (ManagerCFG.Test_mW.any fun b => b.evs.contains .need) = true ∧
    (ManagerCFG.testLocked_mW.any fun b => b.evs == [.rel, .acq]) = true ∧
    ManagerCFG.testLocked_mW_init = (1, 1) ∧ ManagerCFG.findBestEndpointLocked_mW_init = (1, 1) ∧
    ManagerCFG.getActiveEndpoint_mW_events ≥ 4 ∧ ManagerCFG.getActiveEndpoint_mR_events ≥ 2 ∧
    ManagerCFG.shouldTest_eW_events ≥ 2 ∧ ManagerCFG.shouldTest_eR_events ≥ 2 ∧ ManagerCFG.shouldTest_eA_events ≥ 6 ∧
    ManagerCFG.setTesting_eW_events ≥ 2 ∧ ManagerCFG.getActiveEndpoint_mW_init = (0, 0) := by decide

theorem entry_ok (e : String × Prog × Cert × CFG.St × Bool) (he : e ∈ ManagerCFG.all) :
    check e.2.2.2.2 e.2.1 e.2.2.1 e.2.2.2.1 = true := by
  have := mu_balanced
  rw [List.all_eq_true] at this
  exact this e he

/-- **every path of every manager function is lock-balanced**: at each exit (return, panic, end of
function) of each function, on EVERY path (any number of loop iterations), what was locked on the
way has been unlocked or is unlocked by an installed `defer`; a `…Locked` function returns holding
exactly the lock it was entered with. -/
theorem mu_every_path_balanced (e : String × Prog × Cert × CFG.St × Bool) (he : e ∈ ManagerCFG.all)
    (i : Nat) (s : CFG.St) (b : Block) (hr : Reach e.2.1 e.2.2.2.1 i s) (hb : e.2.1[i]? = some b)
    (hexit : b.succs = []) : (runEvs b.evs s).1 = (runEvs b.evs s).2 :=
  exit_balanced _ _ _ _ (entry_ok e he) i s b hr hb hexit

/-- **…Locked callees are only reached with the lock held, and nothing unlocks what it does not
hold**: at every program point of every path. In particular `findBestEndpointLocked` — the whole
election — runs with `m.mu` write-held, so elections are serialised. -/
theorem mu_point_ok (e : String × Prog × Cert × CFG.St × Bool) (he : e ∈ ManagerCFG.all)
    (i : Nat) (s : CFG.St) (b : Block) (pre post : List CFG.Ev) (ev : CFG.Ev)
    (hr : Reach e.2.1 e.2.2.2.1 i s) (hb : e.2.1[i]? = some b) (hsplit : b.evs = pre ++ ev :: post) :
    ev.okAfter e.2.2.2.2 (runEvs pre s) = true :=
  point_ok _ _ _ _ (entry_ok e he) i s b hr hb pre ev post hsplit

/-- inside `findBestEndpointLocked` and `newActiveEndpointLocked` the write lock is held at the
entry of every block (from the certificate; sound by `cert_sound`) -/
theorem election_holds_mu :
    (ManagerCFG.findBestEndpointLocked_mW_cert.all fun c => c.1 == 1) = true ∧
    (ManagerCFG.newActiveEndpointLocked_mW_cert.all fun c => c.1 == 1) = true := by decide

/-- the two comparisons that start elections (`testTimeExceededLocked`, the threshold test of `do`) and the
default threshold, re-translated from the source on every run, are the model's -/
theorem gen_triggers_agree :
    (∀ now last iv, Gen.Manager.exceeded now last iv = exceeded now last iv) ∧
    (∀ now last iv, Gen.Manager.exceededWall now last iv = exceeded now last iv) ∧
    (∀ n t, Gen.Manager.thresholdHit n t = thresholdHit n t) ∧
    Gen.Manager.defaultErrorThreshold = defaultThreshold :=
  ⟨fun _ _ _ => rfl, fun _ _ _ => rfl, fun _ _ => rfl, rfl⟩

/-! ### progress (manager model) -/

/-- **never stuck**: in every state reachable from the initial one by ANY operation list (any
provider / probe / query error, with or without InitEndpoint), every operation is enabled and
returns — no error path leaves `m.mu` locked. -/
theorem never_stuck (cfg : Cfg) (ops : List Op) (r : Mgr.St × List Mgr.Ev)
    (hr : run repaired cfg St.init ops = some r) (op : Op) :
    (step repaired cfg r.1 op).isSome = true :=
  step_isSome repaired cfg r.1 op (Inv_run cfg ops St.init (Inv_init cfg) r hr).mu

/-- consequently every operation list runs to its end -/
theorem run_total (cfg : Cfg) (ops : List Op) : (run repaired cfg St.init ops).isSome = true := by
  suffices h : ∀ (ops : List Op) (st : Mgr.St), Inv cfg st → (run repaired cfg st ops).isSome = true from
    h ops St.init (Inv_init cfg)
  intro ops
  induction ops with
  | nil => intro st _; rfl
  | cons op ops ih =>
    intro st hinv
    have h1 := step_isSome repaired cfg st op hinv.mu
    simp only [run]
    cases hs : step repaired cfg st op with
    | none => rw [hs] at h1; cases h1
    | some r1 =>
      obtain ⟨st1, e1⟩ := r1
      have h2 := ih st1 (Inv_step cfg st op hinv (st1, e1) hs)
      simp only
      cases hr2 : run repaired cfg st1 ops with
      | none => rw [hr2] at h2; cases h2
      | some r2 => rfl

/-- the pre-repair code (DESIGN §7 #2): a bootstrap election that ends with network-unreachable
leaves `m.mu` locked; the next Do never returns, although the network has healed -/
theorem prerepair_stuck :
    run ⟨false, true⟩ ⟨0, 0, fun _ => 0, none⟩ St.init
      [.doStart ⟨[.unreach], fun _ => .ok⟩, .doStart ⟨[.ok [⟨1, 0⟩]], fun _ => .ok⟩] = none := rfl

/-- the same script on the repaired code: the second Do is served -/
theorem repaired_not_stuck :
    ∃ r, run repaired ⟨0, 0, fun _ => 0, none⟩ St.init
      [.doStart ⟨[.unreach], fun _ => .ok⟩, .doStart ⟨[.ok [⟨1, 0⟩]], fun _ => .ok⟩] = some r ∧
      actions r.2 = [.action (some ⟨1, 0⟩)] := ⟨_, rfl, rfl⟩

/-- **single flight**: in every reachable state an object has at most one started election, and
it has one exactly while its `testing` flag is set. -/
theorem single_flight (cfg : Cfg) (ops : List Op) (r : Mgr.St × List Mgr.Ev)
    (hr : run repaired cfg St.init ops = some r) :
    r.1.pending.Nodup ∧ ∀ a, a ∈ r.1.pending ↔ (r.1.heap a).testing = true :=
  ⟨(Inv_run cfg ops St.init (Inv_init cfg) r hr).t.nodup, (Inv_run cfg ops St.init (Inv_init cfg) r hr).t.pend⟩

/-- **the error threshold starts an election**: the failed query that brings the consecutive-error
count of its object to exactly the threshold starts one background election for that object unless
one is already started; any other query result starts none. A success resets the count. -/
theorem threshold_starts_election (cfg : Cfg) (st : Mgr.St) (j a : Nat) (hj : st.inflight[j]? = some a) :
    ((st.heap a).errs + 1 = thr cfg → (st.heap a).testing = false →
        (doFinish cfg st j false).pending = st.pending ++ [a] ∧
        ((doFinish cfg st j false).heap a).testing = true) ∧
    ((st.heap a).errs + 1 ≠ thr cfg ∨ (st.heap a).testing = true →
        (doFinish cfg st j false).pending = st.pending ∧
        ((doFinish cfg st j false).heap a).testing = (st.heap a).testing) ∧
    ((doFinish cfg st j false).heap a).errs = (st.heap a).errs + 1 ∧
    ((doFinish cfg st j true).heap a).errs = 0 ∧ (doFinish cfg st j true).pending = st.pending := by
  refine ⟨?_, ?_, ?_, ?_, ?_⟩
  · intro h1 h2; simp [doFinish, hj, thresholdHit, h1, h2]
  · intro h
    rcases h with h | h
    · simp [doFinish, hj, thresholdHit, h]
    · simp [doFinish, hj, thresholdHit, h]
  · by_cases h1 : (st.heap a).errs + 1 = thr cfg <;> cases h2 : (st.heap a).testing <;>
      simp [doFinish, hj, thresholdHit, h1, h2]
  · simp [doFinish, hj]
  · simp [doFinish, hj]

/-- **failover**: an election is started, the active endpoint's probe fails and `y` is the first
candidate, in preference order, whose probe passes (nothing network-unreachable before it).  When
the election runs it installs `y`, calls OnChange(y), and every later Do is executed on `y`. -/
theorem failover (cfg : Cfg) (st : Mgr.St) (env : Env) (a x : Nat) (rest : List Nat) (y : Ep)
    (pre post : List Item)
    (hmu : st.muHeld = false) (hp : st.pending = a :: rest) (hact : st.active = some x)
    (hitems : items env = pre ++ .cand y :: post) (hpre : ∀ i ∈ pre, stopOf env.health i = none)
    (hy : env.health y.key = .ok)
    (hx : ∀ e, (st.heap x).ep = some e → env.health e.key = .err) :
    ∃ st' evs, electionRun repaired cfg st env = some (st', evs) ∧
      st'.active = some st.next ∧ (st'.heap st.next).ep = some y ∧
      changes evs = [.onChange (some y)] ∧ st'.pending = rest ∧
      ∀ env', ∃ r, doStart repaired cfg st' env' = some r ∧ actions r.2 = [.action (some y)] := by
  have hstop : stopOf env.health (.cand y) = some (.elected y) := by simp [stopOf, hy]
  have ho : (findBest repaired env).2 = .elected y :=
    (findBest_spec_a repaired env pre (.cand y) post (.elected y) hitems hpre hstop).2
  have hne : equalOpt (st.heap x).ep (some y) = false := by
    cases hep : (st.heap x).ep with
    | none => rfl
    | some e =>
      have := hx e hep
      simp only [equalOpt, beq_eq_false_iff_ne, ne_eq]
      intro hk; rw [hk, hy] at this; cases this
  obtain ⟨st', evs, h1, h2, h3, h4, h5, _, h7⟩ := election_installs cfg st env a x rest y hmu hp hact ho hne
  refine ⟨st', evs, h1, h2, h3, h4, h5, ?_⟩
  intro env'
  refine ⟨_, doStart_active repaired cfg st' env' st.next h7 h2, ?_⟩
  rw [enterDo_actions]
  exact congrArg (fun e => [Mgr.Ev.action e]) h3

/-- **recovery**: the active object `a` is not being tested and its test interval has elapsed.
The next Do starts exactly one election for it (a second Do does not start another: single
winner), is itself still executed on the current endpoint, and — `p` being the first candidate
whose probe passes, not `Equal` to the current endpoint — when the election runs `p` becomes
active with OnChange(p), and the object's `testing` flag is cleared. -/
theorem recovery (cfg : Cfg) (st : Mgr.St) (env0 env : Env) (a : Nat) (p : Ep) (pre post : List Item)
    (hmu : st.muHeld = false) (hact : st.active = some a) (hpend : st.pending = [])
    (ht : (st.heap a).testing = false)
    (hx : exceeded st.clock (st.heap a).lastTest (st.heap a).interval = true)
    (hitems : items env = pre ++ .cand p :: post) (hpre : ∀ i ∈ pre, stopOf env.health i = none)
    (hp : env.health p.key = .ok) (hne : equalOpt (st.heap a).ep (some p) = false) :
    ∃ st1 evs1, doStart repaired cfg st env0 = some (st1, evs1) ∧
      st1.pending = [a] ∧ actions evs1 = [.action (st.heap a).ep] ∧
      (∃ st2 evs2, doStart repaired cfg st1 env0 = some (st2, evs2) ∧ st2.pending = [a]) ∧
      ∃ st3 evs3, electionRun repaired cfg st1 env = some (st3, evs3) ∧
        st3.active = some st.next ∧ (st3.heap st.next).ep = some p ∧
        changes evs3 = [.onChange (some p)] ∧ st3.pending = [] ∧ (st3.heap a).testing = false := by
  obtain ⟨s1, s2, s3⟩ := enterDo_spawn st a [] ht hx
  obtain ⟨e1, e2, e3, e4, e5, e6⟩ := enterDo_frame st a []
  have hp1 : (enterDo st a []).1.pending = [a] := by rw [s1, hpend]; rfl
  refine ⟨_, _, doStart_active repaired cfg st env0 a hmu hact, hp1, enterDo_actions st a, ?_, ?_⟩
  · exact ⟨_, _, doStart_active repaired cfg _ env0 a (e3.trans hmu) (e1.trans hact),
      ((enterDo_nospawn (enterDo st a []).1 a [] (Or.inl s2)).1).trans hp1⟩
  · have hstop : stopOf env.health (.cand p) = some (.elected p) := by simp [stopOf, hp]
    have ho : (findBest repaired env).2 = .elected p :=
      (findBest_spec_a repaired env pre (.cand p) post (.elected p) hitems hpre hstop).2
    have hne' : equalOpt ((enterDo st a []).1.heap a).ep (some p) = false := by rw [e6]; exact hne
    obtain ⟨st3, evs3, h1, h2, h3, h4, h5, h6, _⟩ :=
      election_installs cfg (enterDo st a []).1 env a a [] p (e3.trans hmu) hp1 (e1.trans hact) ho hne'
    rw [e4] at h2 h3
    exact ⟨st3, evs3, h1, h2, h3, h4, h5, h6⟩

/-! ### non-vacuity -/

/-- `failover` applies to a concrete reachable state -/
example :
    let cfg : Cfg := ⟨1, 0, fun _ => 0, none⟩
    let env1 : Env := ⟨[.ok [⟨1, 0⟩, ⟨2, 0⟩]], fun _ => .ok⟩
    let env2 : Env := ⟨[.ok [⟨1, 0⟩, ⟨2, 0⟩]], fun k => if k = 1 then .err else .ok⟩
    ∃ r, run repaired cfg St.init [.doStart env1, .doFinish 0 false] = some r ∧
      r.1.muHeld = false ∧ r.1.pending = [0] ∧ r.1.active = some 0 ∧
      items env2 = [.pok 0, .cand ⟨1, 0⟩] ++ .cand ⟨2, 0⟩ :: [] ∧
      (∀ i ∈ [Item.pok 0, .cand ⟨1, 0⟩], stopOf env2.health i = none) ∧
      (∀ e, (r.1.heap 0).ep = some e → env2.health e.key = .err) := by
  refine ⟨_, rfl, rfl, rfl, rfl, rfl, by decide, ?_⟩
  intro e he
  have : e = ⟨1, 0⟩ := by
    have h2 : some (⟨1, 0⟩ : Ep) = some e := he
    cases h2; rfl
  subst this; rfl

/-- `recovery` applies: active endpoint 2 (elected while 1 was down), interval elapsed, 1 healthy again -/
example :
    let cfg : Cfg := ⟨0, 0, fun _ => 0, none⟩
    let env1 : Env := ⟨[.ok [⟨1, 0⟩, ⟨2, 0⟩]], fun k => if k = 1 then .err else .ok⟩
    let env2 : Env := ⟨[.ok [⟨1, 0⟩, ⟨2, 0⟩]], fun _ => .ok⟩
    ∃ r, run repaired cfg St.init [.doStart env1, .doFinish 0 true, .advance 7201] = some r ∧
      r.1.muHeld = false ∧ r.1.active = some 0 ∧ r.1.pending = [] ∧ (r.1.heap 0).testing = false ∧
      exceeded r.1.clock (r.1.heap 0).lastTest (r.1.heap 0).interval = true ∧
      items env2 = [.pok 0] ++ .cand ⟨1, 0⟩ :: [.cand ⟨2, 0⟩] ∧
      equalOpt (r.1.heap 0).ep (some ⟨1, 0⟩) = false := by
  refine ⟨_, rfl, rfl, rfl, rfl, rfl, by decide, rfl, by decide⟩


open NV.CFG NV.Gen in
/-- **C09 / C03 (regenerated)**: the control-flow graph of `(*activeEnpoint).do`, three projections: every `return` comes
after the action was tried on the endpoint (no path answers for an endpoint without asking it); every path on which the
action FAILED passes `atomic.AddUint32(&e.consecutiveErrors, 1)` before it leaves — whatever else is true of the query, its
context included — so `threshold_starts_election` speaks about every failed exchange; every path on which it succeeded
clears the count. The extraction saw the call, the increment and the reset. -/
theorem gen_do_shape_ok :
    check ManagerDo.doAction_strict ManagerDo.doAction ManagerDo.doAction_cert ManagerDo.doAction_init = true ∧
    check ManagerDo.doCount_strict ManagerDo.doCount ManagerDo.doCount_cert ManagerDo.doCount_init = true ∧
    check ManagerDo.doReset_strict ManagerDo.doReset ManagerDo.doReset_cert ManagerDo.doReset_init = true ∧
    ManagerDo.doAction_init = (0, 0) ∧ ManagerDo.doCount_init = (0, 0) ∧ ManagerDo.doReset_init = (0, 0) ∧
    ManagerDo.actionCalls = 1 ∧ ManagerDo.addCalls = 1 ∧ ManagerDo.storeCalls = 1 ∧
    (ManagerDo.doAction.any fun b => b.evs == [.acq]) = true ∧
    (ManagerDo.doCount.any fun b => b.evs == [.acq]) = true ∧ (ManagerDo.doCount.any fun b => b.evs == [.rel]) = true ∧
    (ManagerDo.doReset.any fun b => b.evs == [.acq]) = true ∧ (ManagerDo.doReset.any fun b => b.evs == [.rel]) = true := by
  decide

end NV.C09
