/-
  C11 — each client is resolved under the first matching profile.

  "For every client — source address, destination address and MAC — the profile used is the first
  conditional entry (subnet, MAC or interface) in configuration order that matches it, else the last
  unconditional entry, else none; an unconditional entry never shadows a later matching conditional
  one.  The chosen profile id is exactly the path of the DoH URL the query is sent to and the context
  its answer is cached under."

  Statements are about NV.Model.Profile (config/profile.go, the GetProfileURL choice of run.go, the
  URL use of resolver/doh.go) and hold for every profile list and every client tuple — no bound.
-/
import NV.Model.Profile
import NV.Lemmas.Profile
import NV.Gen.Run
namespace NV.C11
open NV NV.Prof

/-- **C11 (selection rule)**: `Profiles.Get` = first conditional entry that matches, else the LAST
unconditional entry, else "" (none). -/
theorem get_spec (ps : List Profile) (c : Client) : getP ps c = getSpec ps c := by
  unfold getP getSpec
  rw [getLoop_spec]
  rfl

/-- **C11 (no shadowing)**: a conditional entry that matches, with no matching conditional entry before
it, is chosen whatever unconditional entries stand before (or after) it. -/
theorem default_never_shadows (pre post : List Profile) (p : Profile) (c : Client)
    (hcond : isDefault p = false) (hm : matchP p c = true)
    (hpre : ∀ q ∈ pre, isDefault q = false → matchP q c = false) :
    getP (pre ++ p :: post) c = p.id := by
  rw [get_spec]
  unfold getSpec
  have : List.find? (fun p => conditional p && matchP p c) (pre ++ p :: post) = some p := by
    rw [List.find?_append]
    have h1 : List.find? (fun p => conditional p && matchP p c) pre = none := by
      rw [List.find?_eq_none]
      intro q hq
      simp only [conditional, Bool.and_eq_true, Bool.not_eq_eq_eq_not, Bool.not_true, not_and,
        Bool.not_eq_true]
      exact hpre q hq
    rw [h1]
    simp [conditional, hcond, hm]
  rw [this]

/-- the hypotheses are satisfiable with a default in front: [default "d", 10.0.0.0/8 → "p"], client 10.1.2.3 -/
example :
    let d : Profile := { id := [100] }
    let p : Profile := { id := [112], pfx := some ⟨[10, 0, 0, 0], [255, 0, 0, 0]⟩ }
    let c : Client := { src := some [10, 1, 2, 3] }
    isDefault p = false ∧ matchP p c = true ∧ (∀ q ∈ [d], isDefault q = false → matchP q c = false) ∧
    getP ([d] ++ p :: []) c = [112] ∧ getP ([d] ++ p :: []) { src := some [11, 1, 2, 3] } = [100] := by
  decide

/-- **C11 (else the last unconditional entry, else none)** -/
theorem get_default (ps : List Profile) (c : Client)
    (hnone : ∀ q ∈ ps, isDefault q = false → matchP q c = false) :
    getP ps c = match (ps.filter isDefault).getLast? with
                | some p => p.id
                | none => [] := by
  rw [get_spec]
  unfold getSpec
  have : List.find? (fun p => conditional p && matchP p c) ps = none := by
    rw [List.find?_eq_none]
    intro q hq
    simp only [conditional, Bool.and_eq_true, Bool.not_eq_eq_eq_not, Bool.not_true, not_and, Bool.not_eq_true]
    exact hnone q hq
  rw [this]
  rfl

/-- the hypothesis is satisfiable with conditional entries present: two defaults around a subnet entry
that does not contain the client — the LAST default wins -/
example :
    let ps : List Profile := [{ id := [97] }, { id := [112], pfx := some ⟨[10, 0, 0, 0], [255, 0, 0, 0]⟩ }, { id := [98] }]
    let c : Client := { src := some [11, 1, 2, 3] }
    (∀ q ∈ ps, isDefault q = false → matchP q c = false) ∧ getP ps c = [98] := by decide

/-- whatever `Get` returns is the id of a configured entry that matches the client (or "") -/
theorem get_sound (ps : List Profile) (c : Client) :
    getP ps c = [] ∨ ∃ p ∈ ps, p.id = getP ps c ∧ matchP p c = true := by
  rw [get_spec]
  unfold getSpec
  cases hf : List.find? (fun p => conditional p && matchP p c) ps with
  | some p =>
    right
    have h1 := List.mem_of_find?_eq_some hf
    have h2 := List.find?_some hf
    simp at h2
    exact ⟨p, h1, rfl, h2.2⟩
  | none =>
    cases hl : (List.filter isDefault ps).getLast? with
    | none => left; rfl
    | some p =>
      right
      have hmem := List.mem_of_getLast? hl
      rw [List.mem_filter] at hmem
      exact ⟨p, hmem.1, rfl, matchP_of_isDefault p c hmem.2⟩

/-! ### run.go: the "no dynamic configuration" shortcut -/

/-- the shortcut's condition is re-translated from run.go on every check -/
theorem gen_staticCond_agree (ps : List Profile) : Gen.Run.staticCond ps = staticCond ps := by
  unfold Gen.Run.staticCond staticCond
  first
    | rfl
    | (cases h1 : ps.length == 0 <;> cases h2 : ps.length == 1 <;> cases h3 : getP ps nilClient != [] <;>
        simp_all [nilClient, bne, Client.mk.injEq])

theorem gen_urlPrefix_agree :
    Gen.Run.urlPrefixStatic = urlPrefix ∧ Gen.Run.urlPrefixDynamic = urlPrefix := by decide

/-- the dynamic closure asks `Profiles.Get` about (peer address, local address, MAC) in that order —
the order `Client` has in the model — and the static branch asks about the nil client only -/
theorem gen_get_args_agree :
    Gen.Run.dynamicGetArgs = ["q.PeerIP", "q.LocalIP", "q.MAC"] ∧ Gen.Run.staticGetsNilClient = true := by decide

/-- every DoH endpoint literal of run.go has an empty path, so the transport keeps the request path
(`if t.path != "" { req.URL.Path = t.path }` in resolver/endpoint/transport_h2.go is not taken) -/
theorem gen_endpoint_paths_empty : Gen.Run.endpointPathsEmpty = true := by decide

/-- **C11 (static shortcut is sound)**: whichever closure run.go installs, the (url, profile) pair it
returns for a client is the one `Profiles.Get` designates for THAT client. -/
theorem static_opt_sound (ps : List Profile) (c : Client) :
    getProfileURL ps c = (profileURL (getP ps c), getP ps c) := by
  unfold getProfileURL
  split
  · rename_i h
    suffices hs : getP ps nilClient = getP ps c by simp [hs]
    unfold staticCond at h
    simp only [Bool.or_eq_true, beq_iff_eq, Bool.and_eq_true, bne_iff_ne, ne_eq] at h
    rcases h with h | ⟨h1, h2⟩
    · have : ps = [] := List.length_eq_zero_iff.mp h
      subst this; rfl
    · obtain ⟨p, rfl⟩ := List.length_eq_one_iff.mp h1
      -- the single entry answered the nil client with a non-empty id: it is unconditional
      by_cases hm : matchP p nilClient = true
      · have hd := matchP_nilClient p hm
        have hc := matchP_of_isDefault p c hd
        simp [getP, getLoop, hm, hd, hc]
      · simp [getP, getLoop, hm] at h2
  · rfl

/-- non-vacuity: the static branch is taken for a single unconditional profile, the dynamic one for
a single conditional profile -/
example : staticCond [{ id := [97] }] = true ∧
    staticCond [{ id := [97], mac := [1, 2, 3, 4, 5, 6] }] = false ∧ staticCond [] = true := by decide

/-! ### URL = path = cache context -/

theorem urlPath_profileURL (id : Bytes) : urlPath (profileURL id) = 47 :: id := by
  unfold urlPath profileURL urlPrefix
  simp [List.dropWhile]

/-- **C11 (URL)**: the DoH request for profile `id` goes to path "/" ++ id, its answer is cached under
the context `profileURL id`, and both determine the id: two different profiles never share a path
or a cache context. -/
theorem url_path_ctx (id id' : Bytes) :
    (dohCtxAndPath (profileURL id)).2 = 47 :: id ∧
    ((dohCtxAndPath (profileURL id)).1 = (dohCtxAndPath (profileURL id')).1 → id = id') ∧
    ((dohCtxAndPath (profileURL id)).2 = (dohCtxAndPath (profileURL id')).2 → id = id') := by
  refine ⟨urlPath_profileURL id, ?_, ?_⟩
  · intro h
    simp only [dohCtxAndPath, profileURL] at h
    exact List.append_cancel_left h
  · intro h
    simp only [dohCtxAndPath, urlPath_profileURL] at h
    exact (List.cons.inj h).2

/-- end to end: the context/path used for client `c` is that of the profile `Get` designates for `c` -/
theorem client_url (ps : List Profile) (c : Client) :
    dohCtxAndPath (getProfileURL ps c).1 = (profileURL (getSpec ps c), 47 :: getSpec ps c) := by
  rw [static_opt_sound, ← get_spec]
  simp [dohCtxAndPath, urlPath_profileURL]

end NV.C11
