/-
  C16 — serving stops cleanly and bind failures are reported, not swallowed.

  Model: NV.Model.Listen (small-step system, ANY number of listener threads, all interleavings).
  * `all_closed_at_return`  : whenever `ListenAndServe` has returned, no socket it bound is open.
  * `bind_error_reported`   : without an external stop, the returned error is the bind error.
  * `no_deadlock`           : once cancelled, some step is enabled until main has returned;
  * `steps_decrease`        : every step strictly decreases a ranking function, so every maximal
                              run after a cancellation is finite and ends with main returned.
  * `leak_reachable_old`    : for the protocol BEFORE the repair a concrete schedule reaches a
                              state where main waits forever while a socket stays bound.
-/
import NV.Model.Listen
import NV.Gen.Listen
import NV.Model.SvcStart
import NV.Model.CFG
import NV.Gen.SvcStart
import NV.Model.SvcLife
import NV.Lemmas.SvcLife
import NV.Gen.Hooks
namespace NV.C16
open NV.Listen

/-- per-listener socket invariant -/
def LInv (closedFlag : Bool) (l : L) : Prop :=
  (l.pc = .start ∨ l.pc = .failed ∨ l.pc = .ret ∨ l.pc = .sent ∨ l.pc = .done → l.sockOpen = false) ∧
  (l.pc = .start ∨ l.pc = .failed ∨ l.pc = .bound → l.registered = false) ∧
  (l.pc = .bound → l.sockOpen = true) ∧
  (l.pc = .serving → l.sockOpen = true → l.registered = true ∧ closedFlag = false)

def Inv (s : S) : Prop :=
  (∀ l ∈ s.ls, LInv s.closedFlag l) ∧
  (s.mpc ≠ .waiting → s.cancelled = true) ∧
  (s.mpc = .waiting ∨ s.mpc = .pushed → s.closedFlag = false) ∧
  (s.mpc ≠ .waiting ∧ s.mpc ≠ .pushed → s.closedFlag = true)

theorem mem_set_cases {α} {ls : List α} {i : Nat} {y x : α} (h : x ∈ ls.set i y) : x ∈ ls ∨ x = y :=
  List.mem_or_eq_of_mem_set h

theorem inv_init (n : Nat) : Inv (init n) := by
  refine ⟨?_, by simp [init], by simp [init], by simp [init]⟩
  intro l hl
  simp [init, List.mem_replicate] at hl
  obtain ⟨_, rfl⟩ := hl
  simp [LInv]

theorem inv_step (s s' : S) (a : Act) (h : Inv s) (hs : step s a = some s') : Inv s' := by
  obtain ⟨hl, hm1, hm2, hm3⟩ := h
  cases a with
  | bindFail i | bindOk i | serveRet i | cancel i =>
    simp only [step] at hs
    split at hs
    · rename_i l hget
      have hmem : l ∈ s.ls := List.mem_of_getElem? hget
      have hli := hl l hmem
      split at hs
      · simp only [Option.some.injEq] at hs
        subst hs
        refine ⟨?_, by simpa using hm1, by simpa using hm2, by simpa using hm3⟩
        intro x hx
        rcases mem_set_cases hx with hx | rfl
        · exact hl x hx
        · simp_all [LInv]
      · simp at hs
    · simp at hs
  | register i =>
    simp only [step] at hs
    split at hs
    · rename_i l hget
      have hmem : l ∈ s.ls := List.mem_of_getElem? hget
      have hli := hl l hmem
      split at hs
      · split at hs <;>
        · simp only [Option.some.injEq] at hs
          subst hs
          refine ⟨?_, by simpa using hm1, by simpa using hm2, by simpa using hm3⟩
          intro x hx
          rcases mem_set_cases hx with hx | rfl
          · exact hl x hx
          · simp_all [LInv]
      · simp at hs
    · simp at hs
  | send i =>
    simp only [step] at hs
    split at hs
    · rename_i l hget
      have hmem : l ∈ s.ls := List.mem_of_getElem? hget
      have hli := hl l hmem
      split at hs
      · simp only [Option.some.injEq] at hs
        subst hs
        refine ⟨?_, by simpa using hm1, by simpa using hm2, by simpa using hm3⟩
        intro x hx
        rcases mem_set_cases hx with hx | rfl
        · exact hl x hx
        · simp_all [LInv]
      · split at hs
        · simp only [Option.some.injEq] at hs
          subst hs
          refine ⟨?_, by simpa using hm1, by simpa using hm2, by simpa using hm3⟩
          intro x hx
          rcases mem_set_cases hx with hx | rfl
          · exact hl x hx
          · simp_all [LInv]
        · simp at hs
    · simp at hs
  | wake =>
    simp only [step] at hs
    split at hs
    · simp only [Option.some.injEq] at hs
      subst hs
      rename_i hc
      refine ⟨?_, by simp [hc.2], ?_, by simp⟩
      · simpa using hl
      · intro _; exact hm2 (Or.inl hc.1)
    · simp at hs
  | sweep =>
    simp only [step] at hs
    split at hs
    · simp only [Option.some.injEq] at hs
      subst hs
      rename_i hc
      refine ⟨?_, ?_, by simp, by simp⟩
      · intro x hx
        simp only [List.mem_map] at hx
        obtain ⟨l, hlm, rfl⟩ := hx
        obtain ⟨h1, h2, h3, h4⟩ := hl l hlm
        clear hl
        unfold closeRegistered
        split
        · refine ⟨by simp, by simpa using h2, ?_, by simp⟩
          intro hb; simp at hb; have := h2 (Or.inr (Or.inr hb)); simp_all
        · refine ⟨by simpa using h1, by simpa using h2, by simpa using h3, ?_⟩
          intro hsv hso
          have := (h4 hsv hso).1
          simp_all
      · intro _; exact hm1 (by simp [hc])
    · simp at hs
  | collect =>
    simp only [step] at hs
    split at hs
    · simp only [Option.some.injEq] at hs
      subst hs
      rename_i hc
      refine ⟨by simpa using hl, ?_, by simp, ?_⟩
      · intro _; exact hm1 (by simp [hc.1])
      · intro _; exact hm3 (by simp [hc.1])
    · simp at hs
  | stop =>
    simp only [step] at hs
    split at hs
    · simp only [Option.some.injEq] at hs
      subst hs
      exact ⟨by simpa using hl, by simp, by simpa using hm2, by simpa using hm3⟩
    · simp at hs

theorem inv_reachable (n : Nat) (s : S) (h : Reachable n s) : Inv s := by
  induction h with
  | init => exact inv_init n
  | step _ hs ih => exact inv_step _ _ _ ih hs

def RInv (s : S) : Prop :=
  ∀ e, s.mpc = .returned e → ∀ l ∈ s.ls, l.pc = .sent ∨ l.pc = .done

theorem rinv_step (s s' : S) (a : Act) (h : RInv s) (hs : step s a = some s') : RInv s' := by
  intro e he
  cases a with
  | bindFail i | bindOk i | serveRet i | cancel i | register i | send i =>
    simp only [step] at hs
    split at hs
    · rename_i l hget
      have hmem : l ∈ s.ls := List.mem_of_getElem? hget
      repeat' split at hs
      all_goals first
        | (simp at hs; done)
        | (simp only [Option.some.injEq] at hs
           subst hs
           have hr := h e (by simpa using he)
           have hl := hr l hmem
           intro x hx
           rcases mem_set_cases hx with hx | rfl
           · exact hr x hx
           · simp_all)
    · simp at hs
  | wake | sweep =>
    simp only [step] at hs
    split at hs
    · simp only [Option.some.injEq] at hs
      subst hs
      simp_all
    · simp at hs
  | stop =>
    simp only [step] at hs
    split at hs
    · simp only [Option.some.injEq] at hs
      subst hs
      exact h e (by simpa using he)
    · simp at hs
  | collect =>
    simp only [step] at hs
    split at hs
    · simp only [Option.some.injEq] at hs
      subst hs
      rename_i hc
      have := hc.2
      simp only [allReported, List.all_eq_true, Bool.or_eq_true, decide_eq_true_eq] at this
      exact this
    · simp at hs

theorem rinv_reachable (n : Nat) (s : S) (h : Reachable n s) : RInv s := by
  induction h with
  | init => intro e he; simp [init] at he
  | step _ hs ih => exact rinv_step _ _ _ ih hs

/-- **C16 (nothing left bound)**: in every reachable state in which `ListenAndServe` has
returned, every socket it ever bound is closed — for any number of listeners and any schedule. -/
theorem all_closed_at_return (n : Nat) (s : S) (e : Err) (h : Reachable n s)
    (hret : s.mpc = .returned e) : ∀ l ∈ s.ls, l.sockOpen = false := by
  intro l hl
  have hr := rinv_reachable n s h e hret l hl
  have hi := (inv_reachable n s h).1 l hl
  rcases hr with hr | hr
  · exact hi.1 (by simp [hr])
  · exact hi.1 (by simp [hr])

/-- ordering invariant: as long as nobody stopped the service from outside, only bind errors
can be reported before the context is cancelled, and the first reported error is a bind error. -/
def JInv (s : S) : Prop :=
  s.stopped = false →
    (s.cancelled = false →
        s.mpc = .waiting ∧ (∀ e ∈ s.errs, e = .bind) ∧
        ∀ l ∈ s.ls, l.pc ≠ .ret ∧ l.pc ≠ .done ∧ (l.pc = .sent → s.errs ≠ []) ∧
          (l.pc = .serving → l.sockOpen = true)) ∧
    (s.cancelled = true → s.errs.head? = some .bind) ∧
    (∀ e, s.mpc = .returned e → e = .bind)

theorem head_append {α} (xs : List α) (y x : α) (h : xs.head? = some x) : (xs ++ [y]).head? = some x := by
  cases xs with
  | nil => simp at h
  | cons a as => simpa using h

theorem firstErr_head_bind (es : List Err) (h : es.head? = some .bind) : firstErr es = .bind := by
  cases es with
  | nil => simp at h
  | cons a as => simp at h; subst h; simp [firstErr]

theorem jinv_step (s s' : S) (a : Act) (hi : Inv s) (h : JInv s) (hs : step s a = some s') : JInv s' := by
  obtain ⟨hl, hm1, hm2, hm3⟩ := hi
  cases a with
  | bindFail i | bindOk i =>
    simp only [step] at hs
    split at hs
    · rename_i l hget
      have hmem : l ∈ s.ls := List.mem_of_getElem? hget
      split at hs
      · simp only [Option.some.injEq] at hs
        subst hs
        intro hst
        obtain ⟨j1, j2, j3⟩ := h (by simpa using hst)
        refine ⟨?_, by simpa using j2, by simpa using j3⟩
        intro hc
        obtain ⟨k1, k2, k3⟩ := j1 (by simpa using hc)
        refine ⟨by simpa using k1, by simpa using k2, ?_⟩
        intro x hx
        rcases mem_set_cases hx with hx | rfl
        · exact k3 x hx
        · simp
      · simp at hs
    · simp at hs
  | register i =>
    simp only [step] at hs
    split at hs
    · rename_i l hget
      have hmem : l ∈ s.ls := List.mem_of_getElem? hget
      have hli := hl l hmem
      split at hs
      · rename_i hb
        split at hs <;>
        · rename_i hcf
          simp only [Option.some.injEq] at hs
          subst hs
          intro hst
          obtain ⟨j1, j2, j3⟩ := h (by simpa using hst)
          refine ⟨?_, by simpa using j2, by simpa using j3⟩
          intro hc
          obtain ⟨k1, k2, k3⟩ := j1 (by simpa using hc)
          refine ⟨by simpa using k1, by simpa using k2, ?_⟩
          intro x hx
          rcases mem_set_cases hx with hx | rfl
          · exact k3 x hx
          · have := hm2 (Or.inl k1)
            have := hli.2.2.1 hb
            simp_all
      · simp at hs
    · simp at hs
  | serveRet i =>
    simp only [step] at hs
    split at hs
    · rename_i l hget
      have hmem : l ∈ s.ls := List.mem_of_getElem? hget
      split at hs
      · rename_i hb
        simp only [Option.some.injEq] at hs
        subst hs
        intro hst
        obtain ⟨j1, j2, j3⟩ := h (by simpa using hst)
        refine ⟨?_, by simpa using j2, by simpa using j3⟩
        intro hc
        obtain ⟨k1, k2, k3⟩ := j1 (by simpa using hc)
        have := (k3 l hmem).2.2.2 hb.1
        simp_all
      · simp at hs
    · simp at hs
  | send i =>
    simp only [step] at hs
    split at hs
    · rename_i l hget
      have hmem : l ∈ s.ls := List.mem_of_getElem? hget
      split at hs
      · simp only [Option.some.injEq] at hs
        subst hs
        intro hst
        obtain ⟨j1, j2, j3⟩ := h (by simpa using hst)
        refine ⟨?_, ?_, by simpa using j3⟩
        · intro hc
          obtain ⟨k1, k2, k3⟩ := j1 (by simpa using hc)
          refine ⟨by simpa using k1, ?_, ?_⟩
          · intro e he; simp at he; rcases he with he | he
            · exact k2 e he
            · exact he
          · intro x hx
            rcases mem_set_cases hx with hx | rfl
            · have := k3 x hx; simp_all
            · simp
        · intro hc; exact head_append _ _ _ (j2 (by simpa using hc))
      · split at hs
        · rename_i hr
          simp only [Option.some.injEq] at hs
          subst hs
          intro hst
          obtain ⟨j1, j2, j3⟩ := h (by simpa using hst)
          refine ⟨?_, ?_, by simpa using j3⟩
          · intro hc
            obtain ⟨k1, k2, k3⟩ := j1 (by simpa using hc)
            exact absurd hr (k3 l hmem).1
          · intro hc; exact head_append _ _ _ (j2 (by simpa using hc))
        · simp at hs
    · simp at hs
  | cancel i =>
    simp only [step] at hs
    split at hs
    · rename_i l hget
      have hmem : l ∈ s.ls := List.mem_of_getElem? hget
      split at hs
      · rename_i hsent
        simp only [Option.some.injEq] at hs
        subst hs
        intro hst
        obtain ⟨j1, j2, j3⟩ := h (by simpa using hst)
        refine ⟨by simp, ?_, by simpa using j3⟩
        intro _
        by_cases hc : s.cancelled = true
        · simpa using j2 hc
        · obtain ⟨k1, k2, k3⟩ := j1 (by simpa using hc)
          have hne := (k3 l hmem).2.2.1 hsent
          cases hes : s.errs with
          | nil => exact absurd hes hne
          | cons a as =>
            have := k2 a (by simp [hes])
            simp [this]
      · simp at hs
    · simp at hs
  | wake =>
    simp only [step] at hs
    split at hs
    · rename_i hc
      simp only [Option.some.injEq] at hs
      subst hs
      intro hst
      obtain ⟨j1, j2, j3⟩ := h (by simpa using hst)
      refine ⟨by intro h'; simp [hc.2] at h', ?_, by simp⟩
      intro _; exact head_append _ _ _ (j2 hc.2)
    · simp at hs
  | sweep =>
    simp only [step] at hs
    split at hs
    · rename_i hc
      simp only [Option.some.injEq] at hs
      subst hs
      intro hst
      obtain ⟨j1, j2, j3⟩ := h (by simpa using hst)
      have hcan := hm1 (by simp [hc])
      refine ⟨by intro h'; simp [hcan] at h', by simpa using j2, by simp⟩
    · simp at hs
  | collect =>
    simp only [step] at hs
    split at hs
    · rename_i hc
      simp only [Option.some.injEq] at hs
      subst hs
      intro hst
      obtain ⟨j1, j2, j3⟩ := h (by simpa using hst)
      have hcan := hm1 (by simp [hc.1])
      refine ⟨by intro h'; simp [hcan] at h', by simpa using j2, ?_⟩
      intro e he
      simp at he
      rw [← he]
      exact firstErr_head_bind _ (j2 hcan)
    · simp at hs
  | stop =>
    simp only [step] at hs
    split at hs
    · simp only [Option.some.injEq] at hs
      subst hs
      intro hst; simp at hst
    · simp at hs

theorem jinv_reachable (n : Nat) (s : S) (h : Reachable n s) : JInv s := by
  induction h with
  | init =>
    intro _
    refine ⟨?_, by simp [init], by simp [init]⟩
    intro _
    refine ⟨rfl, by simp [init], ?_⟩
    intro l hl
    simp [init, List.mem_replicate] at hl
    obtain ⟨_, rfl⟩ := hl
    simp
  | step hr hs ih => exact jinv_step _ _ _ (inv_reachable _ _ hr) ih hs

/-- **C16 (bind failures are reported)**: for any number of listeners and any schedule without an
external stop, if `ListenAndServe` returns, it returns a bind error — never `Canceled` and never
the "use of closed network connection" of a listener that was closed because of the failure. -/
theorem bind_error_reported (n : Nat) (s : S) (e : Err) (h : Reachable n s)
    (hns : s.stopped = false) (hret : s.mpc = .returned e) : e = .bind :=
  (jinv_reachable n s h hns).2.2 e hret

/-! ### progress -/

def lrank : LPc → Nat
  | .start => 6 | .failed => 2 | .bound => 4 | .serving => 3 | .ret => 2 | .sent => 1 | .done => 0

def mrank : MPc → Nat
  | .waiting => 3 | .pushed => 2 | .swept => 1 | .returned _ => 0

def lsum : List L → Nat
  | [] => 0
  | l :: ls => lrank l.pc + lsum ls

/-- ranking function: strictly decreases on every step -/
def rank (s : S) : Nat := lsum s.ls + mrank s.mpc + (if s.stopped then 0 else 1)

theorem lsum_set (ls : List L) (i : Nat) (l l' : L) (h : ls[i]? = some l) :
    lsum (ls.set i l') + lrank l.pc = lsum ls + lrank l'.pc := by
  induction ls generalizing i with
  | nil => simp at h
  | cons a as ih =>
    cases i with
    | zero => simp at h; subst h; simp [lsum]; omega
    | succ k => simp at h; have := ih k h; simp [lsum]; omega

theorem lsum_set' (ls : List L) (i : Nat) (l l' : L) (h : ls[i]? = some l) :
    lsum (ls.set i l') = lsum ls + lrank l'.pc - lrank l.pc ∧ lrank l.pc ≤ lsum ls := by
  have := lsum_set ls i l l' h
  have hle : lrank l.pc ≤ lsum ls := by
    clear this
    induction ls generalizing i with
    | nil => simp at h
    | cons a as ih =>
      cases i with
      | zero => simp at h; subst h; simp [lsum]
      | succ k => simp at h; have := ih k h; simp [lsum]; omega
  omega

theorem lsum_map_close (ls : List L) : lsum (ls.map closeRegistered) = lsum ls := by
  induction ls with
  | nil => rfl
  | cons a as ih =>
    simp only [List.map_cons, lsum, ih]
    unfold closeRegistered; split <;> rfl

/-- **C16 (termination)**: every step strictly decreases `rank`; a run from a state `s` therefore
has at most `rank s` steps (for `init n`: at most `6 n + 4`). -/
theorem lsum_set_lt (ls : List L) (i : Nat) (l l' : L) (h : ls[i]? = some l)
    (hlt : lrank l'.pc < lrank l.pc) : lsum (ls.set i l') < lsum ls := by
  obtain ⟨h1, h2⟩ := lsum_set' ls i l l' h
  omega

theorem steps_decrease (s s' : S) (a : Act) (hs : step s a = some s') : rank s' < rank s := by
  cases a with
  | bindFail i | bindOk i | serveRet i | cancel i | register i | send i =>
    simp only [step] at hs
    split at hs
    · rename_i l hget
      repeat' split at hs
      all_goals first
        | (simp at hs; done)
        | (simp only [Option.some.injEq] at hs
           subst hs
           simp only [rank]
           refine Nat.add_lt_add_right (Nat.add_lt_add_right (lsum_set_lt s.ls i l _ hget ?_) _) _
           simp_all [lrank])
    · simp at hs
  | wake | collect =>
    simp only [step] at hs
    split at hs
    · rename_i hc
      simp only [Option.some.injEq] at hs
      subst hs
      simp only [rank, hc.1, mrank]; omega
    · simp at hs
  | sweep =>
    simp only [step] at hs
    split at hs
    · rename_i hc
      simp only [Option.some.injEq] at hs
      subst hs
      simp only [rank, hc, mrank, lsum_map_close]; omega
    · simp at hs
  | stop =>
    simp only [step] at hs
    split at hs
    · rename_i hc
      simp only [Option.some.injEq] at hs
      subst hs
      simp [rank, hc]
    · simp at hs

theorem not_reported_exists (ls : List L) (h : allReported ls = false) :
    ∃ (i : Nat) (l : L), ls[i]? = some l ∧ l.pc ≠ LPc.sent ∧ l.pc ≠ LPc.done := by
  induction ls with
  | nil => simp [allReported] at h
  | cons a as ih =>
    simp only [allReported, List.all_cons, Bool.and_eq_false_iff] at h
    rcases h with h | h
    · refine ⟨0, a, by simp, ?_, ?_⟩ <;> (intro hc; simp [hc] at h)
    · obtain ⟨i, l, hg, h1, h2⟩ := ih (by simpa [allReported] using h)
      exact ⟨i + 1, l, by simpa using hg, h1, h2⟩

/-- **C16 (no deadlock)**: in every reachable state in which the context has been cancelled and
`ListenAndServe` has not yet returned, some step is enabled — for any number of listeners. With
`steps_decrease` this means: after a bind failure or a stop, serving always returns. -/
theorem no_deadlock (n : Nat) (s : S) (h : Reachable n s) (hc : s.cancelled = true)
    (hnr : ∀ e, s.mpc ≠ .returned e) : ∃ a, (step s a).isSome = true := by
  obtain ⟨hl, hm1, hm2, hm3⟩ := inv_reachable n s h
  cases hm : s.mpc with
  | waiting => exact ⟨.wake, by simp [step, hm, hc]⟩
  | pushed => exact ⟨.sweep, by simp [step, hm]⟩
  | returned e => exact absurd hm (hnr e)
  | swept =>
    cases hr : allReported s.ls with
    | true => exact ⟨.collect, by simp [step, hm, hr]⟩
    | false =>
      obtain ⟨i, l, hg, h1, h2⟩ := not_reported_exists s.ls hr
      have hmem : l ∈ s.ls := List.mem_of_getElem? hg
      have hcf : s.closedFlag = true := hm3 (by simp [hm])
      have hli := hl l hmem
      cases hpc : l.pc with
      | start => exact ⟨.bindFail i, by simp [step, hg, hpc]⟩
      | failed => exact ⟨.send i, by simp [step, hg, hpc]⟩
      | bound => exact ⟨.register i, by simp [step, hg, hpc, hcf]⟩
      | serving =>
        have hso : l.sockOpen = false := by
          cases hso : l.sockOpen with
          | false => rfl
          | true => have := (hli.2.2.2 hpc hso).2; simp [hcf] at this
        exact ⟨.serveRet i, by simp [step, hg, hpc, hso]⟩
      | ret => exact ⟨.send i, by simp [step, hg, hpc]⟩
      | sent => exact absurd hpc h1
      | done => exact absurd hpc h2

/-- the same holds before cancellation as long as some listener can still move towards its bind
attempt or its error report; a fully started server legitimately waits (`serving` everywhere). -/
theorem bind_failure_leads_to_cancel (n : Nat) (s : S) (h : Reachable n s) (i : Nat) (l : L)
    (hg : s.ls[i]? = some l) (hf : l.pc = .failed ∨ l.pc = .sent) : ∃ a, (step s a).isSome = true := by
  rcases hf with hf | hf
  · exact ⟨.send i, by simp [step, hg, hf]⟩
  · exact ⟨.cancel i, by simp [step, hg, hf]⟩

/-! ### the protocol before the repair really leaked -/

/-- one address (two listeners): UDP bind fails and cancels; main wakes, pushes and sweeps an empty
list; only then TCP binds and registers. Main now waits for a report that can never come (the TCP
socket is open, registered too late, and nothing will close it): no action is enabled for it, and
`collect` is disabled. -/
def leakSchedule : List Act :=
  [.bindFail 0, .cancel 0, .send 0, .wake, .sweep, .bindOk 1, .register 1]

theorem leak_reachable_old :
    ∃ s, runOld (init 2) leakSchedule = some s ∧
      (∃ l ∈ s.ls, l.sockOpen = true) ∧ s.cancelled = true ∧ s.mpc = .swept ∧
      (allActs 2).all (fun a => a = .stop || (stepOld s a).isNone) = true := by
  refine ⟨_, rfl, ?_, rfl, rfl, ?_⟩
  · exact ⟨_, List.mem_cons_of_mem _ (List.mem_cons_self ..), rfl⟩
  · decide

/-- … and the repaired protocol closes that socket on the same schedule and returns `bind`. -/
example : ∃ s, run (init 2) [.bindFail 0, .send 0, .cancel 0, .wake, .sweep, .bindOk 1, .register 1,
      .serveRet 1, .send 1, .cancel 1, .collect] = some s ∧ s.mpc = .returned .bind ∧
      s.ls.all (fun l => !l.sockOpen) = true := ⟨_, rfl, rfl, by decide⟩

/-- non-vacuity of `bind_error_reported` / `all_closed_at_return`: such a state is reachable. -/
theorem returned_reachable : ∃ s, Reachable 2 s ∧ s.stopped = false ∧ s.mpc = .returned .bind := by
  have hrun : ∀ (as : List Act) (s0 s1 : S), Reachable 2 s0 → run s0 as = some s1 → Reachable 2 s1 := by
    intro as
    induction as with
    | nil => intro s0 s1 h0 hr; simp [run] at hr; subst hr; exact h0
    | cons a as ih =>
      intro s0 s1 h0 hr
      simp only [run] at hr
      split at hr
      · rename_i s' hs; exact ih s' s1 (Reachable.step h0 hs) hr
      · simp at hr
  exact ⟨_, hrun [.bindFail 0, .send 0, .cancel 0, .wake, .sweep, .bindOk 1, .register 1,
      .serveRet 1, .send 1, .cancel 1, .collect] (init 2) _ Reachable.init rfl, rfl, rfl⟩

/-! ### the `errs` channel never fills up (tie of the unbounded-channel model to the buffered channel)

The model's `send`/`wake` append to `errs` without ever blocking. The real channel is buffered; a
send blocks when `cap` results are queued and nobody drains before the final loop. `errs_bounded`
shows that at most `n + 1` results are ever queued with `n` listener threads; the regenerated
capacity is at least that (`gen_errs_never_blocks`), and the final loop receives exactly as many
results as are sent (`gen_drain_exact`), so neither a sender nor the drain loop can wait forever on
the channel itself. -/

def rep : LPc → Nat
  | .sent => 1 | .done => 1 | _ => 0

def rsum : List L → Nat
  | [] => 0
  | l :: ls => rep l.pc + rsum ls

theorem rsum_set (ls : List L) (i : Nat) (l l' : L) (h : ls[i]? = some l) :
    rsum (ls.set i l') + rep l.pc = rsum ls + rep l'.pc := by
  induction ls generalizing i with
  | nil => simp at h
  | cons a as ih =>
    cases i with
    | zero => simp at h; subst h; simp [rsum]; omega
    | succ k => simp at h; have := ih k h; simp [rsum]; omega

theorem rsum_ge (ls : List L) (i : Nat) (l : L) (h : ls[i]? = some l) : rep l.pc ≤ rsum ls := by
  induction ls generalizing i with
  | nil => simp at h
  | cons a as ih =>
    cases i with
    | zero => simp at h; subst h; simp [rsum]
    | succ k => simp at h; have := ih k h; simp [rsum]; omega

theorem rsum_set' (ls : List L) (i : Nat) (l l' : L) (h : ls[i]? = some l) :
    rsum (ls.set i l') = rsum ls + rep l'.pc - rep l.pc := by
  have := rsum_set ls i l l' h
  omega

theorem rsum_map_close (ls : List L) : rsum (ls.map closeRegistered) = rsum ls := by
  induction ls with
  | nil => rfl
  | cons a as ih =>
    simp only [List.map_cons, rsum, ih]
    unfold closeRegistered; split <;> rfl

theorem rsum_le_length (ls : List L) : rsum ls ≤ ls.length := by
  induction ls with
  | nil => simp [rsum]
  | cons a as ih => simp only [rsum, List.length_cons]; cases h : a.pc <;> simp [rep] <;> omega

/-- queued results = listeners that have reported + main's own `ctx.Err()` -/
def EInv (s : S) : Prop :=
  s.errs.length = rsum s.ls + (if s.mpc = .waiting then 0 else 1)

theorem einv_step (s s' : S) (a : Act) (h : EInv s) (hs : step s a = some s') : EInv s' := by
  unfold EInv at *
  cases a with
  | bindFail i | bindOk i | serveRet i | cancel i | register i | send i =>
    simp only [step] at hs
    split at hs
    · rename_i l hget
      repeat' split at hs
      all_goals first
        | (simp at hs; done)
        | (simp only [Option.some.injEq] at hs
           subst hs
           have hle := rsum_ge s.ls i l hget
           simp only []
           rw [rsum_set' s.ls i l _ hget]
           simp_all [rep]
           try omega)
    · simp at hs
  | wake =>
    simp only [step] at hs
    split at hs
    · rename_i hc
      simp only [Option.some.injEq] at hs
      subst hs
      simp [hc.1] at h ⊢; omega
    · simp at hs
  | collect =>
    simp only [step] at hs
    split at hs
    · rename_i hc
      simp only [Option.some.injEq] at hs
      subst hs
      simp [hc.1] at h ⊢; omega
    · simp at hs
  | sweep =>
    simp only [step] at hs
    split at hs
    · rename_i hc
      simp only [Option.some.injEq] at hs
      subst hs
      simp [hc, rsum_map_close] at h ⊢; omega
    · simp at hs
  | stop =>
    simp only [step] at hs
    split at hs
    · simp only [Option.some.injEq] at hs
      subst hs
      exact h
    · simp at hs

theorem length_step (s s' : S) (a : Act) (hs : step s a = some s') : s'.ls.length = s.ls.length := by
  cases a with
  | bindFail i | bindOk i | serveRet i | cancel i | register i | send i =>
    simp only [step] at hs
    split at hs
    · repeat' split at hs
      all_goals first
        | (simp at hs; done)
        | (simp only [Option.some.injEq] at hs; subst hs; simp)
    · simp at hs
  | wake | collect | sweep | stop =>
    simp only [step] at hs
    split at hs
    · simp only [Option.some.injEq] at hs; subst hs; simp
    · simp at hs

/-- **C16 (the result channel)**: with `n` listener threads at most `n + 1` results are ever queued,
in every reachable state of every interleaving. -/
theorem errs_bounded (n : Nat) (s : S) (h : Reachable n s) : s.errs.length ≤ n + 1 := by
  have key : EInv s ∧ s.ls.length = n := by
    induction h with
    | init => exact ⟨by simp [EInv, init, rsum_replicate_zero], by simp [init]⟩
    | step _ hs ih => exact ⟨einv_step _ _ _ ih.1 hs, by rw [length_step _ _ _ hs]; exact ih.2⟩
  have h1 := key.1
  have h2 := rsum_le_length s.ls
  unfold EInv at h1
  split at h1 <;> omega
where
  rsum_replicate_zero : ∀ k, rsum (List.replicate k ({} : L)) = 0 := by
    intro k; induction k with
    | zero => rfl
    | succ k ih => simp [List.replicate_succ, rsum, rep, ih]

/-- the bound is reached: both listeners of one address fail and report before main pushes its own
result (the schedule on which a channel one slot short blocks main forever). -/
theorem errs_bound_reached :
    ∃ s, run (init 2) [.bindFail 0, .bindFail 1, .send 0, .send 1, .cancel 0, .wake] = some s ∧
      s.errs.length = 2 + 1 := ⟨_, rfl, rfl⟩

open NV.Gen.Listen in
/-- **C16 (regenerated)**: for any number `a` of addresses, `ListenAndServe` starts
`goroutinesPerAddr · a` listener threads, each sending exactly one result, main sends one, and the
`errs` channel holds them all: no send on `errs` can block. -/
theorem gen_errs_never_blocks (a : Nat) :
    listenerSends.length = goroutinesPerAddr ∧ listenerSends.all (· = 1) = true ∧ mainSends = 1 ∧
    goroutinesPerAddr * a + 1 ≤ errsCap.1 * a + errsCap.2 := by
  refine ⟨by decide, by decide, by decide, ?_⟩
  simp only [goroutinesPerAddr, errsCap]; omega

open NV.Gen.Listen in
/-- **C16 (regenerated)**: the final loop receives exactly as many results as are sent — one fewer
send and it would wait forever, one more and it would return with a listener still serving. -/
theorem gen_drain_exact (a : Nat) :
    drainCount.1 * a + drainCount.2 = listenerSends.sum * a + mainSends ∧ drainIsLast = true := by
  refine ⟨?_, by decide⟩
  simp only [drainCount, listenerSends, mainSends, List.sum_cons, List.sum_nil]; omega

open NV.Gen.Listen in
/-- **C16 (regenerated)**: the atomic steps of the model are in the order of the source: every
listener reports before it cancels, main pushes after `ctx.Done()` and before the sweep, `register`
tests `closed` and the sweep sets it. -/
theorem gen_protocol_order :
    listenerSendThenCancel.all id = true ∧ listenerSendThenCancel.length = goroutinesPerAddr ∧
    mainSendAfterDone = true ∧ registerTestsClosed = true ∧ sweepSetsClosed = true := by decide


/-! ### `(*proxySvc).Start` (run.go): a start that did not bind is never a successful start -/
section SvcStart
open NV.SvcStart

/-- **C16**: Start reports success exactly when, after any number of "network unreachable"
attempts, an attempt found every listener serving — never after a failed attempt, and never by
running out of patience. -/
theorem started_iff (as : List Att) :
    svcStart as = .started ↔ ∃ n rest, as = List.replicate n .unreachable ++ .bound :: rest := by
  induction as with
  | nil =>
    simp only [svcStart]
    constructor
    · intro h; cases h
    · rintro ⟨n, rest, h⟩; cases n <;> simp [List.replicate_succ] at h
  | cons a as ih =>
    cases a with
    | bound =>
      simp only [svcStart, true_iff]
      exact ⟨0, as, rfl⟩
    | failed =>
      simp only [svcStart]
      constructor
      · intro h; cases h
      · rintro ⟨n, rest, h⟩
        cases n with
        | zero => simp at h
        | succ k => simp [List.replicate_succ] at h
    | unreachable =>
      simp only [svcStart, ih]
      constructor
      · rintro ⟨n, rest, h⟩; exact ⟨n + 1, rest, by simp [List.replicate_succ, h]⟩
      · rintro ⟨n, rest, h⟩
        cases n with
        | zero => simp at h
        | succ k => exact ⟨k, rest, by simpa [List.replicate_succ] using h⟩

/-- the OnStarted hooks (router set-up, activation of the system resolver) run only on a start
whose last attempt bound every listener -/
theorem hooks_only_when_bound (as : List Att) (h : hooksRun as = true) :
    ∃ n rest, as = List.replicate n .unreachable ++ .bound :: rest := by
  have : svcStart as = .started := by simpa [hooksRun] using h
  exact (started_iff as).1 this

/-- however long the network stays unreachable, Start neither gives up with a success nor runs
a hook: it is still waiting -/
theorem unreachable_never_started (n : Nat) :
    svcStart (List.replicate n .unreachable) = .waiting ∧ hooksRun (List.replicate n .unreachable) = false := by
  induction n with
  | zero => exact ⟨rfl, rfl⟩
  | succ k ih => simpa [List.replicate_succ, svcStart, hooksRun] using ih

/-- a bind failure of any other kind ends the start with an error after the retries so far -/
theorem failed_is_error (n : Nat) (rest : List Att) :
    svcStart (List.replicate n .unreachable ++ .failed :: rest) = .error := by
  induction n with
  | zero => rfl
  | succ k ih => simpa [List.replicate_succ, svcStart] using ih

/-- an attempt during which ListenAndServe returned an error is never counted as bound (with
`bind_error_reported`: a listener that cannot bind makes ListenAndServe return that error) -/
theorem attempt_error_not_bound (u : Bool) : attempt (some u) ≠ .bound := by cases u <;> simp [attempt]

example : svcStart [.unreachable, .unreachable, .bound] = .started ∧
    svcStart [.unreachable, .failed, .bound] = .error := by decide

open NV.CFG NV.Gen in
/-- **C16 (regenerated)**: the control-flow graph of `(*proxySvc).Start`, projected on "the last
`p.start()` returned nil" (acquired on the success edge of the test that follows the call), passes
the certificate check: on EVERY path, through any number of retries, the OnStarted hooks and
`return nil` are reached holding that fact, and it is never acquired twice. A retry loop that can
be left without a successful attempt breaks this obligation. -/
theorem gen_start_cert_ok :
    check SvcStart.start_strict SvcStart.start SvcStart.start_cert SvcStart.start_init = true ∧
    SvcStart.start_init = (0, 0) := by decide

open NV.CFG NV.Gen in
/-- the extraction is not vacuous: it saw the call of `p.start()`, its success edge, the hooks and
the success report -/
theorem gen_start_nonvacuous :
    1 ≤ SvcStart.startCalls ∧ 1 ≤ SvcStart.hookCalls ∧ 1 ≤ SvcStart.nilReturns ∧
    (SvcStart.start.any fun b => b.evs.contains .acq) = true ∧
    (SvcStart.start.any fun b => b.evs == [.need]) = true ∧
    (SvcStart.start.any fun b => b.evs == [.need, .rel]) = true := by decide

open NV.CFG NV.Gen in
/-- every program point of every path of Start: a hook call or a success report finds the
"attempt succeeded" fact held (lifted from the local check by `point_ok`) -/
theorem start_need_holds (i : Nat) (s : St) (b : Block) (pre post : List Ev)
    (hr : Reach SvcStart.start SvcStart.start_init i s) (hb : SvcStart.start[i]? = some b)
    (hsplit : b.evs = pre ++ Ev.need :: post) : 1 ≤ (runEvs pre s).1 := by
  have h := point_ok SvcStart.start_strict SvcStart.start SvcStart.start_cert SvcStart.start_init
    gen_start_cert_ok.1 i s b hr hb pre .need post hsplit
  simp [Ev.okAfter, Ev.apply] at h
  omega

end SvcStart

end NV.C16

/-! ### The life cycle of the service object (run.go `proxySvc`: Start / Stop / Restart), every history -/
namespace NV.C16Life
open NV.SvcStart NV.SvcLife

theorem good_init : Good init := by simp [Good, init]

theorem good_step (s s' : St) (o : Op) (r : Ret) (h : Good s) (hs : step s o = some (s', r)) : Good s' := by
  obtain ⟨h1, h2⟩ := h
  cases o with
  | start as =>
    simp only [step] at hs
    split at hs
    · simp at hs
    · split at hs <;> simp only [Option.some.injEq, Prod.mk.injEq] at hs <;> obtain ⟨rfl, _⟩ := hs
      · simp [Good]
      · simp [Good]
      · refine ⟨by simp, ?_⟩
        intro hl
        simp [h2 hl]
  | stop =>
    simp only [step, stopInner] at hs
    split at hs
    · simp only [Option.some.injEq, Prod.mk.injEq] at hs
      obtain ⟨rfl, _⟩ := hs
      simp [Good]
    · rename_i hns
      simp only [Option.some.injEq, Prod.mk.injEq] at hs
      obtain ⟨rfl, _⟩ := hs
      simpa [Good] using ⟨h1, h2⟩
  | restart a =>
    simp only [step, Option.some.injEq, Prod.mk.injEq] at hs
    obtain ⟨rfl, _⟩ := hs
    simp [Good, attemptSt]
  | die =>
    simp only [step, Option.some.injEq, Prod.mk.injEq] at hs
    obtain ⟨rfl, _⟩ := hs
    exact ⟨by simp, by simpa using h2⟩

/-- **every history**: whatever sequence of Start / Stop / Restart calls and listener deaths the
object has been through, a serving instance still has its cancel function, and a service whose
last hook round was the start-up round (router set up, system DNS activated) has it too. -/
theorem life_inv (ops : List Op) (s0 s : St) (h0 : Good s0) (hr : run s0 ops = some s) : Good s := by
  induction ops generalizing s0 with
  | nil => simp [run] at hr; subst hr; exact h0
  | cons o os ih =>
    simp only [run] at hr
    split at hr
    · simp at hr
    · rename_i s' r hs
      exact ih s' (good_step s0 s' o r h0 hs) hr

/-- `Stop()` always returns, and after it nothing serves and the field is cleared -/
theorem stop_quiesces (s : St) (h : Good s) :
    ∃ s', step s .stop = some (s', .ok) ∧ s'.serving = false ∧ s'.stopSet = false := by
  by_cases hs : s.stopSet = true
  · exact ⟨{ stopSet := false, serving := false, log := s.log ++ [.down] }, by simp [step, stopInner, hs], rfl, rfl⟩
  · have hf : s.stopSet = false := by simpa using hs
    refine ⟨s, by simp [step, stopInner, hf], ?_, hf⟩
    cases hv : s.serving with
    | false => rfl
    | true => have := h.1 hv; simp [hf] at this

/-- a second `Stop()` does nothing: the OnStopped hooks (router Restore, deactivation) do not run twice -/
theorem stop_idempotent (s s1 : St) (r : Ret) (h : step s .stop = some (s1, r)) :
    step s1 .stop = some (s1, .ok) := by
  by_cases hs : s.stopSet = true
  · simp only [step, stopInner, hs, ↓reduceIte, Option.some.injEq, Prod.mk.injEq] at h
    obtain ⟨rfl, _⟩ := h
    simp [step, stopInner]
  · have hf : s.stopSet = false := by simpa using hs
    simp only [step, stopInner, hf, Bool.false_eq_true, ↓reduceIte, Option.some.injEq, Prod.mk.injEq] at h
    obtain ⟨rfl, _⟩ := h
    simp [step, stopInner, hf]

/-- `Restart()` runs no hook round -/
theorem restart_keeps_log (s s' : St) (a : Att) (r : Ret) (h : step s (.restart a) = some (s', r)) :
    s'.log = s.log := by
  simp only [step, stopInner, Option.some.injEq, Prod.mk.injEq] at h
  obtain ⟨rfl, _⟩ := h
  split <;> simp [attemptSt]

/-- **after any history, `Stop()` leaves no started-up configuration behind**: the last hook round is
never the start-up round — if it was, the shut-down round runs now. -/
theorem stop_undoes_last_up (ops : List Op) (s s' : St) (r : Ret) (hr : run init ops = some s)
    (hs : step s .stop = some (s', r)) : s'.log.getLast? ≠ some .up := by
  have hi := life_inv ops init s good_init hr
  by_cases hset : s.stopSet = true
  · simp only [step, stopInner, hset, ↓reduceIte, Option.some.injEq, Prod.mk.injEq] at hs
    obtain ⟨rfl, _⟩ := hs
    simp
  · have hf : s.stopSet = false := by simpa using hset
    simp only [step, stopInner, hf, Bool.false_eq_true, ↓reduceIte, Option.some.injEq, Prod.mk.injEq] at hs
    obtain ⟨rfl, _⟩ := hs
    intro hl
    exact hset (hi.2 hl)

/-- a started service that went through any number of restarts and listener deaths, then `Stop()`:
exactly one start-up round and one shut-down round, in that order; nothing serves. -/
theorem start_restarts_stop (n : Nat) (rest : List Att) (mid : List Op)
    (hmid : ∀ o ∈ mid, (∃ a, o = .restart a) ∨ o = .die) :
    ∃ s, run init (.start (List.replicate n .unreachable ++ .bound :: rest) :: mid ++ [.stop]) = some s ∧
      s.log = [.up, .down] ∧ s.serving = false ∧ s.stopSet = false := by
  have hst : svcStart (List.replicate n Att.unreachable ++ Att.bound :: rest) = .started :=
    (NV.C16.started_iff _).2 ⟨n, rest, rfl⟩
  -- after Start: stopSet, log = [up]; restarts and deaths keep both
  have key : ∀ (mid : List Op) (s0 : St), (∀ o ∈ mid, (∃ a, o = .restart a) ∨ o = .die) →
      s0.stopSet = true → s0.log = [.up] →
      ∃ s, run s0 (mid ++ [.stop]) = some s ∧ s.log = [.up, .down] ∧ s.serving = false ∧ s.stopSet = false := by
    intro mid
    induction mid with
    | nil =>
      intro s0 _ hset hlog
      exact ⟨{ stopSet := false, serving := false, log := s0.log ++ [.down] },
        by simp [run, step, stopInner, hset], by simp [hlog], rfl, rfl⟩
    | cons o os ih =>
      intro s0 hm hset hlog
      rcases hm o (by simp) with ⟨a, rfl⟩ | rfl
      · simp only [List.cons_append, run, step, stopInner, hset, ↓reduceIte]
        exact ih _ (fun o ho => hm o (by simp [ho])) (by simp [attemptSt]) (by simp [attemptSt, hlog])
      · simp only [List.cons_append, run, step]
        exact ih _ (fun o ho => hm o (by simp [ho])) (by simpa using hset) (by simpa using hlog)
  simp only [List.cons_append, run, step, init, hst]
  simpa using key mid _ hmid (by simp) (by simp)

example : run init [.start [.unreachable, .bound], .restart .bound, .die, .stop, .stop] =
    some { stopSet := false, serving := false, log := [.up, .down] } := by decide

/-- quirk kept visible: a `Stop()` after a FAILED start finds the field set by the failed attempt and runs
the shut-down round although no start-up round ran (no caller does that: both run loops return on a
Start error). -/
example : run init [.start [.failed], .stop] = some { stopSet := false, serving := false, log := [.down] } := by decide


open NV.CFG NV.Gen in
/-- **C16/C20 (regenerated)**: `(*proxySvc).Stop` runs the OnStopped hooks only on the success edge of the
test of `p.stop()`, on every path (certificate over the regenerated CFG); the extraction saw the call, the
loop and the hook call. -/
theorem gen_stop_hooks_guarded :
    check Hooks.stopHooks_strict Hooks.stopHooks Hooks.stopHooks_cert Hooks.stopHooks_init = true ∧
    Hooks.stopHooks_init = (0, 0) ∧ 1 ≤ Hooks.stopHookCalls ∧ Hooks.stopCalls = 1 ∧
    (Hooks.stopHooks.any fun b => b.evs == [.acq]) = true ∧
    (Hooks.stopHooks.any fun b => b.evs.contains .need) = true := by decide

open NV.CFG NV.Gen in
/-- **(regenerated)** `(*proxySvc).stop`, three projections of its CFG: `return true` is only reached after
`p.stopFunc()` was called and `<-p.stopped` was waited for — in that order — and after the field was cleared;
`return false` is only reached on the nil edge of the test of the field. This is `NV.SvcLife.stopInner`. -/
theorem gen_stop_inner_ok :
    check Hooks.stopCancel_strict Hooks.stopCancel Hooks.stopCancel_cert Hooks.stopCancel_init = true ∧
    check Hooks.stopClear_strict Hooks.stopClear Hooks.stopClear_cert Hooks.stopClear_init = true ∧
    check Hooks.stopNil_strict Hooks.stopNil Hooks.stopNil_cert Hooks.stopNil_init = true ∧
    (Hooks.stopCancel.any fun b => b.evs == [.acq, .need, .need, .rel]) = true ∧
    (Hooks.stopClear.any fun b => b.evs == [.acq, .need, .rel]) = true ∧
    (Hooks.stopNil.any fun b => b.evs == [.acq]) = true ∧
    (Hooks.stopNil.any fun b => b.evs == [.need, .rel]) = true := by decide

open NV.Gen in
/-- **(regenerated)** `Restart` is `stop()` then `start()` and touches no hook list; `start()`'s goroutine
publishes the cancel function and the `stopped` channel before it serves and closes the channel when it
returns; nothing else writes the field. -/
theorem gen_restart_start_shape :
    Hooks.restartCalls = ["stop", "start"] ∧ Hooks.restartMentionsHooks = false ∧
    Hooks.startAssignsStopFuncFirst = true ∧ Hooks.startMakesStoppedFirst = true ∧
    Hooks.startDefersCloseStopped = true ∧ Hooks.stopFuncWrites = 2 := by decide

open NV.Gen in
/-- **(regenerated)** the run loops: as a service only SIGTERM leads to `r.Stop()` (all signals are
subscribed, the others are logged), in the foreground SIGHUP / SIGTERM / interrupt do; a failed
`r.Start()` returns without `r.Stop()`. This is `NV.SvcLife.stopsOn` / `runLoopOps`. -/
theorem gen_runloop_agree :
    Hooks.svcStopSignals = ["syscall.SIGTERM"] ∧ Hooks.svcNotifyAll = true ∧ Hooks.svcStartErrReturns = true ∧
    Hooks.fgNotify = ["syscall.SIGHUP", "syscall.SIGTERM", "os.Interrupt"] ∧
    Hooks.fgStopsAfterSignal = true ∧ Hooks.fgStartErrReturns = true := by decide

/-- **a whole run of the daemon under its run loop**: no hook round when the start failed (or is still
waiting for the network), the start-up round alone while it runs, the start-up round followed by the
shut-down round once a stopping signal arrived — for every outcome list and every signal sequence. -/
theorem service_run_log (fg : Bool) (as : List Att) (sigs : List Sig) :
    ∃ s, run init (runLoopOps fg as sigs) = some s ∧
      s.log = (if svcStart as = .started then
                 (if sigs.any (stopsOn fg) = true then [.up, .down] else [.up]) else []) ∧
      (s.serving = true ↔ (svcStart as = .started ∧ sigs.any (stopsOn fg) = false)) :=
  NV.SvcLife.service_run_log' fg as sigs

end NV.C16Life
