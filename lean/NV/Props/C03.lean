/-
  C03 — upstream faults cost at most the request timeout.

  Model: NV.Model.Upstream. The model's clock is exact: "completion time" is the arrival time of
  the accepted datagram or the deadline. Real time is measured by the `upfault` area.
-/
import NV.Gen.PkgState
import NV.Model.Upstream
import NV.Gen.Upstream
namespace NV.C03
open NV

/-- a datagram the DNS53 loop accepts -/
def Good (id D : Nat) (a : Arrival) : Prop := a.time < D ∧ 2 ≤ a.data.length ∧ rd16 a.data 0 = id

/-- a datagram the loop skips and keeps waiting -/
def Skipped (id D : Nat) (a : Arrival) : Prop := a.time < D ∧ (a.data.length < 2 ∨ rd16 a.data 0 ≠ id)

/-- **C03 (bounded by the deadline)**: for every sequence of arrivals the DNS53 read loop
completes no later than the deadline (in the model's clock). -/
theorem dns53_time_le (id D : Nat) (as : List Arrival) : (dns53Loop id D as).time ≤ D := by
  induction as with
  | nil => simp [dns53Loop, Dns53Res.time]
  | cons a rest ih =>
    unfold dns53Loop
    split
    · simp [Dns53Res.time]
    · split
      · exact ih
      · split
        · exact ih
        · simp only [Dns53Res.time]; omega

/-- **C03 (which datagram is the answer)**: the loop answers with `d` at time `t` exactly when `d`
is the first datagram that is in time, at least 2 bytes long and carries the query ID, all earlier
ones having been in time but short or mismatched. -/
theorem dns53_answer_iff (id D : Nat) (as : List Arrival) (t : Nat) (d : Bytes) :
    dns53Loop id D as = .answer t d ↔
      ∃ pre post, as = pre ++ ⟨t, d⟩ :: post ∧ Good id D ⟨t, d⟩ ∧ ∀ a ∈ pre, Skipped id D a := by
  induction as with
  | nil => simp [dns53Loop]
  | cons a rest ih =>
    unfold dns53Loop
    constructor
    · intro h
      split at h
      · simp at h
      · rename_i hlt
        split at h
        · rename_i hshort
          obtain ⟨pre, post, he, hg, hs⟩ := ih.mp h
          refine ⟨a :: pre, post, by simp [he], hg, ?_⟩
          intro x hx
          simp at hx
          rcases hx with rfl | hx
          · exact ⟨by omega, Or.inl hshort⟩
          · exact hs x hx
        · rename_i hlong
          split at h
          · rename_i hid
            obtain ⟨pre, post, he, hg, hs⟩ := ih.mp h
            refine ⟨a :: pre, post, by simp [he], hg, ?_⟩
            intro x hx
            simp at hx
            rcases hx with rfl | hx
            · exact ⟨by omega, Or.inr hid⟩
            · exact hs x hx
          · rename_i hid
            simp only [Dns53Res.answer.injEq] at h
            obtain ⟨h1, h2⟩ := h
            cases a with
            | mk tm ad =>
              simp only at h1 h2 hlt hlong hid
              subst h1 h2
              refine ⟨[], rest, by simp, ⟨?_, ?_, ?_⟩, by simp⟩
              · show tm < D; omega
              · show 2 ≤ ad.length; omega
              · show rd16 ad 0 = id; simpa using hid
    · rintro ⟨pre, post, he, hg, hs⟩
      cases pre with
      | nil =>
        simp at he
        obtain ⟨rfl, rfl⟩ := he
        obtain ⟨g1, g2, g3⟩ := hg
        simp only at g1 g2 g3
        simp [show ¬ t ≥ D by omega, show ¬ d.length < 2 by omega, g3]
      | cons b pre' =>
        simp at he
        obtain ⟨rfl, hrest⟩ := he
        have hb := hs a (by simp)
        have hrec : dns53Loop id D rest = .answer t d :=
          ih.mpr ⟨pre', post, hrest, hg, fun x hx => hs x (by simp [hx])⟩
        obtain ⟨b1, b2⟩ := hb
        simp only [show ¬ a.time ≥ D by omega, ↓reduceIte]
        rcases b2 with b2 | b2
        · simp [b2, hrec]
        · by_cases hsh : a.data.length < 2
          · simp [hsh, hrec]
          · simp [hsh, b2, hrec]

/-- otherwise the query fails exactly at the deadline — never later -/
theorem dns53_timeout_at_deadline (id D : Nat) (as : List Arrival) (t : Nat)
    (h : dns53Loop id D as = .timeout t) : t = D := by
  induction as with
  | nil => simp [dns53Loop] at h; omega
  | cons a rest ih =>
    unfold dns53Loop at h
    split at h
    · simp at h; omega
    · split at h
      · exact ih h
      · split at h
        · exact ih h
        · simp at h

/-- **C03 (body reading is chunking-independent)**: however the HTTP body is delivered
(any split into reads, trickled byte by byte or at once), `readDNSResponse` returns the same
thing: the whole body when it is shorter than the buffer, its first `L` bytes flagged truncated
otherwise. -/
theorem readBody_chunking (L : Nat) (chunks : List Bytes) (acc : Bytes) (hacc : acc.length < L) :
    readBody L (chunks.map .data ++ [.eof []]) acc =
      .ok (if (acc ++ chunks.flatten).length ≥ L then ((acc ++ chunks.flatten).take L, true)
           else (acc ++ chunks.flatten, false)) := by
  induction chunks generalizing acc with
  | nil =>
    simp only [List.map_nil, List.nil_append, readBody, List.flatten_nil, List.append_nil]
    have : ¬ acc.length ≥ L := by omega
    simp only [this, ↓reduceIte]
    rw [List.take_of_length_le (by omega)]
  | cons c cs ih =>
    simp only [List.map_cons, List.cons_append, readBody, List.flatten_cons]
    by_cases h : (acc ++ c).length ≥ L
    · simp only [h, ↓reduceIte]
      have h2 : (acc ++ (c ++ cs.flatten)).length ≥ L := by simp at h ⊢; omega
      simp only [h2, ↓reduceIte]
      rw [← List.append_assoc, List.take_append_of_le_length h]
    · simp only [h, ↓reduceIte]
      rw [ih (acc ++ c) (by omega)]
      simp [List.append_assoc]

/-- a read error anywhere in the body (reset, deadline, RST_STREAM) fails the request -/
theorem readBody_fail (L : Nat) (chunks : List Bytes) (rest : List ReadEv) (acc : Bytes)
    (h : (acc ++ chunks.flatten).length < L) :
    readBody L (chunks.map .data ++ .fail :: rest) acc = .error () := by
  induction chunks generalizing acc with
  | nil => simp [readBody]
  | cons c cs ih =>
    simp only [List.map_cons, List.cons_append, readBody]
    have : ¬ (acc ++ c).length ≥ L := by simp at h ⊢; omega
    simp only [this, ↓reduceIte]
    apply ih
    simpa [List.append_assoc] using h

/-- **C03 (every fault becomes SERVFAIL)**: transport errors (refused, reset, hang until the
deadline, TLS failure), any status other than 200, a body that fails before its end and an empty
body all make the handler send SERVFAIL. -/
theorem fault_to_servfail (L : Nat) (q : Query) :
    resolved q (dohOutcome L .transportError) = replyRCode 2 q ∧
    (∀ code body, code ≠ 200 → resolved q (dohOutcome L (.status code body)) = replyRCode 2 q) ∧
    (∀ (chunks : List Bytes) rest, chunks.flatten.length < L →
        resolved q (dohOutcome L (.status 200 (chunks.map .data ++ .fail :: rest))) = replyRCode 2 q) ∧
    (0 < L → resolved q (dohOutcome L (.status 200 [.eof []])) = replyRCode 2 q) := by
  refine ⟨rfl, ?_, ?_, ?_⟩
  · intro code body h; simp [dohOutcome, h, resolved]
  · intro chunks rest h
    simp only [dohOutcome, ne_eq, not_true_eq_false, ↓reduceIte]
    rw [readBody_fail L chunks rest [] (by simpa using h)]
    rfl
  · intro hL
    simp [dohOutcome, readBody, resolved]

/-- a timeout of the plain-DNS loop is an error for the handler, hence SERVFAIL -/
theorem dns53_timeout_servfail (id D : Nat) (as : List Arrival) (q : Query) (t : Nat)
    (h : dns53Loop id D as = .timeout t) : resolved q (dns53Loop id D as).outcome = replyRCode 2 q := by
  rw [h]; rfl

/-- **C03 (a complete message is delivered)**: status 200 and a body of 1..L-1 bytes, however
chunked, reaches the handler unchanged. -/
theorem complete_message_delivered (L : Nat) (q : Query) (chunks : List Bytes)
    (h1 : 1 ≤ chunks.flatten.length) (h2 : chunks.flatten.length < L) (hL : L ≤ 65536) :
    resolved q (dohOutcome L (.status 200 (chunks.map .data ++ [.eof []]))) = chunks.flatten := by
  simp only [dohOutcome, ne_eq, not_true_eq_false, ↓reduceIte]
  rw [readBody_chunking L chunks [] (by show 0 < L; omega)]
  generalize chunks.flatten = body at *
  have h3 : ¬ (([] : Bytes) ++ body).length ≥ L := by rw [List.nil_append]; omega
  rw [if_neg h3]
  simp only [List.nil_append, Bool.false_eq_true, ↓reduceIte]
  unfold resolved maxTCPSize
  have h4 : ¬ (body.length = 0 ∨ body.length > 65535) := by omega
  dsimp only
  rw [if_neg h4]

/-- tie to the source (regenerated): in `DNS53.resolve` the connection is dialled with the request
context and `SetDeadline(ctx.Deadline())` precedes the first Write/Read on it; in `DOH.resolve`
the HTTP request is created with the request context; `DNSEndpoint.Exchange` does the same. -/
theorem gen_deadline_attached :
    Gen.Upstream.dns53_dial_with_ctx = true ∧ Gen.Upstream.dns53_deadline_before_io = true ∧
    Gen.Upstream.doh_request_with_ctx = true := by decide

/-- **C03 (recovery after connection-level hangs)**: with an unbounded pool, whatever connection
hangs came before, every request issued while the upstream is healthy is answered. -/
theorem recovery_unbounded_pool (hung : Nat) (hs : List Bool) :
    ∀ i : Nat, hs[i]? = some true → ((ConnPool.run ⟨none, hung⟩ hs).1)[i]? = some true := by
  induction hs generalizing hung with
  | nil => intro i h; simp at h
  | cons h hs ih =>
    intro i hi
    cases h with
    | true =>
      cases i with
      | zero => simp [ConnPool.run, ConnPool.request, ConnPool.canDial]
      | succ k =>
        simp only [List.getElem?_cons_succ] at hi
        simpa [ConnPool.run, ConnPool.request, ConnPool.canDial] using ih hung k hi
    | false =>
      cases i with
      | zero => simp at hi
      | succ k =>
        simp only [List.getElem?_cons_succ] at hi
        simpa [ConnPool.run, ConnPool.request, ConnPool.canDial] using ih (hung + 1) k hi

/-- why the bound matters: with one connection per host and no handshake timeout, a single hung
dial makes every later request fail although the upstream is healthy again -/
theorem bounded_pool_wedges :
    (ConnPool.run ⟨some 1, 0⟩ [false, true, true, true]).1 = [false, false, false, false] := by decide

/-- tie to the source (regenerated from resolver/endpoint/transport_h2.go): the DoH transport sets
no per-host connection limit, so `recovery_unbounded_pool` is the applicable statement (there is
no handshake timeout either: a limit would turn one hung dial into a permanent outage). -/
theorem gen_pool_unbounded : Gen.Upstream.doh_conn_limits = [] := by decide

example : (ConnPool.run ⟨none, 0⟩ [false, true, false, true]).1 = [false, true, false, true] := by decide

/-- tie to the source (regenerated): EVERY function of the plain-DNS upstream code that dials
(`DNS53.resolve`, `DNSEndpoint.Exchange`, and any helper added beside them — a TCP retry, a second
server) passes the request context to its dial and sets a deadline on the connection before its
first read or write: no upstream exchange can outlive the request. -/
theorem gen_every_dial_bounded :
    (Gen.Upstream.dns53_dialers.all fun d => d.2.1 && d.2.2) = true ∧ 2 ≤ Gen.Upstream.dns53_dialers.length := by
  decide

/-- non-vacuity: an arrival sequence with a stale answer of a previous query, a runt and then the
answer; and one where the answer comes too late. -/
example : dns53Loop 7 300 [⟨10, [0, 9, 1]⟩, ⟨12, [0]⟩, ⟨40, [0, 7, 1, 2]⟩] = .answer 40 [0, 7, 1, 2] := by decide
example : dns53Loop 7 300 [⟨10, [0, 9, 1]⟩, ⟨550, [0, 7, 1, 2]⟩] = .timeout 300 := by decide

/-- **regenerated (no hidden state between exchanges)**: the models of the resolvers, of the probe and of the transports decide
every exchange from its own inputs (`dns53Loop`, `dohOutcome`, the `upfpair` / `d53soak` / `realep` model lines).  In the
packages on the query path — proxy, resolver, resolver/endpoint, resolver/query, config — the only package-level variables
written after initialisation are the lazily built root-certificate pool and its `sync.Once`; everything else that outlives a
query hangs off the objects the models carry (cache, manager, endpoint, proxy).  (A counter, a socket list, a table of
transports or a cached probe message at package level would be state the models do not have.) -/
theorem gen_no_hidden_process_state :
    (Gen.PkgState.table.all fun r =>
      r.2.2.isEmpty || (r.1 == "resolver/endpoint" && (r.2.1 == "rootCAInit" || r.2.1 == "rootCAs"))) = true ∧
    (Gen.PkgState.table.any fun r => r.1 == "resolver" && r.2.1 == "defaultDialer") = true ∧
    (Gen.PkgState.table.any fun r => r.1 == "resolver/endpoint" && r.2.1 == "TestDomain") = true := by
  decide

end NV.C03
