/-
  C10 — split-horizon: each query goes to exactly the matching forwarder.

  "With forwarders configured, a query is sent to exactly one upstream: the first forwarder whose
  domain equals the query name or is a parent of it on a label boundary, compared case-insensitively
  as DNS names are, else the default NextDNS upstream.  It is never sent to any other upstream."

  Statements are about NV.Model.Forwarder (config/forwarder.go after the repair
  `fix: compare forwarder domains case-insensitively`, plus the catch-all appended by run.go) and
  hold for every forwarder list, every name, every upstream behaviour — no bound.

  Vocabulary: an absolute name is given by its label list `ls`; its text is `absName ls`
  (`render ls` = every label followed by '.', the root is "."); `labelSuffix dl nl` is the
  specification "dl is nl or an ancestor of nl, labels compared under ASCII case folding".
-/
import NV.Gen.PkgState
import NV.Model.Forwarder
import NV.Lemmas.Forwarder
import NV.Gen.Run
namespace NV.C10
open NV NV.Fwd

/-! ### matching -/

/-- **C10 (case)**: `Match` does not distinguish ASCII case, on either side.
(False on the unrepaired tree: see `matchExact_case_sensitive_witness`.) -/
theorem match_case_insensitive (d n : Bytes) : matchD d n = matchD (lower d) (lower n) := by
  rw [Bool.eq_iff_iff, matchD_iff, matchD_iff]
  simp [lower_eq_nil]

/-- … hence any two 0x20 spellings of a rule and of a name are treated alike -/
theorem match_fold_invariant (d d' n n' : Bytes) (hd : lower d = lower d') (hn : lower n = lower n') :
    matchD d n = matchD d' n' := by
  rw [match_case_insensitive d n, match_case_insensitive d' n', hd, hn]

example : lower (str "CoRp.") = lower (str "corp.") ∧ lower (str "Host.CORP.") = lower (str "hOST.corp.") ∧
    matchD (str "CoRp.") (str "Host.CORP.") = true := by decide

/-- **C10 (label boundary)**: read a text as a sequence of dot-terminated labels (`render`); for ALL
label lists without '.' inside a label — rule side and name side, any case mix — `Match` holds exactly
when the rule's labels are a suffix of the name's labels under ASCII case folding.  So `notcorp.`
never matches `corp.`, `Host.CORP.` always does.  (`render [] = ""` is the rule without domain, which
matches everything; the text "." is `render [[]]`, ONE empty label — see the next theorem for what
that means for a root-domain rule.) -/
theorem match_iff_label_suffix (dl nl : List Bytes) (hd : ∀ l ∈ dl, dot ∉ l) (hn : ∀ l ∈ nl, dot ∉ l) :
    matchD (render dl) (render nl) = labelSuffix dl nl := by
  rw [Bool.eq_iff_iff, matchD_iff]
  unfold labelSuffix
  rw [List.isSuffixOf_iff_suffix]
  have hd' : ∀ l ∈ dl.map lower, dot ∉ l := by
    intro l hl; simp only [List.mem_map] at hl; obtain ⟨l0, h0, rfl⟩ := hl
    exact fun e => hd l0 h0 ((dot_mem_lower l0).1 e)
  have hn' : ∀ l ∈ nl.map lower, dot ∉ l := by
    intro l hl; simp only [List.mem_map] at hl; obtain ⟨l0, h0, rfl⟩ := hl
    exact fun e => hn l0 h0 ((dot_mem_lower l0).1 e)
  by_cases hne : dl = []
  · subst hne; simp
  · have hrd : render dl ≠ [] := fun e => hne ((render_eq_nil dl).1 e)
    simp only [hrd, false_or, lower_cons, lowerB_dot, lower_render]
    exact text_suffix_iff _ _ hd' hn'

example : (∀ l ∈ [str "corp"], dot ∉ l) ∧ labelSuffix [str "corp"] [str "notcorp"] = false ∧
    labelSuffix [str "corp"] [str "Host", str "CORP"] = true := by
  refine ⟨?_, by decide, by decide⟩
  intro l hl; simp at hl; subst hl; decide

/-- **C10 (label boundary, DNS reading)**: for a rule domain with at least one label and any query name, both
absolute and made of non-empty labels without '.', `Match` holds exactly when the rule's labels
are a suffix of the name's labels under case folding.

Full statement wanted by the property (kept visible): the same with `dl = []` allowed, i.e. a rule for
the root domain "." matches every name.  That is FALSE of the code — `match_root_rule_only_root` —
and recorded as an open finding (C10-root-domain-rule); names whose labels contain '.' are excluded
because their text is ambiguous (DESIGN §7 #5, a C06 finding). -/
theorem match_iff_label_suffix_partial (dl nl : List Bytes) (hne : dl ≠ []) (hd : WF dl) (hn : WF nl) :
    matchD (absName dl) (absName nl) = labelSuffix dl nl := by
  rw [Bool.eq_iff_iff, matchD_iff]
  unfold labelSuffix
  rw [List.isSuffixOf_iff_suffix]
  have hd' := WF_lower hd
  have hn' := WF_lower hn
  have hdl : absName dl = render dl := by simp [absName, hne]
  have hrd : render dl ≠ [] := fun e => hne ((render_eq_nil dl).1 e)
  rw [hdl]
  by_cases hnl : nl = []
  · -- the root name: only a root rule could match it
    subst hnl
    have h1 : ¬ (List.map lower dl <:+ []) := by
      intro h; exact hne (by simpa using h)
    simp only [absName, List.map_nil, h1, iff_false, hrd, false_or, ↓reduceIte]
    cases dl with
    | nil => exact absurd rfl hne
    | cons l ls =>
      obtain ⟨⟨hl, _⟩, _⟩ := WF_cons hd
      cases l with
      | nil => exact absurd rfl hl
      | cons c l =>
        rintro (h | h)
        · have := congrArg List.length h; simp at this
        · have := h.length_le; simp at this
  · have hnn : absName nl = render nl := by simp [absName, hnl]
    rw [hnn]
    simp only [hrd, false_or, lower_cons, lowerB_dot, lower_render]
    exact text_suffix_iff _ _ (fun l hl => (hd' l hl).2) (fun l hl => (hn' l hl).2)

/-- the hypotheses are satisfiable, both ways: "Host.CORP." under "corp." ; "notcorp." is not -/
example : WF [[99,111,114,112]] ∧ WF [[72,111,115,116],[67,79,82,80]] ∧
    labelSuffix [[99,111,114,112]] [[72,111,115,116],[67,79,82,80]] = true := by
  refine ⟨?_, ?_, by decide⟩ <;> intro l hl <;> simp at hl <;> rcases hl with rfl | rfl <;> decide

/-- **witness** (string suffix is not label suffix): `notcorp.` does not match the rule `corp.`,
`host.corp.` and `CORP.` do -/
theorem notcorp_not_corp :
    matchD (str "corp.") (str "notcorp.") = false ∧
    matchD (str "corp.") (str "host.corp.") = true ∧
    matchD (str "corp.") (str "CORP.") = true ∧
    matchD (str "corp.") (str "Host.CORP.") = true ∧
    matchD (str "Corp.") (str "host.corP.") = true := by decide

/-- negative half kept visible: the matcher of the unrepaired tree is case-sensitive
(DESIGN §7 #4; replayed on the real code by corpus/fwd/001-case-host-corp.txt) -/
theorem matchExact_case_sensitive_witness :
    matchExact (str "corp.") (str "Host.CORP.") = false ∧
    matchExact (str "corp.") (str "host.corp.") = true := by decide

/-- negative half of `match_iff_label_suffix`: a rule for the root domain (`.=addr`, also what
`=addr` parses to) matches the root name and nothing below it, although the root is an ancestor
of every name (`labelSuffix [] nl = true`).  Open finding C10-root-domain-rule. -/
theorem match_root_rule_only_root :
    matchD (absName []) (absName []) = true ∧
    matchD (absName []) (absName [(str "example"), (str "com")]) = false ∧
    labelSuffix [] [(str "example"), (str "com")] = true ∧
    (newResolver (str "=192.0.2.1")).1 = absName [] := by decide

/-- a rule without domain (the catch-all of run.go, or a bare `-forwarder ADDR`) matches everything -/
theorem match_unconditional (n : Bytes) : matchD [] n = true := by simp [matchD]

/-! ### Get: first match wins -/

/-- **C10 (first match)**: `Get` returns upstream `u` iff the list splits into rules that do not
match, then a rule of `u` that matches. -/
theorem get_first (fs : List Fw) (n : Bytes) (u : Nat) :
    getFw fs n = some u ↔
      ∃ pre f post, fs = pre ++ f :: post ∧ f.up = u ∧ matchD f.domain n = true ∧
        ∀ g ∈ pre, matchD g.domain n = false := by
  induction fs with
  | nil => simp [getFw]
  | cons f fs ih =>
    unfold getFw
    by_cases hm : matchD f.domain n = true
    · simp only [hm, ↓reduceIte, Option.some.injEq]
      constructor
      · intro h; exact ⟨[], f, fs, rfl, h, hm, by simp⟩
      · rintro ⟨pre, g, post, he, hu, _, hpre⟩
        cases pre with
        | nil => simp at he; rw [he.1]; exact hu
        | cons p pre =>
          simp at he
          have := hpre p (by simp)
          rw [← he.1, hm] at this; cases this
    · simp only [hm, Bool.false_eq_true, ↓reduceIte, ih]
      constructor
      · rintro ⟨pre, g, post, he, hu, hg, hpre⟩
        refine ⟨f :: pre, g, post, by simp [he], hu, hg, ?_⟩
        intro x hx
        simp at hx
        rcases hx with rfl | hx
        · simpa using hm
        · exact hpre x hx
      · rintro ⟨pre, g, post, he, hu, hg, hpre⟩
        cases pre with
        | nil => simp at he; rw [he.1] at hm; exact absurd hg hm
        | cons p pre =>
          simp at he
          exact ⟨pre, g, post, he.2, hu, hg, fun x hx => hpre x (by simp [hx])⟩

theorem get_none_iff (fs : List Fw) (n : Bytes) :
    getFw fs n = none ↔ ∀ f ∈ fs, matchD f.domain n = false := by
  induction fs with
  | nil => simp [getFw]
  | cons f fs ih =>
    unfold getFw
    by_cases hm : matchD f.domain n = true
    · simp [hm]
    · simp [hm, ih]

/-- **C10 (else the default)**: with the catch-all of run.go appended, the chosen upstream is the first
matching configured rule's, and the default exactly when no configured rule matches. -/
theorem get_catchall (fs : List Fw) (dflt : Nat) (n : Bytes) :
    getFw (withCatchAll fs dflt) n = some ((getFw fs n).getD dflt) := by
  induction fs with
  | nil => simp [withCatchAll, getFw, matchD]
  | cons f fs ih =>
    unfold withCatchAll at *
    simp only [List.cons_append, getFw]
    split <;> simp_all

/-- the shape of the catch-all block is re-read from run.go on every check -/
theorem gen_catchall_agree :
    Gen.Run.catchAllDomain = (withCatchAll [] 0).head!.domain ∧
    Gen.Run.catchAllIsLast = true ∧ Gen.Run.catchAllKeepsOrder = true := by decide

/-! ### Resolve: exactly one upstream -/

/-- **C10 (exactly one)**: with the catch-all present, `Forwarders.Resolve` calls exactly one
upstream, exactly once — the one `Get` designates — and hands its result through; no other upstream
sees the query, whatever the upstreams do. -/
theorem exactly_one_upstream (ups : Nat → Bytes → Nat) (fs : List Fw) (dflt : Nat) (n : Bytes) :
    let u := (getFw fs n).getD dflt
    resolve ups (withCatchAll fs dflt) n = (.passed (ups u n), [u]) ∧
    (∀ v, v ≠ u → (resolve ups (withCatchAll fs dflt) n).2.count v = 0) ∧
    (resolve ups (withCatchAll fs dflt) n).2.count u = 1 := by
  intro u
  have h : resolve ups (withCatchAll fs dflt) n = (.passed (ups u n), [u]) := by
    unfold resolve; rw [get_catchall]
  refine ⟨h, ?_, ?_⟩
  · intro v hv; rw [h]; simp [List.count_cons]; exact fun e => hv e.symm
  · rw [h]; simp

/-- without a matching rule and without catch-all nothing is called at all (error reply) -/
theorem resolve_no_forwarder (ups : Nat → Bytes → Nat) (fs : List Fw) (n : Bytes)
    (h : ∀ f ∈ fs, matchD f.domain n = false) : resolve ups fs n = (.noForwarder, []) := by
  unfold resolve; rw [(get_none_iff fs n).2 h]

example : (∀ f ∈ [({ domain := str "corp.", addr := [], up := 0 } : Fw)], matchD f.domain (str "notcorp.") = false) ∧
    resolve (fun u _ => 1000 + u) [{ domain := str "corp.", addr := [], up := 0 }] (str "notcorp.") = (.noForwarder, []) := by
  decide

/-- **C10 (no leak, in label terms)**: all rules with well-formed non-root domains (or no domain),
well-formed name: the default upstream is the one called iff no rule's domain is the name or an
ancestor of it; otherwise the called upstream belongs to the FIRST such rule. -/
theorem default_iff_no_rule_partial (rules : List (List Bytes × Nat)) (dflt : Nat) (nl : List Bytes)
    (hr : ∀ r ∈ rules, r.1 ≠ [] ∧ WF r.1) (hn : WF nl) :
    let fs := rules.map fun r => ({ domain := absName r.1, addr := [], up := r.2 } : Fw)
    getFw (withCatchAll fs dflt) (absName nl) =
      some (((rules.find? fun r => labelSuffix r.1 nl).map (·.2)).getD dflt) := by
  intro fs
  rw [get_catchall]
  congr 1
  induction rules with
  | nil => rfl
  | cons r rules ih =>
    have h1 := hr r (by simp)
    have hm := match_iff_label_suffix_partial r.1 nl h1.1 h1.2 hn
    simp only [fs, List.map_cons, getFw, hm, List.find?_cons]
    cases hls : labelSuffix r.1 nl
    · simp only [Bool.false_eq_true, ↓reduceIte]
      exact ih (fun x hx => hr x (by simp [hx]))
    · simp

example : (∀ r ∈ [([[99,111,114,112]], 7)], r.1 ≠ [] ∧ WF r.1) := by
  intro r hr; simp at hr; subst hr
  refine ⟨by simp, ?_⟩
  intro l hl; simp at hl; subst hl; decide

/-- **regenerated (no hidden state between exchanges)**, as `NV.C03.gen_no_hidden_process_state`: no package-level variable of
the query-path packages is written after initialisation except the root-certificate pool — the upstream a query reaches is decided by the rule list and the chosen resolver alone. -/
theorem gen_no_hidden_process_state :
    (Gen.PkgState.table.all fun r =>
      r.2.2.isEmpty || (r.1 == "resolver/endpoint" && (r.2.1 == "rootCAInit" || r.2.1 == "rootCAs"))) = true := by
  decide

end NV.C10
