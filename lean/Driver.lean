import NV.Driver.Main
def main (args : List String) : IO Unit := NV.driverMain args
