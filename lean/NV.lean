import NV.Model.Wire
import NV.Model.Parser
import NV.Model.Query
import NV.Model.Reply
import NV.Driver.Main
import NV.Model.CFG
import NV.Driver.Cap
