package main

import (
	"bytes"
	"context"
	"fmt"
	"io"
	"net"
	"net/http"
	"strconv"
	"strings"
	"sync"
	"time"

	"github.com/nextdns/nextdns/resolver"
	"github.com/nextdns/nextdns/resolver/endpoint"
)

// staleq area (C01, refresh leg): the real listeners and handlers, the real resolver.DNS with the response cache ON,
// the endpoint manager on a DoH endpoint (requests recorded as the resolver built them) or on a plain-DNS server:
//
//	staleq <doh|dns53> <udp|tcp> <k> <payloadhex>
//
// The same query (header + one question, no additional section) is asked k times.  The upstream answers the i-th request
// with one A record of TTL 0 carrying the serial i: the answer is stored, is stale at once, and every later query finds
// the entry, copies it out, finds it expired and must fetch again - with the CLIENT'S query bytes - and reply with the new
// answer.  Output: r=<reply 1>,<reply 2>,… up=<request 1 as received by the upstream>,…

func staleAnswer(payload []byte, serial int) []byte {
	a := append([]byte{}, payload[:2]...)
	a = append(a, 0x81, 0x80, 0, 1, 0, 1, 0, 0, 0, 0)
	a = append(a, payload[12:]...)
	return append(a, 0xc0, 0x0c, 0, 1, 0, 1, 0, 0, 0, 0, 0, 4, 10, 0, byte(serial>>8), byte(serial))
}

type staleUp struct {
	mu      sync.Mutex
	payload []byte
	got     [][]byte
}

func (u *staleUp) next(req []byte) []byte {
	u.mu.Lock()
	defer u.mu.Unlock()
	u.got = append(u.got, append([]byte{}, req...))
	a := staleAnswer(u.payload, len(u.got))
	if len(req) >= 2 {
		a[0], a[1] = req[0], req[1] // a server answers with the ID it was asked with
	}
	return a
}

func (u *staleUp) RoundTrip(req *http.Request) (*http.Response, error) {
	body, _ := io.ReadAll(req.Body)
	return &http.Response{StatusCode: 200, Proto: "HTTP/2.0", Header: http.Header{},
		Body: io.NopCloser(bytes.NewReader(u.next(body)))}, nil
}

func runStaleQ(transport, proto string, k int, payload []byte) string {
	up := &staleUp{payload: payload}
	var ep endpoint.Endpoint
	switch transport {
	case "doh":
		d := &endpoint.DOHEndpoint{Hostname: "doh.verif.test"}
		d.VerifRawRoundTripper(up)
		ep = d
	case "dns53":
		pc, err := net.ListenPacket("udp", "127.0.0.1:0")
		if err != nil {
			return "ERR " + err.Error()
		}
		defer pc.Close()
		go func() {
			buf := make([]byte, 65535)
			for {
				n, from, err := pc.ReadFrom(buf)
				if err != nil {
					return
				}
				_, _ = pc.WriteTo(up.next(buf[:n]), from)
			}
		}()
		ep = &endpoint.DNSEndpoint{Addr: pc.LocalAddr().String()}
	default:
		return "bad-op"
	}
	cache := &mapCache{m: map[interface{}]interface{}{}}
	res := &resolver.DNS{DOH: resolver.DOH{Cache: cache}, DNS53: resolver.DNS53{Cache: cache}, Manager: &endpoint.Manager{
		Providers:      []endpoint.Provider{endpoint.StaticProvider([]endpoint.Endpoint{ep})},
		InitEndpoint:   ep,
		ErrorThreshold: 1 << 30,
		EndpointTester: func(endpoint.Endpoint) endpoint.Tester {
			return func(ctx context.Context, testDomain string) error { return nil }
		},
	}}
	srv, err := startServerWith(res, 8, 2*time.Second)
	if err != nil {
		return "ERR " + err.Error()
	}
	defer srv.stop()
	// the readiness probe of startServerWith went upstream too: start counting here
	up.mu.Lock()
	up.got = nil
	up.mu.Unlock()
	tc := &tcpClient{}
	var rs []string
	for i := 0; i < k; i++ {
		if proto == "udp" {
			rep, err := udpExchange(srv.addr, payload, 3*time.Second)
			if err != nil {
				rs = append(rs, "TIMEOUT")
			} else {
				rs = append(rs, hx(rep))
			}
		} else {
			o, err := tc.exchange(srv.addr, payload, 3*time.Second)
			if err != nil {
				o = "ERR"
			} else if len(o) > 4 && o != "close" && o != "TIMEOUT" && o != "SHORT" {
				o = o[4:] // without the length prefix
			}
			rs = append(rs, o)
		}
	}
	if tc.c != nil {
		tc.c.Close()
	}
	up.mu.Lock()
	defer up.mu.Unlock()
	var us []string
	for _, g := range up.got {
		us = append(us, hx(g))
	}
	if len(us) == 0 {
		us = []string{"-"}
	}
	return "r=" + strings.Join(rs, ",") + " up=" + strings.Join(us, ",")
}

// runD53Soak: n exchanges of ONE long-lived process with a plain-DNS upstream that answers every query at once (the query
// with QR set), through resolver.DNS and the endpoint manager, 4 at a time.  How many were answered with the upstream's
// message?  (whatever the resolver counts per exchange must not run out.)
func runD53Soak(n int) string {
	pc, err := net.ListenPacket("udp", "127.0.0.1:0")
	if err != nil {
		return "ERR " + err.Error()
	}
	defer pc.Close()
	go func() {
		buf := make([]byte, 2048)
		for {
			k, from, err := pc.ReadFrom(buf)
			if err != nil {
				return
			}
			if k >= 12 {
				rep := append([]byte{}, buf[:k]...)
				rep[2] |= 0x80
				_, _ = pc.WriteTo(rep, from)
			}
		}
	}()
	ep := &endpoint.DNSEndpoint{Addr: pc.LocalAddr().String()}
	res := &resolver.DNS{Manager: &endpoint.Manager{
		Providers:      []endpoint.Provider{endpoint.StaticProvider([]endpoint.Endpoint{ep})},
		InitEndpoint:   ep,
		ErrorThreshold: 1 << 30,
		EndpointTester: func(endpoint.Endpoint) endpoint.Tester {
			return func(ctx context.Context, testDomain string) error { return nil }
		},
	}}
	var answered, firstBad int64 = 0, -1
	var mu sync.Mutex
	var wg sync.WaitGroup
	next := int64(0)
	for w := 0; w < 4; w++ {
		wg.Add(1)
		go func() {
			defer wg.Done()
			buf := make([]byte, 512)
			for {
				mu.Lock()
				i := next
				next++
				bad := firstBad
				mu.Unlock()
				if i >= int64(n) || bad >= 0 {
					return
				}
				q := lmQuery(int(i%65536), "s"+strconv.FormatInt(i%50, 10))
				ctx, cancel := context.WithTimeout(context.Background(), 400*time.Millisecond)
				k, _, err := res.Resolve(ctx, q, buf)
				cancel()
				ok := err == nil && k == len(q.Payload) && buf[2]&0x80 != 0 && bytes.Equal(buf[12:k], q.Payload[12:])
				mu.Lock()
				if ok {
					answered++
				} else if firstBad < 0 {
					firstBad = i
				}
				mu.Unlock()
			}
		}()
	}
	wg.Wait()
	if firstBad >= 0 {
		return fmt.Sprintf("answered=%d/%d first-unanswered=%d", answered, n, firstBad)
	}
	return fmt.Sprintf("answered=%d/%d", answered, n)
}

func init() {
	areas["staleq"] = func(c *Ctx) error {
		run := func(l string) {
			c.Note(l)
			f := strings.Fields(l)
			if len(f) == 2 && f[0] == "d53soak" {
				n, _ := strconv.Atoi(f[1])
				if n < 1 || n > 1000000 {
					c.Emit(l, "bad-op")
					return
				}
				c.Stat("op:d53soak")
				c.Emit(l, runD53Soak(n))
				return
			}
			if len(f) != 5 || f[0] != "staleq" {
				c.Emit(l, "bad-op")
				return
			}
			k, _ := strconv.Atoi(f[3])
			p := unhx(f[4])
			if k < 1 || k > 8 || len(p) < 17 || (f[2] != "udp" && f[2] != "tcp") {
				c.Emit(l, "bad-op")
				return
			}
			c.Stat("transport:" + f[1])
			c.Stat("proto:" + f[2])
			c.Emit(l, runStaleQ(f[1], f[2], k, p))
		}
		if ls := replayLines(); ls != nil {
			for _, l := range ls {
				run(l)
			}
			return nil
		}
		r := NewRng(c.seed)
		run("d53soak 70000")
		for i := 0; i < c.n; i++ {
			nl := 1 + r.Intn(4)
			ls := make([]string, nl)
			for j := range ls {
				ls[j] = labelPool[r.Intn(len(labelPool))]
			}
			p := append(be16(r.Intn(65536)), 0x01, 0x00, 0, 1, 0, 0, 0, 0, 0, 0)
			p = append(p, wireName(ls...)...)
			p = append(p, be16(r.Pick([]int{1, 28, 16, 15, 255}))...)
			p = append(p, 0, 1)
			run(fmt.Sprintf("staleq %s %s %d %s", r.pick([]string{"doh", "dns53"}), r.pick([]string{"udp", "tcp"}), 2+r.Intn(3), hx(p)))
		}
		return nil
	}
}
