package main

import (
	"context"
	"encoding/binary"
	"fmt"
	"io"
	"net"
	"sort"
	"strings"
	"sync"
	"time"

	"github.com/nextdns/nextdns/resolver"
	"github.com/nextdns/nextdns/resolver/query"
)

// tcpstream area (C01 / C02): ONE client connection as a byte stream. The case gives the whole stream the client
// writes and where it is cut into separate writes (the server's reader must not care); the real serveTCPConn must hand
// exactly the frames the model `NV.TcpStream.splitFrames` finds to its handlers - each answered once, carrying the
// frame's first two bytes as ID - and end the connection exactly when the model says (a frame of <= 14 bytes).
//
//	tcpstream <stream hex> <cut,cut,…|->  ->  ids=<sorted 4-hex ids|-> end=<eof|small|short>
//
// To keep the observation deterministic the client writes the stream up to the end of the last frame the model hands
// to a handler, waits for those replies, and only then sends what is left (a small frame, a short tail): whether a
// server may drop replies still in flight when the client's stream ends is op `halfclose`'s question.
//
//	halfclose <n> <delay ms>  ->  replied=<k>/<n>
//	  n pipelined queries, the upstream answers after <delay>; the client shuts down its WRITING side right after the
//	  last byte and keeps reading: every query must still be answered (C01 "never silence").

type tsUp struct{ delay time.Duration }

func (u *tsUp) Resolve(ctx context.Context, q query.Query, buf []byte) (int, resolver.ResolveInfo, error) {
	if u.delay > 0 {
		time.Sleep(u.delay)
	}
	// like a real upstream, answer with the ID found in the message that was sent (an unparsable message still has one)
	id := q.ID
	if len(q.Payload) >= 2 {
		id = uint16(q.Payload[0])<<8 | uint16(q.Payload[1])
	}
	return synthResp(id, 40, 1, buf), resolver.ResolveInfo{}, nil
}

// tsSplit mirrors nothing of the model: it only finds where the LAST handled frame ends, using the same framing rule
// the client side of DNS-over-TCP uses (RFC 1035 4.2.2), so that the harness can pause there.
func tsHandledPrefix(s []byte) (n int, frames int) {
	off := 0
	for off+2 <= len(s) {
		l := int(binary.BigEndian.Uint16(s[off:]))
		if off+2+l > len(s) || l <= 14 {
			break
		}
		off += 2 + l
		frames++
	}
	return off, frames
}

func readFrames(c net.Conn, want int, wait time.Duration) (ids []string, closed bool) {
	_ = c.SetReadDeadline(time.Now().Add(wait))
	for len(ids) < want || want < 0 {
		var l uint16
		if err := binary.Read(c, binary.BigEndian, &l); err != nil {
			if err == io.EOF {
				return ids, true
			}
			if ne, ok := err.(net.Error); ok && ne.Timeout() {
				return ids, false
			}
			return ids, true
		}
		b := make([]byte, l)
		if _, err := io.ReadFull(c, b); err != nil {
			return ids, true
		}
		if len(b) >= 2 {
			ids = append(ids, fmt.Sprintf("%02x%02x", b[0], b[1]))
		} else {
			ids = append(ids, "short")
		}
	}
	return ids, false
}

func writeCut(c net.Conn, s []byte, cuts []int, base int) {
	// cuts are absolute offsets into the whole stream; s starts at offset base
	prev := 0
	for _, k := range cuts {
		k -= base
		if k <= prev || k >= len(s) {
			continue
		}
		_, _ = c.Write(s[prev:k])
		time.Sleep(300 * time.Microsecond)
		prev = k
	}
	_, _ = c.Write(s[prev:])
}

func runTcpStream(addr string, stream []byte, cuts []int) string {
	c, err := net.DialTimeout("tcp", addr, time.Second)
	if err != nil {
		return "ERR " + err.Error()
	}
	defer c.Close()
	n, frames := tsHandledPrefix(stream)
	writeCut(c, stream[:n], cuts, 0)
	ids, closed := readFrames(c, frames, 2*time.Second)
	end := "?"
	if len(ids) == frames && !closed {
		writeCut(c, stream[n:], cuts, n)
		// what does the server do with the tail? small frame: it closes; short tail or nothing: it waits for more
		more, closed2 := readFrames(c, -1, 250*time.Millisecond)
		ids = append(ids, more...)
		switch {
		case closed2:
			end = "small"
		case n == len(stream):
			end = "eof"
		default:
			end = "short"
		}
	} else if closed {
		end = "closed-early"
	} else {
		end = "missing-replies"
	}
	sort.Strings(ids)
	l := "-"
	if len(ids) > 0 {
		l = strings.Join(ids, ",")
	}
	return "ids=" + l + " end=" + end
}

func runHalfClose(addr string, n int) string {
	c, err := net.DialTimeout("tcp", addr, time.Second)
	if err != nil {
		return "ERR " + err.Error()
	}
	defer c.Close()
	var s []byte
	for i := 0; i < n; i++ {
		q := kindQuery(0x4000+i, "ok")
		s = append(s, be16(len(q))...)
		s = append(s, q...)
	}
	_, _ = c.Write(s)
	if tc, ok := c.(*net.TCPConn); ok {
		_ = tc.CloseWrite()
	}
	ids, _ := readFrames(c, n, 2*time.Second)
	return fmt.Sprintf("replied=%d/%d", len(ids), n)
}

// tsBigUp answers every query with a 60000-byte message
type tsBigUp struct{}

const tsBigLen = 60000

func (tsBigUp) Resolve(ctx context.Context, q query.Query, buf []byte) (int, resolver.ResolveInfo, error) {
	return synthResp(q.ID, tsBigLen, 7, buf), resolver.ResolveInfo{}, nil
}

// runStallRead: n pipelined queries with 60000-byte answers to a proxy whose request timeout is 300 ms; the client does not
// read for <ms> (its receive window and the server's send buffer fill up, the server's writes block), then reads everything
// and asks once more.  Every reply must arrive whole, behind a correct length prefix.
func runStallRead(addr string, n, ms int) string {
	c, err := net.DialTimeout("tcp", addr, time.Second)
	if err != nil {
		return "ERR " + err.Error()
	}
	defer c.Close()
	want := map[uint16]bool{}
	var s []byte
	for i := 0; i < n; i++ {
		q := kindQuery(0x2000+i, "ok")
		want[uint16(0x2000+i)] = true
		s = append(s, be16(len(q))...)
		s = append(s, q...)
	}
	go func() { _, _ = c.Write(s) }()
	time.Sleep(time.Duration(ms) * time.Millisecond)
	whole := 0
	exp := make([]byte, tsBigLen)
	readOne := func() bool {
		_ = c.SetReadDeadline(time.Now().Add(3 * time.Second))
		var l uint16
		if err := binary.Read(c, binary.BigEndian, &l); err != nil {
			return false
		}
		body := make([]byte, l)
		if _, err := io.ReadFull(c, body); err != nil {
			return false
		}
		if int(l) == tsBigLen {
			id := uint16(body[0])<<8 | uint16(body[1])
			synthResp(id, tsBigLen, 7, exp)
			if want[id] && string(body) == string(exp) {
				delete(want, id)
				whole++
			}
		}
		return true
	}
	for i := 0; i < n; i++ {
		if !readOne() {
			break
		}
	}
	q := kindQuery(0x3fff, "ok")
	want[0x3fff] = true
	if _, err := c.Write(append(be16(len(q)), q...)); err == nil {
		readOne()
	}
	return fmt.Sprintf("whole=%d/%d", whole, n+1)
}

func init() {
	areas["tcpstream"] = func(c *Ctx) error {
		fast := &tsUp{}
		srv, err := startServerWith(fast, 64, 2*time.Second)
		if err != nil {
			return err
		}
		defer srv.stop()
		slow := &tsUp{}
		srvSlow, err := startServerWith(slow, 64, 2*time.Second)
		if err != nil {
			return err
		}
		defer srvSlow.stop()
		srvBig, err := startServerWith(tsBigUp{}, 64, 300*time.Millisecond)
		if err != nil {
			return err
		}
		defer srvBig.stop()
		var mu sync.Mutex
		run := func(l string) {
			f := strings.Fields(l)
			switch {
			case len(f) == 3 && f[0] == "stallread":
				var n, ms int
				fmt.Sscanf(f[1], "%d", &n)
				fmt.Sscanf(f[2], "%d", &ms)
				if n < 1 || n > 400 || ms < 0 || ms > 5000 {
					c.Emit(l, "bad-op")
					return
				}
				c.Stat("op:stallread")
				c.Emit(l, runStallRead(srvBig.addr, n, ms))
			case len(f) == 3 && f[0] == "tcpstream":
				var cuts []int
				if f[2] != "-" {
					for _, x := range strings.Split(f[2], ",") {
						var k int
						fmt.Sscanf(x, "%d", &k)
						cuts = append(cuts, k)
					}
				}
				c.Emit(l, runTcpStream(srv.addr, unhx(f[1]), cuts))
			case len(f) == 3 && f[0] == "halfclose":
				var n, d int
				fmt.Sscanf(f[1], "%d", &n)
				fmt.Sscanf(f[2], "%d", &d)
				mu.Lock()
				slow.delay = time.Duration(d) * time.Millisecond
				mu.Unlock()
				c.Emit(l, runHalfClose(srvSlow.addr, n))
			default:
				c.Emit(l, "bad-op")
			}
		}
		if ls := replayLines(); ls != nil {
			for _, l := range ls {
				run(l)
			}
			return nil
		}
		r := NewRng(c.seed)
		var lines []string
		for i := 0; i < c.n; i++ {
			if i == c.n/2 {
				lines = append(lines, fmt.Sprintf("stallread %d %d", 150+r.Intn(100), 900+r.Intn(400)))
				continue
			}
			if r.Chance(4) {
				c.Stat("op:halfclose")
				lines = append(lines, fmt.Sprintf("halfclose %d %d", 1+r.Intn(4), r.Pick([]int{0, 5, 40})))
				continue
			}
			var s []byte
			k := r.Intn(5)
			for j := 0; j < k; j++ {
				var q []byte
				switch r.Intn(7) {
				case 6: // a LARGE frame: a query padded with an EDNS padding option / plain bytes, at and around the sizes a
					// "small buffer for queries" would pick (the length prefix may announce up to 65535 bytes)
					n := r.Pick([]int{4095, 4096, 4097, 5000, 8192, 16384, 16385, 65535})
					if r.Bool() {
						q = r.Bytes(n)
					} else {
						base := r.sockQuery(-1)
						base[11] = 1
						pad := n - len(base) - 11 - 4
						if pad < 0 {
							pad = 0
						}
						q = append(base, packRR(rrSpec{name: []byte{0}, typ: 41, class: 4096, rdata: packOpts([]optSpec{{code: 12, data: make([]byte, pad)}})})...)
					}
					c.Stat("frame:large")
				case 0: // an unparsable but long enough message
					q = r.Bytes(15 + r.Intn(40))
					c.Stat("frame:garbage")
				case 1: // exactly at the size boundary
					q = r.Bytes(15)
					c.Stat("frame:15-bytes")
				default:
					q = r.sockQuery(advSizes[r.Intn(len(advSizes))])
					c.Stat("frame:query")
				}
				q[0], q[1] = byte(0x10+j), byte(r.Intn(256)) // distinct IDs per stream
				s = append(s, be16(len(q))...)
				s = append(s, q...)
			}
			switch r.Intn(8) {
			case 0: // an empty frame
				s = append(s, 0, 0)
				c.Stat("tail:empty-frame")
			case 1: // a frame of 1..14 bytes, then more frames that must not be handled
				t := r.Bytes(1 + r.Intn(14))
				s = append(s, be16(len(t))...)
				s = append(s, t...)
				if r.Chance(50) {
					q := r.sockQuery(-1)
					s = append(s, be16(len(q))...)
					s = append(s, q...)
				}
				c.Stat("tail:small-frame")
			case 2: // half a length prefix
				s = append(s, byte(r.Intn(2)))
				c.Stat("tail:half-prefix")
			case 3: // a frame cut short
				q := r.sockQuery(-1)
				s = append(s, be16(len(q)+1+r.Intn(50))...)
				s = append(s, q...)
				c.Stat("tail:short-frame")
			default:
				c.Stat("tail:none")
			}
			var cuts []string
			for j := 0; j < r.Intn(5) && len(s) > 1; j++ {
				cuts = append(cuts, fmt.Sprint(1+r.Intn(len(s)-1)))
			}
			sort.Slice(cuts, func(a, b int) bool { var x, y int; fmt.Sscan(cuts[a], &x); fmt.Sscan(cuts[b], &y); return x < y })
			cl := "-"
			if len(cuts) > 0 {
				cl = strings.Join(cuts, ",")
			}
			lines = append(lines, "tcpstream "+hx(s)+" "+cl)
		}
		// the cases are independent connections (each waits a quarter of a second for what the server does with its
		// tail): 12 at a time; halfclose cases change the slow server's delay and run alone, in order
		outs := make([]string, len(lines))
		var wg sync.WaitGroup
		sem := make(chan struct{}, 12)
		for i, l := range lines {
			if strings.HasPrefix(l, "halfclose ") || strings.HasPrefix(l, "stallread ") {
				continue
			}
			if len(l) > 8000 {
				// a stream with a large frame: alone and announced, so that a daemon that dies on it is reported with this case
				f := strings.Fields(l)
				var cuts []int
				if f[2] != "-" {
					for _, x := range strings.Split(f[2], ",") {
						var k int
						fmt.Sscanf(x, "%d", &k)
						cuts = append(cuts, k)
					}
				}
				wg.Wait()
				c.Begin(l)
				outs[i] = runTcpStream(srv.addr, unhx(f[1]), cuts)
				continue
			}
			wg.Add(1)
			sem <- struct{}{}
			go func(i int, l string) {
				defer wg.Done()
				defer func() { <-sem }()
				f := strings.Fields(l)
				var cuts []int
				if f[2] != "-" {
					for _, x := range strings.Split(f[2], ",") {
						var k int
						fmt.Sscanf(x, "%d", &k)
						cuts = append(cuts, k)
					}
				}
				outs[i] = runTcpStream(srv.addr, unhx(f[1]), cuts)
			}(i, l)
		}
		wg.Wait()
		for i, l := range lines {
			if strings.HasPrefix(l, "halfclose ") || strings.HasPrefix(l, "stallread ") {
				run(l)
			} else {
				c.Emit(l, outs[i])
			}
		}
		return nil
	}
}
