package main

import (
	"context"
	"fmt"
	"io"
	"net/http"
	"strconv"
	"strings"
	"sync"
	"sync/atomic"
	"time"

	"github.com/nextdns/nextdns/resolver"
	"github.com/nextdns/nextdns/resolver/query"
)

// lmrace area (C15, "every reply is one that some sequential order of the same queries could have produced"):
//
//	lmrace <k> <iters>
//
// One iteration, on a fresh profile URL: a name X is fetched and cached; then k cache misses for other names of the SAME
// profile are in flight together, the upstream answers all of them at the same moment, ONE response stamped with an
// X-Conf-Last-Modified later than X's entry (the profile's configuration changed), the others with older stamps (answers
// produced before the change, a lagging server); when they have all returned X is asked again.  In every sequential order
// of the k responses the newest stamp is the one recorded (NV.C15.lastmod_any_order), so X is stale and must be fetched
// again.  Output: stale=<iterations in which X was answered from the cache>/<iters>.

type lmRT struct {
	bar   *barrier
	stamp map[string]string // question name -> X-Conf-Last-Modified ("" = none)
	calls int64
}

func (t *lmRT) RoundTrip(req *http.Request) (*http.Response, error) {
	body, _ := io.ReadAll(req.Body)
	atomic.AddInt64(&t.calls, 1)
	q, err := query.New(append([]byte{}, body...), loopback, loopback)
	if err != nil {
		return nil, err
	}
	h := http.Header{}
	st := t.stamp[q.Name]
	if st != "" {
		h.Set("X-Conf-Last-Modified", st)
		t.bar.arrive()
	}
	resp := lmAnswer(body)
	return &http.Response{StatusCode: 200, Proto: "HTTP/2.0", Header: h, Body: io.NopCloser(strings.NewReader(string(resp)))}, nil
}

// lmAnswer: the query with QR set and one A record of TTL 300
func lmAnswer(q []byte) []byte {
	r := append([]byte{}, q...)
	r[2] |= 0x80
	r[6], r[7] = 0, 1
	r[10], r[11] = 0, 0
	// cut anything after the question (the queries here have no additional section)
	return append(r, 0xc0, 0x0c, 0, 1, 0, 1, 0, 0, 1, 0x2c, 0, 4, 192, 0, 2, 1)
}

func lmQuery(id int, name string) query.Query {
	p := append(be16(id), 0x01, 0x00, 0, 1, 0, 0, 0, 0, 0, 0)
	p = append(p, wireName(name, "lm", "test")...)
	p = append(p, 0, 1, 0, 1)
	q, err := query.New(p, loopback, loopback)
	if err != nil {
		panic(err)
	}
	return q
}

func runLMRace(k, iters int) string {
	stale, broken := 0, 0
	for it := 0; it < iters; it++ {
		dns := &resolver.DNS{}
		cache := &mapCache{m: map[interface{}]interface{}{}}
		dns.DOH.Cache = cache
		prof := "p" + strconv.Itoa(it)
		dns.DOH.GetProfileURL = func(query.Query) (string, string) { return cacheProfilePrefix + prof, prof }
		now := time.Now()
		rt := &lmRT{bar: &barrier{n: k, ch: make(chan struct{})}, stamp: map[string]string{}}
		newer := now.Add(time.Hour).UTC().Format(http.TimeFormat)
		for j := 0; j < k; j++ {
			st := now.Add(-time.Hour - time.Duration(j)*time.Minute).UTC().Format(http.TimeFormat)
			if j == it%k {
				st = newer
			}
			rt.stamp[fmt.Sprintf("m%d.lm.test.", j)] = st
		}
		buf := make([]byte, 512)
		if _, i, err := dns.VerifCacheDOH(context.Background(), lmQuery(1, "x"), buf, rt); err != nil || i.FromCache {
			broken++
			continue
		}
		var wg sync.WaitGroup
		for j := 0; j < k; j++ {
			wg.Add(1)
			go func(j int) {
				defer wg.Done()
				b := make([]byte, 512)
				_, _, _ = dns.VerifCacheDOH(context.Background(), lmQuery(10+j, "m"+strconv.Itoa(j)), b, rt)
			}(j)
		}
		wg.Wait()
		before := atomic.LoadInt64(&rt.calls)
		_, i, err := dns.VerifCacheDOH(context.Background(), lmQuery(2, "x"), buf, rt)
		if err != nil {
			broken++
			continue
		}
		if i.FromCache || atomic.LoadInt64(&rt.calls) == before {
			stale++
		}
	}
	if broken > 0 {
		return fmt.Sprintf("ERR %d iterations did not complete", broken)
	}
	return fmt.Sprintf("stale=%d/%d", stale, iters)
}

func init() {
	areas["lmrace"] = func(c *Ctx) error {
		run := func(l string) {
			f := strings.Fields(l)
			if len(f) != 3 || f[0] != "lmrace" {
				c.Emit(l, "bad-op")
				return
			}
			k, _ := strconv.Atoi(f[1])
			n, _ := strconv.Atoi(f[2])
			if k < 2 || k > 16 || n < 1 || n > 1000000 {
				c.Emit(l, "bad-op")
				return
			}
			c.Stat("k:" + f[1])
			c.Emit(l, runLMRace(k, n))
		}
		if ls := replayLines(); ls != nil {
			for _, l := range ls {
				run(l)
			}
			return nil
		}
		r := NewRng(c.seed)
		for i := 0; i < c.n; i++ {
			run(fmt.Sprintf("lmrace %d %d", 2+r.Intn(3), 20000))
		}
		return nil
	}
}
