package main

import (
	"bufio"
	"bytes"
	"fmt"
	"io"
	"net"
	"os"
	"os/exec"
	"path/filepath"
	"sort"
	"strconv"
	"strings"
	"time"

	"github.com/nextdns/nextdns/config"
	"github.com/nextdns/nextdns/resolver"
)

// config area (C17): the REAL config.Config.Parse / Save / Parse runs on generated command lines
// and configuration files.  Parse ends the process (flag.ExitOnError, os.Exit(2) on a failing
// LoadConfig), so the real code runs in a worker child of this binary (`nvh cfgworker`), which is
// re-spawned whenever it exits; a stage during which the worker exits is reported as EXIT.
//
// case line (see lean/NV/Driver/Config.lean):
//   cfg D=… C=… K=… R=… Q=… N=… F=… A=…
// The tables D, C, K, R, Q are what the model is told about external functions (time.ParseDuration,
// Duration.String, net.ParseCIDR/ParseMAC/InterfaceByName, IPNet.Contains, resolver.New); they are
// recomputed by this harness from the texts in F and A on every run, also on replay, so corpus files
// stay valid on a machine with other interfaces.

// ---------------------------------------------------------------------------- worker

func init() {
	if len(os.Args) > 1 && os.Args[1] == "cfgworker" {
		cfgWorker()
		os.Exit(0)
	}
}

var cfgScalars = []string{"debug", "control", "log-queries", "cache-size", "cache-max-age", "max-ttl",
	"report-client-info", "discovery-dns", "mdns", "detect-captive-portals", "bogus-priv", "use-hosts",
	"timeout", "max-inflight-requests", "setup-router", "auto-activate"}

func b01(b bool) string {
	if b {
		return "1"
	}
	return "0"
}

func hs(s string) string { return hx([]byte(s)) }

func joinOrDot(l []string, sep string) string {
	if len(l) == 0 {
		return "."
	}
	return strings.Join(l, sep)
}

func splitList(s, sep string) []string {
	if s == "." {
		return nil
	}
	return strings.Split(s, sep)
}

func profileDump(ps config.Profiles) []string {
	var out []string
	for _, p := range config.VerifProfiles(ps) {
		var k string
		switch {
		case p.MAC != "":
			k = "M" + hs(p.MAC)
		case p.Prefix != "":
			k = "P" + hs(p.Prefix)
		case p.HasDest || p.Iface != "":
			var ips []string
			for _, ip := range p.DestIPs {
				ips = append(ips, hs(ip))
			}
			k = "I" + hs(p.Iface) + "/" + joinOrDot(ips, "+")
		default:
			k = "N"
		}
		out = append(out, k+"~"+hs(p.ID))
	}
	return out
}

type cfgProbe struct {
	src, dst net.IP
	mac      net.HardwareAddr
}

func parseProbe(desc string) cfgProbe {
	f := strings.Split(desc, "/")
	var p cfgProbe
	if len(f) != 3 {
		return p
	}
	if f[0] != "-" {
		p.src = net.ParseIP(f[0])
	}
	if f[1] != "-" {
		p.dst = net.ParseIP(f[1])
	}
	if f[2] != "-" {
		p.mac, _ = net.ParseMAC(f[2])
	}
	return p
}

// cfgObserve prints the effective configuration of c in the canonical form of the Lean driver.
func cfgObserve(c *config.Config, probes []cfgProbe, names []string) string {
	sc := []string{
		"debug=" + b01(c.Debug), "control=" + hs(c.Control), "log-queries=" + b01(c.LogQueries),
		"cache-size=" + hs(c.CacheSize), "cache-max-age=" + strconv.FormatInt(int64(c.CacheMaxAge), 10),
		"max-ttl=" + strconv.FormatInt(int64(c.MaxTTL), 10), "report-client-info=" + b01(c.ReportClientInfo),
		"discovery-dns=" + hs(c.DiscoveryDNS), "mdns=" + hs(c.MDNS),
		"detect-captive-portals=" + b01(c.DetectCaptivePortals), "bogus-priv=" + b01(c.BogusPriv),
		"use-hosts=" + b01(c.UseHosts), "timeout=" + strconv.FormatInt(int64(c.Timeout), 10),
		"max-inflight-requests=" + strconv.FormatUint(uint64(c.MaxInflightRequests), 10),
		"setup-router=" + b01(c.SetupRouter), "auto-activate=" + b01(c.AutoActivate)}
	var li []string
	for _, l := range c.Listens {
		li = append(li, hs(l))
	}
	var fw []string
	doms, addrs := config.VerifForwarders(c.Forwarders)
	for i := range doms {
		fw = append(fw, hs(doms[i])+"~"+hs(addrs[i]))
	}
	var pg []string
	for _, p := range probes {
		pg = append(pg, hs(c.Profile.Get(p.src, p.dst, p.mac)))
	}
	var fg []string
	for _, n := range names {
		r := c.Forwarders.Get(n)
		s := "none"
		if r != nil {
			s = "?"
			for i := range c.Forwarders {
				if c.Forwarders[i].Resolver == r {
					s = hs(addrs[i])
					break
				}
			}
		}
		fg = append(fg, s)
	}
	return "sc:" + strings.Join(sc, ",") + ";li:" + joinOrDot(li, ",") + ";cd:" + joinOrDot(profileDump(c.ConfigDeprecated), ",") +
		";pr:" + joinOrDot(profileDump(c.Profile), ",") + ";fw:" + joinOrDot(fw, ",") +
		";pg:" + joinOrDot(pg, ",") + ";fg:" + joinOrDot(fg, ",")
}

// cfgWorker: one request per line  `path \t save \t argv \t probes \t names`; one answer per line.
func cfgWorker() {
	in := bufio.NewReaderSize(os.Stdin, 1<<20)
	out := bufio.NewWriter(os.Stdout)
	for {
		line, err := in.ReadString('\n')
		if err != nil {
			return
		}
		f := strings.Split(strings.TrimRight(line, "\n"), "\t")
		if len(f) != 5 {
			fmt.Fprintln(out, "BADREQ")
			out.Flush()
			continue
		}
		args := []string{"-config-file", f[0]}
		for _, a := range splitList(f[2], ",") {
			args = append(args, string(unhx(a)))
		}
		var probes []cfgProbe
		for _, p := range splitList(f[3], ";") {
			probes = append(probes, parseProbe(string(unhx(p))))
		}
		var names []string
		for _, n := range splitList(f[4], ";") {
			names = append(names, string(unhx(n)))
		}
		res := func() (res string) {
			defer func() {
				if x := recover(); x != nil {
					res = fmt.Sprintf("PANIC %v", x)
				}
			}()
			var c config.Config
			c.Parse("nextdns config set", args, true) // may exit the process
			o := cfgObserve(&c, probes, names)
			if f[1] == "1" {
				if err := c.Save(); err != nil {
					return "SAVE-ERROR " + strings.ReplaceAll(err.Error(), "\n", " ")
				}
			}
			return o
		}()
		fmt.Fprintln(out, res)
		out.Flush()
	}
}

type cfgWorkerProc struct {
	cmd   *exec.Cmd
	in    io.WriteCloser
	out   *bufio.Reader
	spawn int
}

func (w *cfgWorkerProc) start() error {
	exe, err := os.Executable()
	if err != nil {
		return err
	}
	w.cmd = exec.Command(exe, "cfgworker")
	w.cmd.Stderr = nil // usage texts of flag.ExitOnError are discarded
	if w.in, err = w.cmd.StdinPipe(); err != nil {
		return err
	}
	so, err := w.cmd.StdoutPipe()
	if err != nil {
		return err
	}
	w.out = bufio.NewReaderSize(so, 1<<20)
	w.spawn++
	return w.cmd.Start()
}

func (w *cfgWorkerProc) stop() {
	if w.cmd != nil {
		w.in.Close()
		_ = w.cmd.Wait()
		w.cmd = nil
	}
}

// call runs one Parse (+Save) in the worker; "EXIT" when the worker process ended instead of answering.
func (w *cfgWorkerProc) call(path string, save bool, argv []string, probes, names string) string {
	if w.cmd == nil {
		if err := w.start(); err != nil {
			return "WORKER-ERROR " + err.Error()
		}
	}
	var hv []string
	for _, a := range argv {
		hv = append(hv, hs(a))
	}
	s := "0"
	if save {
		s = "1"
	}
	fmt.Fprintf(w.in, "%s\t%s\t%s\t%s\t%s\n", path, s, joinOrDot(hv, ","), probes, names)
	type rd struct {
		line string
		err  error
	}
	ch := make(chan rd, 1)
	go func() {
		l, err := w.out.ReadString('\n')
		ch <- rd{l, err}
	}()
	select {
	case r := <-ch:
		if r.err != nil {
			_ = w.cmd.Wait()
			code := w.cmd.ProcessState.ExitCode()
			w.cmd = nil
			if code == 2 {
				return "EXIT"
			}
			return fmt.Sprintf("EXIT-%d", code)
		}
		return strings.TrimRight(r.line, "\n")
	case <-time.After(20 * time.Second):
		_ = w.cmd.Process.Kill()
		_ = w.cmd.Wait()
		w.cmd = nil
		return "TIMEOUT"
	}
}

// ---------------------------------------------------------------------------- case structure

type cfgArg struct {
	form  string // s S e E b B
	name  string
	value string
}

func (a cfgArg) argv() []string {
	d := "-"
	if a.form == "S" || a.form == "E" || a.form == "B" {
		d = "--"
	}
	switch a.form {
	case "s", "S":
		return []string{d + a.name, a.value}
	case "e", "E":
		return []string{d + a.name + "=" + a.value}
	}
	return []string{d + a.name}
}

type cfgCase struct {
	file []string
	args []cfgArg
}

var cfgKinds = map[string]string{"debug": "bool", "listen": "strings", "control": "string", "config": "profiles",
	"profile": "profiles", "forwarder": "forwarders", "log-queries": "bool", "cache-size": "string",
	"cache-max-age": "duration", "max-ttl": "duration", "report-client-info": "bool", "discovery-dns": "string",
	"mdns": "string", "detect-captive-portals": "bool", "hardened-privacy": "bool", "bogus-priv": "bool",
	"use-hosts": "bool", "timeout": "duration", "max-inflight-requests": "uint", "setup-router": "bool",
	"auto-activate": "bool"}

// splitLine mirrors the line handling of LoadConfig (independent reading, used only to find the
// texts the tables must cover).
func splitLine(raw string) (name, value string, ok bool) {
	line := strings.TrimSpace(raw)
	if line == "" || strings.HasPrefix(line, "#") {
		return "", "", false
	}
	name = line
	if i := strings.IndexByte(line, ' '); i != -1 {
		name = line[:i]
		value = strings.TrimSpace(line[i+1:])
	}
	return name, value, true
}

// cfgTables computes the D/C/K/R/Q/N sections for a case.
type cfgTables struct {
	durs   []string
	durIdx map[string]bool
	conds  []string // K entries
	ckeys  []cfgCond
	ctexts []string
	ctIdx  map[string]bool
	addrs  []string
	adIdx  map[string]bool
	doms   []string
}

type cfgCond struct {
	kind  byte
	ipnet *net.IPNet
	mac   net.HardwareAddr
	name  string
	ips   []net.IP
	entry string
}

func (t *cfgTables) addDur(s string) {
	for depth := 0; depth < 4; depth++ {
		if t.durIdx[s] {
			return
		}
		t.durIdx[s] = true
		d, err := time.ParseDuration(s)
		if err != nil {
			t.durs = append(t.durs, hs(s)+":E")
			return
		}
		c := d.String()
		t.durs = append(t.durs, fmt.Sprintf("%s:%d:%s", hs(s), int64(d), hs(c)))
		s = c
	}
}

func classifyCond(s string) (cfgCond, bool) {
	if _, ipnet, err := net.ParseCIDR(s); err == nil {
		k := ipnet.String()
		return cfgCond{kind: 'P', ipnet: ipnet, entry: "P:" + hs(k), name: k}, true
	}
	if mac, err := net.ParseMAC(s); err == nil {
		k := mac.String()
		return cfgCond{kind: 'M', mac: mac, entry: "M:" + hs(k), name: k}, true
	}
	if iface, _ := net.InterfaceByName(s); iface != nil {
		c := cfgCond{kind: 'I', name: s}
		addrs, _ := iface.Addrs()
		var ips []string
		for _, a := range addrs {
			if n, ok := a.(*net.IPNet); ok {
				c.ips = append(c.ips, n.IP)
				ips = append(ips, hs(n.IP.String()))
			}
		}
		c.entry = "I:" + hs(s) + ":" + joinOrDot(ips, "+")
		return c, true
	}
	return cfgCond{}, false
}

func (t *cfgTables) addCond(s string) {
	for depth := 0; depth < 4; depth++ {
		if t.ctIdx[s] {
			return
		}
		t.ctIdx[s] = true
		c, ok := classifyCond(s)
		if !ok {
			t.ctexts = append(t.ctexts, hs(s)+":E")
			return
		}
		idx := -1
		for i, e := range t.conds {
			if e == c.entry {
				idx = i
			}
		}
		if idx == -1 {
			idx = len(t.conds)
			t.conds = append(t.conds, c.entry)
			t.ckeys = append(t.ckeys, c)
		}
		t.ctexts = append(t.ctexts, fmt.Sprintf("%s:%d", hs(s), idx))
		s = c.name // canonical text printed by String(): must classify to the same condition
	}
}

func (t *cfgTables) addValue(kind, v string) {
	switch kind {
	case "duration":
		t.addDur(v)
	case "profiles":
		if i := strings.IndexByte(v, '='); i != -1 {
			t.addCond(strings.TrimSpace(v[:i]))
		}
	case "forwarders":
		addr := v
		if i := strings.IndexByte(v, '='); i != -1 {
			addr = strings.TrimSpace(v[i+1:])
			d := strings.TrimSpace(v[:i])
			if !strings.HasSuffix(d, ".") {
				d += "."
			}
			t.doms = append(t.doms, d)
		}
		if !t.adIdx[addr] {
			t.adIdx[addr] = true
			_, err := resolver.New(addr)
			ok := "1"
			if err != nil {
				ok = "0"
			}
			t.addrs = append(t.addrs, hs(addr)+":"+ok)
		}
	}
}

func cfgBuildTables(cs cfgCase) *cfgTables {
	t := &cfgTables{durIdx: map[string]bool{}, ctIdx: map[string]bool{}, adIdx: map[string]bool{}}
	t.addDur("0s")
	t.addDur("5s")
	for _, raw := range cs.file {
		if n, v, ok := splitLine(raw); ok {
			t.addValue(cfgKinds[n], v)
		}
	}
	for _, a := range cs.args {
		t.addValue(cfgKinds[a.name], a.value)
	}
	return t
}

// cfgProbes derives the client probes (deterministically from the tables and r) and which
// conditions each one matches, computed with the standard library only.
func (t *cfgTables) probes(r *Rng) (descs []string, q []string) {
	srcs := []net.IP{net.ParseIP("203.0.113.7"), net.ParseIP("2001:db8:ffff::1"), nil}
	dsts := []net.IP{net.ParseIP("198.51.100.1"), nil}
	macs := []net.HardwareAddr{{2, 0, 0, 0, 0, 1}, nil}
	for _, c := range t.ckeys {
		switch c.kind {
		case 'P':
			ip := append(net.IP{}, c.ipnet.IP...)
			for i := range ip {
				ip[i] |= ^c.ipnet.Mask[i] & byte(r.U64())
			}
			srcs = append(srcs, ip)
		case 'M':
			macs = append(macs, c.mac)
		case 'I':
			dsts = append(dsts, c.ips...)
		}
	}
	n := 4 + len(t.ckeys)*2
	if n > 12 {
		n = 12
	}
	for i := 0; i < n; i++ {
		p := cfgProbe{src: srcs[r.Intn(len(srcs))], dst: dsts[r.Intn(len(dsts))], mac: macs[r.Intn(len(macs))]}
		// make sure every condition is hit by some probe
		if i < len(t.ckeys) {
			switch c := t.ckeys[i]; c.kind {
			case 'P':
				p.src = srcs[3+countKind(t.ckeys[:i], 'P')]
			case 'M':
				p.mac = c.mac
			case 'I':
				if len(c.ips) > 0 {
					p.dst = c.ips[r.Intn(len(c.ips))]
				}
			}
		}
		var m []string
		for k, c := range t.ckeys {
			hit := false
			switch c.kind {
			case 'P':
				hit = p.src != nil && c.ipnet.Contains(p.src)
			case 'M':
				hit = len(p.mac) > 0 && bytes.Equal(c.mac, p.mac)
			case 'I':
				if len(c.ips) == 0 {
					hit = true
				} else if p.dst != nil {
					for _, ip := range c.ips {
						if ip.Equal(p.dst) {
							hit = true
						}
					}
				}
			}
			if hit {
				m = append(m, strconv.Itoa(k))
			}
		}
		s, d, mc := "-", "-", "-"
		if p.src != nil {
			s = p.src.String()
		}
		if p.dst != nil {
			d = p.dst.String()
		}
		if p.mac != nil {
			mc = p.mac.String()
		}
		desc := s + "/" + d + "/" + mc
		descs = append(descs, hs(desc))
		q = append(q, hs(desc)+":"+joinOrDot(m, ","))
	}
	return
}

func countKind(cs []cfgCond, k byte) int {
	n := 0
	for _, c := range cs {
		if c.kind == k {
			n++
		}
	}
	return n
}

func (t *cfgTables) names() []string {
	ns := []string{"example.org.", "www.example.org."}
	seen := map[string]bool{}
	for _, d := range t.doms {
		if seen[d] || len(ns) > 10 {
			continue
		}
		seen[d] = true
		ns = append(ns, d, "host."+d, "not"+d)
	}
	var out []string
	for _, n := range ns {
		out = append(out, hs(n))
	}
	return out
}

func cfgCaseLine(cs cfgCase, t *cfgTables, q []string, names []string) string {
	var fl, al []string
	for _, l := range cs.file {
		fl = append(fl, hs(l))
	}
	for _, a := range cs.args {
		al = append(al, a.form+":"+a.name+":"+hs(a.value))
	}
	return "cfg D=" + joinOrDot(t.durs, ";") + " C=" + joinOrDot(t.ctexts, ";") + " K=" + joinOrDot(t.conds, ";") +
		" R=" + joinOrDot(t.addrs, ";") + " Q=" + joinOrDot(q, ";") + " N=" + joinOrDot(names, ";") +
		" F=" + joinOrDot(fl, ";") + " A=" + joinOrDot(al, ";")
}

func cfgParseCaseLine(l string) (cfgCase, bool) {
	var cs cfgCase
	f := strings.Split(l, " ")
	if len(f) != 9 || f[0] != "cfg" {
		return cs, false
	}
	for _, tok := range f[1:] {
		switch {
		case strings.HasPrefix(tok, "F="):
			for _, h := range splitList(tok[2:], ";") {
				cs.file = append(cs.file, string(unhx(h)))
			}
		case strings.HasPrefix(tok, "A="):
			for _, e := range splitList(tok[2:], ";") {
				p := strings.Split(e, ":")
				if len(p) != 3 {
					return cs, false
				}
				cs.args = append(cs.args, cfgArg{form: p[0], name: p[1], value: string(unhx(p[2]))})
			}
		}
	}
	return cs, true
}

// ---------------------------------------------------------------------------- running one case

type cfgRunner struct {
	w    cfgWorkerProc
	dir  string
	path string
}

func readLines(path string) []string {
	b, err := os.ReadFile(path)
	if err != nil {
		return nil
	}
	ls := strings.Split(string(b), "\n")
	if len(ls) > 0 && ls[len(ls)-1] == "" {
		ls = ls[:len(ls)-1]
	}
	return ls
}

func lineName(l string) string {
	if i := strings.IndexByte(l, ' '); i != -1 {
		return l[:i]
	}
	return l
}

// run executes the stages of one case on the real code; saved = lines of the file after Save (disk order).
func (x *cfgRunner) run(cs cfgCase, r *Rng) (caseLine, implLine string, saved []string) {
	t := cfgBuildTables(cs)
	descs, q := t.probes(r)
	names := t.names()
	caseLine = cfgCaseLine(cs, t, q, names)
	pd, nd := joinOrDot(descs, ";"), joinOrDot(names, ";")
	write := func() {
		if len(cs.file) == 0 {
			_ = os.Remove(x.path)
			return
		}
		_ = os.MkdirAll(filepath.Dir(x.path), 0755)
		_ = os.WriteFile(x.path, []byte(strings.Join(cs.file, "\n")+"\n"), 0644)
	}
	write()
	o0 := x.w.call(x.path, false, nil, pd, nd)
	write()
	var argv []string
	for _, a := range cs.args {
		argv = append(argv, a.argv()...)
	}
	o1 := x.w.call(x.path, true, argv, pd, nd)
	if o1 == "EXIT" {
		return caseLine, o0 + " | EXIT | - | -", nil
	}
	saved = readLines(x.path)
	sorted := append([]string{}, saved...)
	sort.SliceStable(sorted, func(i, j int) bool { return lineName(sorted[i]) < lineName(sorted[j]) })
	var fl []string
	for _, l := range sorted {
		fl = append(fl, hs(l))
	}
	o2 := x.w.call(x.path, false, nil, pd, nd)
	return caseLine, o0 + " | " + o1 + " | fl:" + joinOrDot(fl, ",") + " | " + o2, saved
}

// ---------------------------------------------------------------------------- generator

func (r *Rng) pickS(xs []string) string { return xs[r.Intn(len(xs))] }

var cfgIDs = []string{"abc123", "def456", "a1b2c3", "fedcba", "p", "id with space", "", "x=y", "#tag"}
var cfgV4 = []string{"10.0.0.0/8", "10.0.3.0/24", "192.168.1.77/24", "10.0.3.1/32", "0.0.0.0/0", "172.16.0.0/12", "10.0.0.0/8"}
var cfgV6 = []string{"2001:0DB8::/64", "2001:db8::/32", "fd00::1/8", "::/0", "::ffff:10.0.0.0/104", "FE80::/10"}
var cfgMACs = []string{"00:1c:42:2e:60:4a", "00:1C:42:2E:60:4A", "00-1c-42-2e-60-4b", "001c.422e.604c", "02:00:5e:10:00:00:00:01", "00:1c:42:2e:60:4a"}
var cfgBadConds = []string{"nosuchif0", "10.0.0.0/33", "00:1c:42", "", "1.2.3.4"}

func (r *Rng) cfgIfaces() []string {
	ifs, _ := net.Interfaces()
	var ns []string
	for _, i := range ifs {
		ns = append(ns, i.Name)
	}
	if len(ns) == 0 {
		ns = []string{"lo"}
	}
	return ns
}

func (r *Rng) cfgProfile(c *Ctx, ifaces []string) string {
	id := r.pickS(cfgIDs)
	var cond string
	switch k := r.Intn(100); {
	case k < 22:
		c.Stat("cond:none")
		if strings.Contains(id, "=") {
			id = "plain"
		}
		return id
	case k < 40:
		c.Stat("cond:cidr4")
		cond = r.pickS(cfgV4)
	case k < 52:
		c.Stat("cond:cidr6")
		cond = r.pickS(cfgV6)
	case k < 70:
		c.Stat("cond:mac")
		cond = r.pickS(cfgMACs)
	case k < 94:
		c.Stat("cond:iface")
		if r.Chance(50) {
			cond = "lo"
		} else {
			cond = r.pickS(ifaces)
		}
	default:
		c.Stat("cond:invalid")
		cond = r.pickS(cfgBadConds)
	}
	if r.Chance(8) {
		c.Stat("cond:spaces-around-eq")
		return cond + " = " + id
	}
	return cond + "=" + id
}

var cfgAddrs = []string{"1.1.1.1", "1.1.1.1:5353", "192.168.0.1", "1.1.1.1,8.8.8.8", "1.1.1.1, 8.8.4.4", "[2606:4700::1111]:53",
	"https://dns.example/dns-query", "https://doh.example/q#1.2.3.4", "https://x.example/?a=b", "2606:4700::1111"}
var cfgBadAddrs = []string{"notanip", "", "dns.example", "1.1.1.1,,8.8.8.8"}
var cfgDomains = []string{"corp", "corp.", "lan.", "internal.example.com", "a.b", "corp", "with space", ".",
	// the same domains in other letter case: separate rules for the matcher (first one wins), separate lines in the file
	"Corp", "CORP.", "Internal.Example.COM", "LAN."}

func (r *Rng) cfgForwarder(c *Ctx) string {
	addr := r.pickS(cfgAddrs)
	if r.Chance(3) {
		// a LONG value (the stored line is several kB, below the 64 KiB a line reader may refuse): a fail-over list of
		// a few hundred servers, or a DoH URL with a long path
		c.Stat("fwd:long-value")
		if r.Bool() {
			n := 300 + r.Intn(1500)
			parts := make([]string, n)
			for i := range parts {
				parts[i] = fmt.Sprintf("10.%d.%d.%d", i/65536, (i/256)%256, i%256)
			}
			addr = strings.Join(parts, ",")
		} else {
			addr = "https://doh.example/" + strings.Repeat("p", 4000+r.Intn(3000)) + "#1.2.3.4"
		}
	} else if r.Chance(6) {
		c.Stat("fwd:bad-addr")
		addr = r.pickS(cfgBadAddrs)
	}
	if r.Chance(35) {
		c.Stat("fwd:no-domain")
		return addr
	}
	c.Stat("fwd:domain")
	if r.Chance(8) {
		return r.pickS(cfgDomains) + " = " + addr
	}
	return r.pickS(cfgDomains) + "=" + addr
}

var cfgStrings = []string{"", "all", "disabled", "eth0", "/var/run/nextdns.sock", "/tmp/x y.sock", "0", "10MB", "4kB", "192.168.1.1",
	"a=b", "#hash", "-config", "-profile", "--", "true", "x  y"}
var cfgDurs = []string{"0", "0s", "1h", "90s", "1.5h", "1h30m", "100ms", "1us", "1ns", "-1s", "5s", "2h45m30.5s", "1m0s",
	"9223372036s", "+3m", ".5s", "1µs", "300ms"}
var cfgBadDurs = []string{"5", "abc", "", "1d", "1 h", "9223372037s"}
var cfgUints = []string{"0", "1", "256", "1000", "65535", "65536", "70000", "4294967295", "4294967296", "18446744073709551615"}
var cfgBadUints = []string{"-1", "abc", "", "18446744073709551616", "1.5", "+5"}
var cfgListens = []string{":53", "localhost:53", "localhost:5353", "127.0.0.1:53", "[::1]:53", ":5353", "192.168.1.1:53"}
var cfgBoolsFlag = []string{"1", "t", "T", "TRUE", "true", "True", "0", "f", "F", "FALSE", "false", "False"}
var cfgBoolsBad = []string{"yes", "no", "", "2", "tRuE"}
var cfgBoolsFile = []string{"yes", "true", "1", "no", "false", "0", ""}
var cfgBoolsFileBad = []string{"t", "True", "TRUE", "on", "2"}

var cfgBoolOpts = []string{"debug", "log-queries", "report-client-info", "detect-captive-portals", "hardened-privacy", "bogus-priv",
	"use-hosts", "setup-router", "auto-activate"}
var cfgStringOpts = []string{"control", "cache-size", "discovery-dns", "mdns"}
var cfgDurOpts = []string{"cache-max-age", "max-ttl", "timeout"}

// cfgValue draws (name, value) for one option; file selects the storage side's spellings.
func (r *Rng) cfgValue(c *Ctx, ifaces []string, file bool) (string, string) {
	switch k := r.Intn(100); {
	case k < 14:
		c.Stat("opt:bool")
		n := r.pickS(cfgBoolOpts)
		if file {
			if r.Chance(6) {
				c.Stat("val:bad-bool")
				return n, r.pickS(cfgBoolsFileBad)
			}
			return n, r.pickS(cfgBoolsFile)
		}
		if r.Chance(6) {
			c.Stat("val:bad-bool")
			return n, r.pickS(cfgBoolsBad)
		}
		return n, r.pickS(cfgBoolsFlag)
	case k < 24:
		c.Stat("opt:string")
		v := r.pickS(cfgStrings)
		if r.Chance(5) {
			c.Stat("val:outside-domain-whitespace")
			v = r.pickS([]string{" lead", "trail ", "\ttab", "trail\t", " "})
		}
		return r.pickS(cfgStringOpts), v
	case k < 34:
		c.Stat("opt:duration")
		if r.Chance(8) {
			c.Stat("val:bad-duration")
			return r.pickS(cfgDurOpts), r.pickS(cfgBadDurs)
		}
		return r.pickS(cfgDurOpts), r.pickS(cfgDurs)
	case k < 46:
		c.Stat("opt:uint")
		if r.Chance(8) {
			c.Stat("val:bad-uint")
			return "max-inflight-requests", r.pickS(cfgBadUints)
		}
		v := r.pickS(cfgUints)
		if r.Chance(15) {
			v = strconv.FormatUint(r.U64()>>uint(r.Intn(64)), 10)
		}
		if file && r.Chance(10) {
			v = "00" + v
		}
		c.Stat("val:uint-" + uintClass(v))
		return "max-inflight-requests", v
	case k < 56:
		c.Stat("opt:listen")
		return "listen", r.pickS(cfgListens)
	case k < 80:
		c.Stat("opt:profile")
		return "profile", r.cfgProfile(c, ifaces)
	case k < 84:
		c.Stat("opt:config-deprecated")
		return "config", r.cfgProfile(c, ifaces)
	case k < 98:
		c.Stat("opt:forwarder")
		return "forwarder", r.cfgForwarder(c)
	default:
		c.Stat("opt:unknown")
		return "no-such-option", "x"
	}
}

func uintClass(v string) string {
	n, err := strconv.ParseUint(v, 10, 64)
	switch {
	case err != nil:
		return "invalid"
	case n < 65536:
		return "le65535"
	case n < 1<<32:
		return "le2^32"
	}
	return "gt2^32"
}

func (r *Rng) cfgArgs(c *Ctx, ifaces []string) []cfgArg {
	n := r.Pick([]int{0, 1, 1, 1, 2, 2, 3, 4, 6, 9})
	var as []cfgArg
	for i := 0; i < n; i++ {
		name, v := r.cfgValue(c, ifaces, false)
		a := cfgArg{name: name, value: v}
		if cfgKinds[name] == "bool" {
			switch k := r.Intn(100); {
			case k < 45:
				a.form, a.value = "b", ""
			case k < 50:
				a.form, a.value = "B", ""
			case k < 90:
				a.form = "e"
			case k < 97:
				a.form = "E"
			default:
				c.Stat("arg:bool-with-separate-value")
				a.form = "s"
			}
		} else {
			a.form = []string{"s", "s", "s", "e", "e", "S", "E"}[r.Intn(7)]
		}
		as = append(as, a)
	}
	// repeated list options with the same condition / a second value for the same scalar
	if len(as) > 0 && r.Chance(20) {
		c.Stat("arg:repeat-option")
		d := as[r.Intn(len(as))]
		if cfgKinds[d.name] == "profiles" || cfgKinds[d.name] == "forwarders" {
			if i := strings.IndexByte(d.value, '='); i != -1 {
				d.value = d.value[:i+1] + "other" + strconv.Itoa(r.Intn(3))
				if cfgKinds[d.name] == "forwarders" {
					d.value = d.value[:i+1] + r.pickS(cfgAddrs)
				}
			}
			if cfgKinds[d.name] == "profiles" && r.Chance(40) {
				d.name = []string{"profile", "config"}[r.Intn(2)]
			}
		}
		as = append(as, d)
	}
	return as
}

func (r *Rng) cfgHandFile(c *Ctx, ifaces []string) []string {
	n := 1 + r.Intn(8)
	var ls []string
	for i := 0; i < n; i++ {
		switch k := r.Intn(100); {
		case k < 8:
			c.Stat("file:comment")
			ls = append(ls, r.pickS([]string{"# comment", "#profile abc", "  # indented comment", "#"}))
		case k < 14:
			c.Stat("file:blank")
			ls = append(ls, r.pickS([]string{"", "   ", "\t"}))
		case k < 19:
			c.Stat("file:name-only")
			ls = append(ls, r.pickS([]string{"debug", "profile", "discovery-dns", "control", "listen", "max-inflight-requests", "timeout", "forwarder"}))
		case k < 23:
			c.Stat("file:tab-separated")
			ls = append(ls, "debug\ttrue")
		default:
			name, v := r.cfgValue(c, ifaces, true)
			l := name + " " + v
			if r.Chance(12) {
				c.Stat("file:extra-whitespace")
				l = r.pickS([]string{" ", "\t", "  "}) + name + r.pickS([]string{"  ", " \t", "   "}) + v + r.pickS([]string{" ", "\t", "\r"})
			}
			ls = append(ls, l)
		}
	}
	return ls
}

// blockShuffle re-orders a saved file option by option with the seeded generator: the order on disk
// is Go's map order (different on every run); the next case of a history must not depend on it.
func blockShuffle(saved []string, r *Rng) []string {
	byName := map[string][]string{}
	var names []string
	for _, l := range saved {
		n := lineName(l)
		if _, ok := byName[n]; !ok {
			names = append(names, n)
		}
		byName[n] = append(byName[n], l)
	}
	sort.Strings(names)
	for i := len(names) - 1; i > 0; i-- {
		j := r.Intn(i + 1)
		names[i], names[j] = names[j], names[i]
	}
	var out []string
	for _, n := range names {
		out = append(out, byName[n]...)
	}
	return out
}

func init() {
	areas["config"] = func(c *Ctx) error {
		dir, err := os.MkdirTemp("", "nvcfg")
		if err != nil {
			return err
		}
		defer os.RemoveAll(dir)
		x := &cfgRunner{dir: dir, path: filepath.Join(dir, "sub", "nextdns.conf")}
		defer x.w.stop()
		exits := 0
		emit := func(cs cfgCase, pr *Rng) []string {
			cl, il, saved := x.run(cs, pr)
			c.Emit(cl, il)
			if strings.Contains(il, "EXIT") {
				exits++
				c.Stat("impl:some-stage-exits")
			} else {
				c.Stat("impl:all-stages-ok")
			}
			return saved
		}
		if ls := replayLines(); ls != nil {
			for _, l := range ls {
				if cs, ok := cfgParseCaseLine(l); ok {
					emit(cs, NewRng(c.seed))
				}
			}
			c.notes["worker_spawns"] = x.w.spawn
			return nil
		}
		r := NewRng(c.seed)
		ifaces := r.cfgIfaces()
		var prev []string
		for i := 0; i < c.n; i++ {
			var cs cfgCase
			switch k := r.Intn(100); {
			case k < 35 && prev != nil:
				c.Stat("file:previous-save")
				cs.file = prev
			case k < 60:
				c.Stat("file:hand-written")
				cs.file = r.cfgHandFile(c, ifaces)
			default:
				c.Stat("file:none")
			}
			cs.args = r.cfgArgs(c, ifaces)
			c.Stat(fmt.Sprintf("args:%d", len(cs.args)))
			saved := emit(cs, r)
			if saved != nil {
				prev = blockShuffle(saved, r)
			}
		}
		c.notes["worker_spawns"] = x.w.spawn
		c.notes["cases_with_exit"] = exits
		return nil
	}
}
