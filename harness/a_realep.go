package main

import (
	"context"
	"encoding/pem"
	"fmt"
	"io"
	"net"
	"net/http"
	"net/http/httptest"
	"os"
	"path/filepath"
	"strings"
	"sync"
	"time"

	"github.com/nextdns/nextdns/resolver"
	"github.com/nextdns/nextdns/resolver/query"
)

// realep area (C08, C10, C11): the endpoint stack as configuration strings build it, with NOTHING replaced:
// resolver.New("https://example.com/<path>#<bootstrap address>,…") -> endpoint.New -> Manager with its DEFAULT probe
// (endpointTester -> Exchange) -> DOHEndpoint.RoundTrip -> newTransport -> the package's HTTP/2 transport -> TLS to a
// loopback server on port 443 of a loopback address of this process's own (the test certificate is made a system root
// through SSL_CERT_FILE before the first handshake).
//
//	realep <layout> <ops>
//	layout  resolvers separated by '/', the endpoints of one resolver in preference order separated by '+',
//	        an endpoint = its path without the slash, '-' = an endpoint without a path (the profile's path is kept)
//	ops     q<i>:<profile>  a query through resolver i, the profile ('-' = none) chosen for it
//	        d<path> / u<path>   the server fails / serves requests for that path (HTTP 503)
//	        k<n>            the server closes the connection under the next n requests instead of answering
//	        e<i>            an election on resolver i (Manager.Test)
//	output  per q: q=<paths of the requests the server received for it, joined by '+'>|<1 if one of them was not a query>|ok/err
//	        per e: e=<1 if a probe was not a query, else 0>

type realepReq struct {
	path  string
	qr    bool
	probe bool
}

type realepConnKey struct{}

type realepSrv struct {
	mu   sync.Mutex
	down map[string]bool
	kill int
	reqs []realepReq
	ts   *httptest.Server
	ip   string
}

func (s *realepSrv) handler(w http.ResponseWriter, r *http.Request) {
	body, _ := io.ReadAll(r.Body)
	rq := realepReq{path: r.URL.Path}
	if len(body) >= 12 {
		rq.qr = body[2]&0x80 != 0
	} else {
		rq.qr = true
	}
	// the manager's probes ask for probe-test.dns.nextdns.io
	rq.probe = strings.Contains(string(body), "probe-test")
	s.mu.Lock()
	s.reqs = append(s.reqs, rq)
	down := s.down[r.URL.Path]
	kill := false
	if s.kill > 0 && !rq.probe {
		s.kill--
		kill = true
	}
	s.mu.Unlock()
	switch {
	case kill:
		// close the connection THIS request came in on (other resolvers' connections stay)
		if c, ok := r.Context().Value(realepConnKey{}).(net.Conn); ok {
			c.Close()
		}
		return
	case down:
		w.WriteHeader(503)
	case rq.qr:
		w.WriteHeader(400)
	default:
		rep := append([]byte{}, body...)
		rep[2] |= 0x80
		rep[3] |= 0x80
		rep[6], rep[7] = 0, 1
		rep[10], rep[11] = 0, 0
		// header + question + one A record
		end := 12
		for end < len(body) && body[end] != 0 {
			end += 1 + int(body[end])
		}
		end += 5
		if end <= len(body) {
			rep = rep[:end]
		}
		rep = append(rep, 0xc0, 0x0c, 0, 1, 0, 1, 0, 0, 0, 60, 0, 4, 192, 0, 2, 1)
		_, _ = w.Write(rep)
	}
}

func startRealep(dir string) (*realepSrv, error) {
	s := &realepSrv{down: map[string]bool{}}
	s.ip = fmt.Sprintf("127.%d.%d.2", 10+os.Getpid()%200, (os.Getpid()/200)%250)
	l, err := net.Listen("tcp", s.ip+":443")
	if err != nil {
		return nil, err
	}
	ts := httptest.NewUnstartedServer(http.HandlerFunc(s.handler))
	ts.Listener.Close()
	ts.Listener = l
	ts.EnableHTTP2 = true
	ts.Config.ConnContext = func(ctx context.Context, c net.Conn) context.Context {
		return context.WithValue(ctx, realepConnKey{}, c)
	}
	ts.StartTLS()
	s.ts = ts
	pemPath := filepath.Join(dir, "realep-root.pem")
	pemBytes := pem.EncodeToMemory(&pem.Block{Type: "CERTIFICATE", Bytes: ts.Certificate().Raw})
	if err := os.WriteFile(pemPath, pemBytes, 0644); err != nil {
		return nil, err
	}
	os.Setenv("SSL_CERT_FILE", pemPath)
	os.Setenv("SSL_CERT_DIR", dir)
	return s, nil
}

func (s *realepSrv) mark() int {
	s.mu.Lock()
	defer s.mu.Unlock()
	return len(s.reqs)
}

func (s *realepSrv) since(k int) []realepReq {
	s.mu.Lock()
	defer s.mu.Unlock()
	return append([]realepReq{}, s.reqs[k:]...)
}

func runRealep(s *realepSrv, layout, ops string) string {
	s.mu.Lock()
	s.down = map[string]bool{}
	s.kill = 0
	s.mu.Unlock()
	var ress []*resolver.DNS
	for _, rs := range strings.Split(layout, "/") {
		var servers []string
		for _, e := range strings.Split(rs, "+") {
			p := "/" + e
			if e == "-" {
				p = ""
			}
			servers = append(servers, "https://example.com"+p+"#"+s.ip)
		}
		rr, err := resolver.New(strings.Join(servers, ","))
		if err != nil {
			return "bad-op"
		}
		res, ok := rr.(*resolver.DNS)
		if !ok {
			return "ERR resolver.New did not return a *resolver.DNS"
		}
		ress = append(ress, res)
	}
	var out []string
	serial := 0
	for _, op := range strings.Split(ops, ",") {
		if op == "" {
			return "bad-op"
		}
		switch op[0] {
		case 'q':
			f := strings.SplitN(op[1:], ":", 2)
			var i int
			if len(f) != 2 {
				return "bad-op"
			}
			if _, err := fmt.Sscanf(f[0], "%d", &i); err != nil || i < 0 || i >= len(ress) {
				return "bad-op"
			}
			prof := f[1]
			if prof == "-" {
				ress[i].DOH.GetProfileURL = nil
			} else {
				ress[i].DOH.GetProfileURL = func(query.Query) (string, string) { return cacheProfilePrefix + prof, prof }
			}
			serial++
			q := lmQuery(4000+serial, fmt.Sprintf("h%d", serial))
			k := s.mark()
			ctx, cancel := context.WithTimeout(context.Background(), 3*time.Second)
			buf := make([]byte, 512)
			n, _, err := ress[i].Resolve(ctx, q, buf)
			cancel()
			var paths []string
			bad := 0
			for _, r := range s.since(k) {
				if r.probe {
					continue
				}
				paths = append(paths, r.path)
				if r.qr {
					bad = 1
				}
			}
			if len(paths) == 0 {
				paths = []string{"-"}
			}
			res := "ok"
			if err != nil || n < 12 {
				res = "err"
			}
			out = append(out, fmt.Sprintf("q=%s|%d|%s", strings.Join(paths, "+"), bad, res))
		case 'd', 'u':
			s.mu.Lock()
			s.down["/"+op[1:]] = op[0] == 'd'
			s.mu.Unlock()
			out = append(out, string(op[0]))
		case 'k':
			var n int
			if _, err := fmt.Sscanf(op[1:], "%d", &n); err != nil || n < 1 || n > 5 {
				return "bad-op"
			}
			s.mu.Lock()
			s.kill = n
			s.mu.Unlock()
			out = append(out, "k")
		case 'e':
			var i int
			if _, err := fmt.Sscanf(op[1:], "%d", &i); err != nil || i < 0 || i >= len(ress) {
				return "bad-op"
			}
			k := s.mark()
			ctx, cancel := context.WithTimeout(context.Background(), 8*time.Second)
			_ = ress[i].Manager.Test(ctx)
			cancel()
			bad := 0
			for _, r := range s.since(k) {
				if r.qr {
					bad = 1
				}
			}
			out = append(out, fmt.Sprintf("e=%d", bad))
		default:
			return "bad-op"
		}
	}
	return strings.Join(out, " ")
}

func realepPerm(r *Rng, n int) []int {
	p := make([]int, n)
	for i := range p {
		p[i] = i
	}
	for i := n - 1; i > 0; i-- {
		j := r.Intn(i + 1)
		p[i], p[j] = p[j], p[i]
	}
	return p
}

func init() {
	areas["realep"] = func(c *Ctx) error {
		s, err := startRealep(c.dir)
		if err != nil {
			return err
		}
		defer s.ts.Close()
		run := func(l string) {
			c.Note(l)
			f := strings.Fields(l)
			if len(f) != 3 || f[0] != "realep" {
				c.Emit(l, "bad-op")
				return
			}
			c.Begin(l)
			c.Emit(l, runRealep(s, f[1], f[2]))
		}
		if ls := replayLines(); ls != nil {
			for _, l := range ls {
				run(l)
			}
			return nil
		}
		r := NewRng(c.seed)
		paths := []string{"a", "b", "corp", "lab", "dns-query"}
		profs := []string{"abc123", "def456", "-"}
		for i := 0; i < c.n; i++ {
			switch r.Intn(3) {
			case 0:
				// several resolvers (forwarders, the default) on ONE server, one endpoint each, with different paths or none:
				// every request must reach the path of the upstream chosen for it, also right after a closed connection
				c.Stat("family:paths")
				k := 2 + r.Intn(2)
				var eps []string
				perm := realepPerm(r, len(paths))
				for j := 0; j < k; j++ {
					if j == 0 && r.Bool() {
						eps = append(eps, "-")
					} else {
						eps = append(eps, paths[perm[j]])
					}
				}
				var ops []string
				for j := 0; j < 4+r.Intn(5); j++ {
					if r.Chance(20) {
						ops = append(ops, fmt.Sprintf("k%d", 1+r.Intn(2)))
						c.Stat("op:kill-connection")
					}
					ops = append(ops, fmt.Sprintf("q%d:%s", r.Intn(k), r.pick(profs)))
				}
				run("realep " + strings.Join(eps, "/") + " " + strings.Join(ops, ","))
			case 1:
				// one resolver, two or three endpoints in preference order: elections with the DEFAULT probe, one after the
				// other in one process; the preferred endpoint goes down, the election must find the next healthy one
				c.Stat("family:election")
				k := 2 + r.Intn(2)
				perm := realepPerm(r, len(paths))
				var eps []string
				for j := 0; j < k; j++ {
					eps = append(eps, paths[perm[j]])
				}
				ops := []string{"q0:" + r.pick(profs)}
				if r.Bool() {
					ops = append(ops, "e0")
				}
				ops = append(ops, "d"+eps[0], "e0", "q0:"+r.pick(profs))
				if k == 3 && r.Bool() {
					ops = append(ops, "d"+eps[1], "e0", "q0:"+r.pick(profs))
				}
				if r.Bool() {
					ops = append(ops, "u"+eps[0], "e0", "q0:"+r.pick(profs))
				}
				run("realep " + strings.Join(eps, "+") + " " + strings.Join(ops, ","))
			default:
				c.Stat("family:mixed")
				eps := []string{"-", r.pick(paths)}
				var ops []string
				for j := 0; j < 3+r.Intn(4); j++ {
					switch r.Intn(5) {
					case 0:
						ops = append(ops, "k1")
						c.Stat("op:kill-connection")
					case 1:
						ops = append(ops, fmt.Sprintf("e%d", r.Intn(2)))
					}
					ops = append(ops, fmt.Sprintf("q%d:%s", r.Intn(2), r.pick(profs)))
				}
				run("realep " + strings.Join(eps, "/") + " " + strings.Join(ops, ","))
			}
		}
		return nil
	}
}
