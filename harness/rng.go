package main

import (
	"encoding/hex"
	"os"
	"strconv"
)

// Rng is splitmix64; every random choice of the harness derives from one state seeded by VERIF_SEED.
type Rng struct{ s uint64 }

// NewRng scrambles the seed first: with a plain affine start state the stream of seed s+k would be
// the stream of seed s shifted by k draws, and shards (seed + 1000*i) would mostly repeat each other.
func NewRng(seed uint64) *Rng {
	z := (seed + 0x632BE59BD9B4E019) * 0xD1B54A32D192ED03
	z = (z ^ (z >> 32)) * 0x9FB21C651E98DF25
	z = (z ^ (z >> 29)) * 0xBF58476D1CE4E5B9
	return &Rng{s: z ^ (z >> 32)}
}

func (r *Rng) U64() uint64 {
	r.s += 0x9E3779B97F4A7C15
	z := r.s
	z = (z ^ (z >> 30)) * 0xBF58476D1CE4E5B9
	z = (z ^ (z >> 27)) * 0x94D049BB133111EB
	return z ^ (z >> 31)
}

func (r *Rng) Intn(n int) int {
	if n <= 0 {
		return 0
	}
	return int(r.U64() % uint64(n))
}

func (r *Rng) Bool() bool        { return r.U64()&1 == 1 }
func (r *Rng) Chance(p int) bool { return r.Intn(100) < p } // p percent

func (r *Rng) Bytes(n int) []byte {
	b := make([]byte, n)
	for i := range b {
		b[i] = byte(r.U64())
	}
	return b
}

func (r *Rng) Pick(xs []int) int { return xs[r.Intn(len(xs))] }

func hx(b []byte) string {
	if len(b) == 0 {
		return "-"
	}
	return hex.EncodeToString(b)
}

func unhx(s string) []byte {
	if s == "-" {
		return nil
	}
	b, err := hex.DecodeString(s)
	if err != nil {
		panic(err)
	}
	return b
}

func envInt(name string, def int) int {
	if v := os.Getenv(name); v != "" {
		if n, err := strconv.Atoi(v); err == nil {
			return n
		}
	}
	return def
}
