package main

import (
	"context"
	"crypto/x509"
	"fmt"
	"io"
	"net"
	"net/http"
	"net/http/httptest"
	"strconv"
	"strings"
	"sync"
	"time"

	"github.com/nextdns/nextdns/proxy"
	"github.com/nextdns/nextdns/resolver"
	"github.com/nextdns/nextdns/resolver/endpoint"
)

// upfault area (C03): the real proxy -> resolver.DNS -> DOH.resolve over a real HTTP/2-over-TLS
// connection (the endpoint's own transport, pointed at a loopback test server through a TCP
// forwarder that can reset or stall the connection) and -> DNS53.resolve over UDP to a fake
// plain-DNS server. One fault per request; the reply is compared with the model and the
// latency must stay below timeout + slack.
//
// case:  upf doh|dns53 udp|tcp <payloadhex> <fault...>
// impl:  <replyhex> lat=ok|slow

const upTimeout = 300 * time.Millisecond
const upSlack = 1000 * time.Millisecond

func upTimeoutOf(which string) time.Duration {
	if which == "dns53s" {
		return 5 * upTimeout
	}
	return upTimeout
}

// ---- TCP forwarder in front of the TLS server ------------------------------------------------

type forwarder struct {
	l      net.Listener
	target string
	mu     sync.Mutex
	conns  []net.Conn
	stall  bool
	cond   *sync.Cond
	// blackhole > 0: the next accepted connections are held open without forwarding a byte
	// (the TLS ClientHello is never answered): a hang at connection level, before any response
	blackhole int
	held      []net.Conn
}

func newForwarder(target string) *forwarder {
	l, err := net.Listen("tcp", "127.0.0.1:0")
	if err != nil {
		panic(err)
	}
	f := &forwarder{l: l, target: target}
	f.cond = sync.NewCond(&f.mu)
	go f.loop()
	return f
}

func (f *forwarder) addr() string { return f.l.Addr().String() }

func (f *forwarder) loop() {
	for {
		c, err := f.l.Accept()
		if err != nil {
			return
		}
		f.mu.Lock()
		if f.blackhole > 0 {
			f.blackhole--
			f.held = append(f.held, c)
			f.mu.Unlock()
			continue
		}
		f.mu.Unlock()
		up, err := net.Dial("tcp", f.target)
		if err != nil {
			c.Close()
			continue
		}
		f.mu.Lock()
		f.conns = append(f.conns, c, up)
		f.mu.Unlock()
		go f.pipe(c, up)
		go f.pipe(up, c)
	}
}

func (f *forwarder) pipe(dst, src net.Conn) {
	buf := make([]byte, 32<<10)
	for {
		n, err := src.Read(buf)
		if n > 0 {
			f.mu.Lock()
			for f.stall {
				f.cond.Wait()
			}
			f.mu.Unlock()
			if _, werr := dst.Write(buf[:n]); werr != nil {
				break
			}
		}
		if err != nil {
			break
		}
	}
	dst.Close()
	src.Close()
}

func (f *forwarder) resetAll() {
	f.mu.Lock()
	for _, c := range f.conns {
		if tc, ok := c.(*net.TCPConn); ok {
			_ = tc.SetLinger(0)
		}
		c.Close()
	}
	f.conns = nil
	f.mu.Unlock()
}

// closeAll closes every connection gracefully (FIN, no RST).
func (f *forwarder) closeAll() {
	f.mu.Lock()
	for _, c := range f.conns {
		c.Close()
	}
	f.conns = nil
	f.mu.Unlock()
}

// blackholeNext makes the next connection hang in its TLS handshake; the established ones are
// reset so that the next request has to dial.
func (f *forwarder) blackholeNext() {
	f.mu.Lock()
	f.blackhole = 1
	f.mu.Unlock()
	f.resetAll()
}

func (f *forwarder) setStall(b bool) {
	f.mu.Lock()
	f.stall = b
	f.mu.Unlock()
	f.cond.Broadcast()
}

// ---- fake DoH server ----------------------------------------------------------------------------

type dohFault struct {
	kind string // ok status empty oversize hang midhang trickle reset stall abort malformed shortcl finmid hshang
	arg  int
	salt int
}

func (d dohFault) String() string {
	switch d.kind {
	case "ok", "oversize", "midhang", "malformed", "shortcl", "finmid":
		return fmt.Sprintf("%s %d %d", d.kind, d.arg, d.salt)
	case "status":
		return fmt.Sprintf("status %d", d.arg)
	}
	return d.kind
}

type dohServer struct {
	ts  *httptest.Server
	fwd *forwarder
	mu  sync.Mutex
	cur dohFault
}

func (s *dohServer) handler(w http.ResponseWriter, r *http.Request) {
	s.mu.Lock()
	f := s.cur
	s.mu.Unlock()
	body, _ := io.ReadAll(r.Body)
	id := uint16(0)
	if len(body) >= 2 {
		id = uint16(body[0])<<8 | uint16(body[1])
	}
	mk := func(n int) []byte {
		b := make([]byte, n)
		synthResp(id, n, f.salt, b)
		return b
	}
	switch f.kind {
	case "ok", "oversize":
		b := mk(f.arg)
		if f.kind == "ok" && f.salt%2 == 0 {
			// the length is announced (Content-Length) and, for every other such answer, the body leaves in two pieces
			// with a flush in between: how the body is cut up on its way must not matter to the client
			w.Header().Set("Content-Length", strconv.Itoa(len(b)))
			if f.salt%4 == 0 && len(b) >= 2 {
				k := 1 + (f.salt/4)%(len(b)-1)
				_, _ = w.Write(b[:k])
				if fl, ok := w.(http.Flusher); ok {
					fl.Flush()
				}
				time.Sleep(2 * time.Millisecond)
				_, _ = w.Write(b[k:])
				return
			}
		}
		_, _ = w.Write(b)
	case "malformed":
		b := mk(f.arg)
		for i := range b {
			b[i] = byte(i*31 + f.salt)
		}
		_, _ = w.Write(b)
	case "status":
		w.WriteHeader(f.arg)
		_, _ = w.Write([]byte("error"))
	case "empty":
		w.WriteHeader(200)
	case "hang":
		<-r.Context().Done()
	case "midhang":
		b := mk(100)
		_, _ = w.Write(b[:f.arg])
		if fl, ok := w.(http.Flusher); ok {
			fl.Flush()
		}
		<-r.Context().Done()
	case "trickle":
		b := mk(60)
		for i := range b {
			if _, err := w.Write(b[i : i+1]); err != nil {
				return
			}
			if fl, ok := w.(http.Flusher); ok {
				fl.Flush()
			}
			select {
			case <-r.Context().Done():
				return
			case <-time.After(40 * time.Millisecond):
			}
		}
	case "shortcl":
		// declares a longer body than it sends, then ends the stream cleanly (no reset)
		b := mk(100)
		w.Header().Set("Content-Length", "100")
		_, _ = w.Write(b[:f.arg])
	case "finmid":
		// part of the body, then the connection is closed cleanly (FIN) in the middle of it
		b := mk(100)
		w.Header().Set("Content-Length", "100")
		_, _ = w.Write(b[:f.arg])
		if fl, ok := w.(http.Flusher); ok {
			fl.Flush()
		}
		time.Sleep(20 * time.Millisecond)
		s.fwd.closeAll()
	case "reset":
		s.fwd.resetAll()
	case "stall":
		s.fwd.setStall(true)
		time.AfterFunc(upTimeout+250*time.Millisecond, func() { s.fwd.setStall(false) })
		_, _ = w.Write(mk(50))
	case "abort":
		panic(http.ErrAbortHandler)
	}
}

// ---- fake plain-DNS server ------------------------------------------------------------------------

// a scripted datagram: delay in ms after the query, kind, and (for match) length and salt
type dgram struct {
	delay int
	kind  string // wrongid short match garbage
	n     int
	salt  int
}

func (d dgram) String() string { return fmt.Sprintf("%d:%s:%d:%d", d.delay, d.kind, d.n, d.salt) }

type dns53Server struct {
	c      net.PacketConn
	mu     sync.Mutex
	script []dgram
}

func (s *dns53Server) loop() {
	buf := make([]byte, 65535)
	for {
		n, addr, err := s.c.ReadFrom(buf)
		if err != nil {
			return
		}
		if n < 2 {
			continue
		}
		id := uint16(buf[0])<<8 | uint16(buf[1])
		s.mu.Lock()
		script := append([]dgram{}, s.script...)
		s.mu.Unlock()
		go func() {
			start := time.Now()
			for _, d := range script {
				if w := time.Duration(d.delay)*time.Millisecond - time.Since(start); w > 0 {
					time.Sleep(w)
				}
				_, _ = s.c.WriteTo(dgramBytes(id, d), addr)
			}
		}()
	}
}

func dgramBytes(id uint16, d dgram) []byte {
	switch d.kind {
	case "wrongid", "wronghi", "wronglo":
		x := map[string]uint16{"wrongid": 0x5555, "wronghi": 0x0100, "wronglo": 0x0001}[d.kind]
		b := make([]byte, d.n)
		synthResp(id^x, d.n, d.salt, b)
		return b
	case "short":
		return []byte{byte(id >> 8)}
	case "garbage":
		b := make([]byte, d.n)
		for i := range b {
			b[i] = byte(i*13 + d.salt)
		}
		if d.n >= 2 {
			b[0], b[1] = byte(id>>8), byte(id)
		}
		return b
	}
	b := make([]byte, d.n)
	synthResp(id, d.n, d.salt, b)
	return b
}

// missCache is a resolver.Cacher that evicts at once: Add is accepted, Get never finds anything.
type missCache struct {
	mu   sync.Mutex
	adds int
}

func (c *missCache) Add(key, value interface{}) { c.mu.Lock(); c.adds++; c.mu.Unlock() }
func (c *missCache) Get(key interface{}) (interface{}, bool) { return nil, false }

// ---- the system under test --------------------------------------------------------------------------

type upSystem struct {
	doh      *dohServer
	dns      *dns53Server
	addr     map[string]string // "doh"/"dns53" -> proxy address
	cancel   []context.CancelFunc
	tcp      map[string]*tcpClient
	startErr error
}

func startUpSystem() *upSystem {
	sys := &upSystem{addr: map[string]string{}, tcp: map[string]*tcpClient{}}
	// DoH side
	ds := &dohServer{}
	ts := httptest.NewUnstartedServer(http.HandlerFunc(ds.handler))
	ts.EnableHTTP2 = true
	ts.StartTLS()
	ds.ts = ts
	ds.fwd = newForwarder(ts.Listener.Addr().String())
	sys.doh = ds
	roots := x509.NewCertPool()
	roots.AddCert(ts.Certificate())
	ep := &endpoint.DOHEndpoint{Hostname: "example.com"}
	ep.VerifUseTransport(ds.fwd.addr(), roots)
	mk := func(e endpoint.Endpoint) *resolver.DNS {
		// the response cache is configured (run.go: cache-size > 0) but never has the entry asked for - a cache smaller
		// than the working set: every upstream message, well-formed or not, goes through the store path, and no fault is
		// hidden behind an earlier answer
		ch := &missCache{}
		return &resolver.DNS{DOH: resolver.DOH{Cache: ch}, DNS53: resolver.DNS53{Cache: ch}, Manager: &endpoint.Manager{
			Providers:      []endpoint.Provider{endpoint.StaticProvider([]endpoint.Endpoint{e})},
			InitEndpoint:   e,
			// the manager's default error threshold (10): a long run of faults makes it hold an election, which - the
			// endpoint being the only candidate and its probe passing - keeps the endpoint: still the steady case
			EndpointTester: func(endpoint.Endpoint) endpoint.Tester {
				return func(ctx context.Context, testDomain string) error { return nil }
			},
		}}
	}
	// plain DNS side
	pc, err := net.ListenPacket("udp", "127.0.0.1:0")
	if err != nil {
		panic(err)
	}
	sys.dns = &dns53Server{c: pc}
	go sys.dns.loop()
	dnsEp := &endpoint.DNSEndpoint{Addr: pc.LocalAddr().String()}
	// "dns53s": the plain-DNS side once more behind a proxy with a five times longer timeout (room for scenarios whose
	// steps must fall in a given order within one timeout)
	for name, r := range map[string]*resolver.DNS{"doh": mk(ep), "dns53": mk(dnsEp), "dns53s": mk(dnsEp)} {
		a := "127.0.0.1:" + strconv.Itoa(freePort())
		ctx, cancel := context.WithCancel(context.Background())
		sys.cancel = append(sys.cancel, cancel)
		p := proxy.Proxy{Addrs: []string{a}, Upstream: r, Timeout: upTimeoutOf(name), MaxInflightRequests: 32}
		go func() { _ = p.ListenAndServe(ctx) }()
		sys.addr[name] = a
		sys.tcp[name] = &tcpClient{}
	}
	time.Sleep(150 * time.Millisecond)
	return sys
}

func (s *upSystem) stop() {
	for _, c := range s.cancel {
		c()
	}
	s.doh.ts.Close()
	s.dns.c.Close()
}

func (s *upSystem) query(which, proto string, payload []byte) string {
	start := time.Now()
	var out string
	wait := upTimeoutOf(which) + upSlack + 500*time.Millisecond
	if proto == "udp" {
		rep, err := udpExchange(s.addr[which], payload, wait)
		if err != nil {
			out = "TIMEOUT"
		} else {
			out = hx(rep)
		}
	} else {
		o, err := s.tcp[which].exchange(s.addr[which], payload, wait)
		if err != nil {
			out = "ERR"
		} else {
			out = o
		}
	}
	lat := "ok"
	if time.Since(start) > upTimeoutOf(which)+upSlack {
		lat = "slow"
	}
	return out + " lat=" + lat
}

func init() {
	areas["upfault"] = func(c *Ctx) error {
		r := NewRng(c.seed)
		sys := startUpSystem()
		defer sys.stop()
		// warm up the h2 connection and let the initial election settle
		warm := r.sockQuery(-1)
		sys.doh.mu.Lock()
		sys.doh.cur = dohFault{kind: "ok", arg: 40, salt: 1}
		sys.doh.mu.Unlock()
		for i := 0; i < 20; i++ {
			if o := sys.query("doh", "udp", warm); !strings.HasPrefix(o, "TIMEOUT") && len(o) > 30 {
				break
			}
			time.Sleep(40 * time.Millisecond) // refused at once while the socket is not bound yet: pause before the next try
		}
		runDoh := func(proto string, payload []byte, f dohFault) {
			sys.doh.mu.Lock()
			sys.doh.cur = f
			sys.doh.mu.Unlock()
			if f.kind == "hshang" {
				// no established connection + the next one never completes its handshake; the
				// upstream serves new connections normally right afterwards
				sys.doh.fwd.blackholeNext()
			}
			out := sys.query("doh", proto, payload)
			if f.kind == "hshang" {
				sys.doh.fwd.mu.Lock()
				sys.doh.fwd.blackhole = 0
				sys.doh.fwd.mu.Unlock()
				sys.doh.mu.Lock()
				sys.doh.cur = dohFault{kind: "ok", arg: 40, salt: 1}
				sys.doh.mu.Unlock()
			}
			c.Emit("upf doh "+proto+" "+hx(payload)+" "+f.String(), out)
			c.Stat("doh:" + f.kind)
			if f.kind == "stall" {
				time.Sleep(300 * time.Millisecond) // let the forwarder resume
			}
		}
		var runDNSOn func(which, proto string, payload []byte, script []dgram, emit bool) (string, string)
		runDNS := func(proto string, payload []byte, script []dgram) { runDNSOn("dns53", proto, payload, script, true) }
		// upfpair: two exchanges back to back on the long-timeout proxy, no draining in between, one case line
		runPair := func(proto string, p1 []byte, s1 []dgram, p2 []byte, s2 []dgram) {
			c1, o1 := runDNSOn("dns53s", proto, p1, s1, false)
			c2, o2 := runDNSOn("dns53s", proto, p2, s2, false)
			c.Emit("upfpair "+proto+" "+c1+" "+c2, o1+" | "+o2)
			time.Sleep(700 * time.Millisecond) // strays of the pair
		}
		runDNSOn = func(which, proto string, payload []byte, script []dgram, emit bool) (string, string) {
			sys.dns.mu.Lock()
			sys.dns.script = script
			sys.dns.mu.Unlock()
			qStart := time.Now()
			out := sys.query(which, proto, payload)
			var ss []string
			for _, d := range script {
				ss = append(ss, d.String())
				c.Stat("dns53:" + d.kind)
			}
			if len(ss) == 0 {
				ss = []string{"none"}
				c.Stat("dns53:silent")
			}
			if !emit {
				return hx(payload) + " " + strings.Join(ss, ","), out
			}
			c.Emit("upf "+which+" "+proto+" "+hx(payload)+" "+strings.Join(ss, ","), out)
			// let late datagrams of this script drain before the next query
			if len(script) > 0 {
				if last := script[len(script)-1].delay; last > 300 {
					time.Sleep(time.Until(qStart.Add(time.Duration(last+50) * time.Millisecond)))
				}
			}
			return "", out
		}
		parseScript := func(tok string) []dgram {
			var script []dgram
			if tok != "none" {
				for _, s := range strings.Split(tok, ",") {
					p := strings.Split(s, ":")
					if len(p) == 4 {
						d := dgram{kind: p[1]}
						d.delay, _ = strconv.Atoi(p[0])
						d.n, _ = strconv.Atoi(p[2])
						d.salt, _ = strconv.Atoi(p[3])
						script = append(script, d)
					}
				}
			}
			return script
		}
		if ls := replayLines(); ls != nil {
			for _, l := range ls {
				f := strings.Fields(l)
				if len(f) == 6 && f[0] == "upfpair" {
					runPair(f[1], unhx(f[2]), parseScript(f[3]), unhx(f[4]), parseScript(f[5]))
					continue
				}
				if len(f) < 5 || f[0] != "upf" {
					continue
				}
				if f[1] == "doh" {
					df := dohFault{kind: f[4]}
					if len(f) > 5 {
						df.arg, _ = strconv.Atoi(f[5])
					}
					if len(f) > 6 {
						df.salt, _ = strconv.Atoi(f[6])
					}
					runDoh(f[2], unhx(f[3]), df)
				} else {
					var script []dgram
					if f[4] != "none" {
						for _, s := range strings.Split(f[4], ",") {
							p := strings.Split(s, ":")
							if len(p) == 4 {
								d := dgram{kind: p[1]}
								d.delay, _ = strconv.Atoi(p[0])
								d.n, _ = strconv.Atoi(p[2])
								d.salt, _ = strconv.Atoi(p[3])
								script = append(script, d)
							}
						}
					}
					runDNS(f[2], unhx(f[3]), script)
				}
			}
			return nil
		}
		late := int((upTimeout + 250*time.Millisecond) / time.Millisecond)
		var lastDoh []byte // payload of the last DoH exchange that failed
		for i := 0; i < c.n; i++ {
			proto := "udp"
			if r.Chance(30) {
				proto = "tcp"
			}
			adv := advSizes[r.Intn(len(advSizes))]
			payload := r.sockQuery(adv)
			if i == c.n/2 || r.Chance(1) {
				// the answer to the first query arrives after its deadline, and the next query - another question - carries
				// the same ID and is answered later than that stray datagram arrives: it must get its own answer (whatever
				// the resolver keeps between two exchanges - a socket, say - must not hand it the stray one)
				c.Stat("dns53:late-then-same-id")
				slow := int(upTimeoutOf("dns53s") / time.Millisecond)
				other := r.sockQuery(adv)
				other[0], other[1] = payload[0], payload[1]
				n1 := 40 + r.Intn(100)
				runPair(proto, payload, []dgram{{delay: slow + 500, kind: "latematch", n: n1, salt: r.Intn(256)}},
					other, []dgram{{delay: slow - 500, kind: "match", n: n1 + 1 + r.Intn(60), salt: r.Intn(256)}})
				continue
			}
			if i == c.n/3 || (c.tier == "thorough" && r.Chance(1)) {
				// a RUN of faulty exchanges longer than the manager's error threshold, then the upstream behaves: state
				// the endpoint layer keeps about consecutive failures must not outlive the outage
				c.Stat("doh:fault-run")
				k := 11 + r.Intn(4)
				for j := 0; j < k; j++ {
					runDoh(proto, r.sockQuery(adv), dohFault{kind: []string{"status", "empty", "reset"}[r.Intn(3)], arg: 503})
				}
				for j := 0; j < 2; j++ {
					runDoh(proto, r.sockQuery(adv), dohFault{kind: "ok", arg: 40 + r.Intn(200), salt: r.Intn(256)})
				}
				lastDoh = nil
				continue
			}
			if lastDoh != nil && r.Chance(35) {
				// the SAME question again (another ID) right after a faulty exchange, the upstream now healthy: state a
				// resolver keeps per question (coalescing, negative marks) must not outlive the fault
				payload = append([]byte{byte(r.Intn(256)), byte(r.Intn(256))}, lastDoh[2:]...)
				adv = advOf(payload)
				lastDoh = nil
				c.Stat("doh:same-question-after-fault")
				runDoh(proto, payload, dohFault{kind: "ok", arg: 40 + r.Intn(200), salt: r.Intn(256)})
				continue
			}
			if r.Chance(50) {
				var f dohFault
				switch r.Intn(18) {
				case 17:
					// a complete but tiny body (1..3 bytes): relayed like any other upstream message
					f = dohFault{kind: "malformed", arg: 1 + r.Intn(3), salt: r.Intn(256)}
					c.Stat("doh:tiny-body")
				case 16:
					f = dohFault{kind: "hshang"}
				case 0:
					f = dohFault{kind: "status", arg: r.Pick([]int{500, 404, 403, 503, 204, 302})}
				case 1:
					f = dohFault{kind: "empty"}
				case 2:
					f = dohFault{kind: "oversize", arg: 65535 + r.Intn(3000), salt: r.Intn(256)}
				case 3:
					f = dohFault{kind: "hang"}
				case 4:
					f = dohFault{kind: "midhang", arg: 1 + r.Intn(90), salt: r.Intn(256)}
				case 5:
					f = dohFault{kind: "trickle"}
				case 6:
					f = dohFault{kind: "reset"}
				case 7:
					f = dohFault{kind: "stall"}
				case 8:
					f = dohFault{kind: "abort"}
				case 9:
					f = dohFault{kind: "malformed", arg: 1 + r.Intn(300), salt: r.Intn(256)}
				case 10:
					f = dohFault{kind: "ok", arg: 65533 + r.Intn(2), salt: r.Intn(256)}
				case 11:
					f = dohFault{kind: []string{"shortcl", "finmid"}[r.Intn(2)], arg: 12 + r.Intn(80), salt: r.Intn(256)}
				default:
					f = dohFault{kind: "ok", arg: r.respLen(adv), salt: r.Intn(256)}
					if f.arg > 65534 {
						f.arg = 65534
					}
				}
				runDoh(proto, payload, f)
				if f.kind != "ok" && f.kind != "malformed" && f.kind != "oversize" {
					lastDoh = append([]byte{}, payload...)
				} else {
					lastDoh = nil
				}
			} else {
				var script []dgram
				k := r.Intn(4)
				for j := 0; j < k; j++ {
					switch r.Intn(3) {
					case 0:
						script = append(script, dgram{delay: r.Intn(30), kind: []string{"wrongid", "wronghi", "wronglo"}[r.Intn(3)], n: 12 + r.Intn(100), salt: r.Intn(256)})
					case 1:
						script = append(script, dgram{delay: r.Intn(30), kind: "short"})
					case 2:
						script = append(script, dgram{delay: r.Intn(30), kind: "wrongid", n: 2, salt: 0})
					}
				}
				if r.Chance(5) {
					// a drip of stale answers (wrong IDs) spaced closer than the timeout, well past it:
					// the deadline is absolute, the query must still fail at the timeout
					script = nil
					for d := 100; d <= 1500; d += 140 {
						script = append(script, dgram{delay: d, kind: []string{"wrongid", "wronghi", "short"}[r.Intn(3)], n: 30, salt: r.Intn(256)})
					}
					runDNS(proto, payload, script)
					continue
				}
				switch r.Intn(6) {
				case 0: // nothing valid ever arrives
				case 1: // the valid answer arrives after the deadline
					script = append(script, dgram{delay: late, kind: "match", n: 40 + r.Intn(100), salt: r.Intn(256)})
				case 2:
					n := 2 + r.Intn(200)
					if r.Chance(30) {
						n = 2 + r.Intn(2) // the shortest datagrams DNS53.resolve accepts: the ID and nothing else
						c.Stat("dns53:tiny-datagram")
					}
					script = append(script, dgram{delay: 30 + r.Intn(20), kind: "garbage", n: n, salt: r.Intn(256)})
				default:
					n := r.respLen(adv)
					if n > 65000 {
						n = 65000 // a UDP datagram cannot carry more than 65507 bytes
					}
					script = append(script, dgram{delay: 30 + r.Intn(20), kind: "match", n: n, salt: r.Intn(256)})
					if r.Chance(30) {
						script = append(script, dgram{delay: 60, kind: "match", n: 20, salt: 9})
					}
				}
				runDNS(proto, payload, script)
			}
		}
		return nil
	}
}
