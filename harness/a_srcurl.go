package main

import (
	"context"
	"fmt"
	"net/http"
	"net/http/httptest"
	"strconv"
	"strings"
	"sync"
	"time"

	"github.com/nextdns/nextdns/resolver/endpoint"
)

// srcurl area (C08): the provider run.go takes the list of NextDNS endpoints from - (*SourceURLProvider).GetEndpoints -
// against a loopback HTTP server that serves, call after call, the documents of the case:
//
//	srcurl <doc>|<doc>|…      doc = E (a body that is not the JSON list) | - (empty list) | host/path/ip+ip,…
//
// Output per call: `err`, or the objects returned, each named by the order in which the provider first handed it out
// (an endpoint Equal to one of the previous call's list must BE that earlier object), after checking that, position by
// position, they are Equal to what the document lists.

func runSrcURL(docs string) string {
	var mu sync.Mutex
	cur := ""
	ts := httptest.NewServer(http.HandlerFunc(func(w http.ResponseWriter, r *http.Request) {
		mu.Lock()
		d := cur
		mu.Unlock()
		_, _ = w.Write([]byte(d))
	}))
	defer ts.Close()
	p := &endpoint.SourceURLProvider{SourceURL: ts.URL, Client: ts.Client()}
	ids := map[endpoint.Endpoint]int{}
	var out []string
	for _, doc := range strings.Split(docs, "|") {
		var want []*endpoint.DOHEndpoint
		body := ""
		switch doc {
		case "E":
			body = `{"hostname": "not-a-list"`
		case "-":
			body = "[]"
		default:
			var items []string
			for _, e := range strings.Split(doc, ",") {
				f := strings.Split(e, "/")
				if len(f) != 3 || f[0] == "" {
					return "bad-op"
				}
				ep := &endpoint.DOHEndpoint{Hostname: f[0]}
				it := `{"hostname":` + strconv.Quote(f[0])
				if f[1] != "-" {
					ep.Path = "/" + f[1]
					it += `,"path":` + strconv.Quote(ep.Path)
				}
				if f[2] != "-" {
					ep.Bootstrap = strings.Split(f[2], "+")
					var q []string
					for _, ip := range ep.Bootstrap {
						q = append(q, strconv.Quote(ip))
					}
					it += `,"ips":[` + strings.Join(q, ",") + `]`
				}
				items = append(items, it+"}")
				want = append(want, ep)
			}
			body = "[" + strings.Join(items, ",") + "]"
		}
		mu.Lock()
		cur = body
		mu.Unlock()
		ctx, cancel := context.WithTimeout(context.Background(), 2*time.Second)
		got, err := p.GetEndpoints(ctx)
		cancel()
		if err != nil {
			out = append(out, "err")
			continue
		}
		if len(got) != len(want) {
			out = append(out, fmt.Sprintf("LEN%d", len(got)))
			continue
		}
		var toks []string
		for i, e := range got {
			if !e.Equal(want[i]) || !want[i].Equal(e) {
				toks = append(toks, "NE")
				continue
			}
			id, ok := ids[e]
			if !ok {
				id = len(ids)
				ids[e] = id
			}
			toks = append(toks, strconv.Itoa(id))
		}
		if len(toks) == 0 {
			toks = []string{"-"}
		}
		out = append(out, strings.Join(toks, ","))
	}
	return strings.Join(out, " ")
}

func init() {
	areas["srcurl"] = func(c *Ctx) error {
		run := func(l string) {
			c.Note(l)
			f := strings.Fields(l)
			if len(f) != 2 || f[0] != "srcurl" {
				c.Emit(l, "bad-op")
				return
			}
			c.Emit(l, runSrcURL(f[1]))
		}
		if ls := replayLines(); ls != nil {
			for _, l := range ls {
				run(l)
			}
			return nil
		}
		r := NewRng(c.seed)
		hosts := []string{"dns1.nextdns.io", "dns2.nextdns.io", "ipv4.dns1.nextdns.io", "DNS1.nextdns.io"}
		paths := []string{"-", "-", "-", "x", "dns-query"}
		ipsets := []string{"-", "192.0.2.1", "192.0.2.1+192.0.2.2", "192.0.2.2+192.0.2.1", "2001:db8::1"}
		for i := 0; i < c.n; i++ {
			var docs []string
			for j := 0; j < 2+r.Intn(5); j++ {
				switch k := r.Intn(10); {
				case k == 0:
					docs = append(docs, "E")
					c.Stat("doc:undecodable")
				case k == 1:
					docs = append(docs, "-")
					c.Stat("doc:empty-list")
				default:
					var eps []string
					for e := 0; e < 1+r.Intn(4); e++ {
						eps = append(eps, r.pick(hosts)+"/"+r.pick(paths)+"/"+r.pick(ipsets))
					}
					docs = append(docs, strings.Join(eps, ","))
					c.Stat("doc:list")
				}
			}
			run("srcurl " + strings.Join(docs, "|"))
		}
		return nil
	}
}
