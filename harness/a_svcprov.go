package main

import (
	"context"
	"fmt"
	"net"
	"strconv"
	"strings"
	"time"

	"github.com/nextdns/nextdns/resolver/endpoint"
)

// svcprov area (C08): the first provider of run.go's endpoint manager, (*SourceHTTPSSVCProvider).GetEndpoints, with a
// Source endpoint that answers its HTTPS query with the records of the case (wire form built here, with an A record of
// the same owner mixed in now and then: other types are skipped):
//
//	svcprov <prio>:<key>=<valuehex>,…;<prio>:…      ('-' = no HTTPS record / no parameter, '_' = empty value)
//
// Output: `err`, `none`, or the endpoints in order: ips=<addresses as 16 bytes hex>/alpn=<strings hex|-|none>.

type svcSource struct{ answers []byte }

func (s *svcSource) Protocol() endpoint.Protocol    { return endpoint.ProtocolDOH }
func (s *svcSource) Equal(e endpoint.Endpoint) bool { return e == endpoint.Endpoint(s) }
func (s *svcSource) String() string                 { return "svcSource" }
func (s *svcSource) Exchange(ctx context.Context, payload, buf []byte) (int, error) {
	if len(payload) < 12 {
		return 0, fmt.Errorf("short query")
	}
	// the question ends after the first name + 4 bytes
	end := 12
	for end < len(payload) && payload[end] != 0 {
		end += 1 + int(payload[end])
	}
	end += 5
	if end > len(payload) {
		return 0, fmt.Errorf("bad query")
	}
	resp := append([]byte{}, payload[:end]...)
	resp[2] |= 0x80
	resp[3] |= 0x80
	an := 0
	for off := 0; off < len(s.answers); {
		l := int(s.answers[off])<<8 | int(s.answers[off+1])
		off += 2 + l
		an++
	}
	resp[6], resp[7] = byte(an>>8), byte(an)
	resp[10], resp[11] = 0, 0
	for off := 0; off < len(s.answers); {
		l := int(s.answers[off])<<8 | int(s.answers[off+1])
		resp = append(resp, s.answers[off+2:off+2+l]...)
		off += 2 + l
	}
	if len(resp) > len(buf) {
		return 0, fmt.Errorf("response too large")
	}
	return copy(buf, resp), nil
}

func runSvcProv(spec string) string {
	src := &svcSource{}
	addRR := func(typ int, rdata []byte) {
		rr := []byte{0xc0, 0x0c, byte(typ >> 8), byte(typ), 0, 1, 0, 0, 1, 0x2c, byte(len(rdata) >> 8), byte(len(rdata))}
		rr = append(rr, rdata...)
		src.answers = append(src.answers, byte(len(rr)>>8), byte(len(rr)))
		src.answers = append(src.answers, rr...)
	}
	if spec != "-" {
		for i, r := range strings.Split(spec, ";") {
			f := strings.SplitN(r, ":", 2)
			if len(f) != 2 {
				return "bad-op"
			}
			prio, err := strconv.Atoi(f[0])
			if err != nil || prio < 0 || prio > 65535 {
				return "bad-op"
			}
			rd := []byte{byte(prio >> 8), byte(prio), 0} // priority, target "."
			if f[1] != "-" {
				for _, p := range strings.Split(f[1], ",") {
					kv := strings.SplitN(p, "=", 2)
					if len(kv) != 2 {
						return "bad-op"
					}
					k, err := strconv.Atoi(kv[0])
					if err != nil || k < 0 || k > 65535 {
						return "bad-op"
					}
					var v []byte
					if kv[1] != "_" {
						v = unhx(kv[1])
					}
					rd = append(rd, byte(k>>8), byte(k), byte(len(v)>>8), byte(len(v)))
					rd = append(rd, v...)
				}
			}
			if i%3 == 1 {
				addRR(1, []byte{192, 0, 2, byte(i)}) // an A record between the HTTPS records: skipped
			}
			addRR(65, rd)
		}
	}
	p := &endpoint.SourceHTTPSSVCProvider{Hostname: "dns.nextdns.io", Source: src}
	eps, err := p.GetEndpoints(context.Background())
	if err != nil {
		return "err"
	}
	if len(eps) == 0 {
		return "none"
	}
	var out []string
	for _, e := range eps {
		d, ok := e.(*endpoint.DOHEndpoint)
		if !ok || d.Hostname != "dns.nextdns.io" {
			return "ERR not a DoH endpoint of the provider's host name"
		}
		var ips []string
		for _, s := range d.Bootstrap {
			ip := net.ParseIP(s)
			if ip == nil {
				return "ERR bootstrap address " + s + " does not parse"
			}
			ips = append(ips, hx(ip.To16()))
		}
		is := "-"
		if len(ips) > 0 {
			is = strings.Join(ips, ",")
		}
		al := "none"
		if d.ALPN != nil {
			al = "-"
			var as []string
			for _, a := range d.ALPN {
				if a == "" {
					as = append(as, "_")
				} else {
					as = append(as, hx([]byte(a)))
				}
			}
			if len(as) > 0 {
				al = strings.Join(as, ",")
			}
		}
		out = append(out, "ips="+is+"/alpn="+al)
	}
	return strings.Join(out, " ")
}

func init() {
	areas["svcprov"] = func(c *Ctx) error {
		run := func(l string) {
			c.Note(l)
			f := strings.Fields(l)
			if len(f) != 2 || f[0] != "svcprov" {
				c.Emit(l, "bad-op")
				return
			}
			c.Emit(l, guard(2*time.Second, func() string { return runSvcProv(f[1]) }))
		}
		if ls := replayLines(); ls != nil {
			for _, l := range ls {
				run(l)
			}
			return nil
		}
		r := NewRng(c.seed)
		for i := 0; i < c.n; i++ {
			n := r.Pick([]int{0, 1, 1, 2, 2, 3, 4, 6})
			if n == 0 {
				run("svcprov -")
				c.Stat("answer:no-https-record")
				continue
			}
			var rrs []string
			prio := r.Pick([]int{0, 1, 1, 1, 2})
			for j := 0; j < n; j++ {
				switch r.Intn(6) {
				case 0:
					prio += 1 + r.Intn(3)
					c.Stat("prio:higher")
				case 1:
					if prio > 0 {
						prio--
						c.Stat("prio:lower")
					}
				default:
					c.Stat("prio:same")
				}
				var ps []string
				for k := 0; k < r.Intn(4); k++ {
					switch r.Intn(8) {
					case 0, 1, 2:
						v := r.Bytes(4 * (1 + r.Intn(3)))
						if r.Chance(6) {
							v = v[:len(v)-1-r.Intn(3)]
							c.Stat("param:ipv4hint-unaligned")
						}
						ps = append(ps, "4="+hxOr(v))
					case 3, 4:
						v := r.Bytes(16 * (1 + r.Intn(2)))
						v[0] = 0x20 // a global unicast address: never the IPv4-mapped form
						if len(v) > 16 {
							v[16] = 0x2a
						}
						if r.Chance(6) {
							v = v[:len(v)-1-r.Intn(15)]
							c.Stat("param:ipv6hint-unaligned")
						}
						ps = append(ps, "6="+hxOr(v))
					case 5, 6:
						var v []byte
						for a := 0; a < r.Intn(3); a++ {
							s := r.pick([]string{"h2", "h3", "http/1.1", "", "doq"})
							v = append(v, byte(len(s)))
							v = append(v, s...)
						}
						if r.Chance(8) && len(v) > 0 {
							v[0] += byte(1 + r.Intn(40))
							c.Stat("param:alpn-overflow")
						}
						ps = append(ps, "1="+hxOr(v))
					default:
						ps = append(ps, fmt.Sprintf("%d=%s", r.Pick([]int{0, 2, 3, 5, 7, 65280}), hxOr(r.Bytes(r.Intn(6)))))
					}
				}
				p := "-"
				if len(ps) > 0 {
					p = strings.Join(ps, ",")
				}
				rrs = append(rrs, fmt.Sprintf("%d:%s", prio, p))
			}
			run("svcprov " + strings.Join(rrs, ";"))
		}
		return nil
	}
}

func hxOr(b []byte) string {
	if len(b) == 0 {
		return "_"
	}
	return hx(b)
}
