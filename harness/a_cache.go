package main

import (
	"context"
	"errors"
	"fmt"
	"io"
	"net"
	"net/http"
	"os"
	"reflect"
	"strconv"
	"strings"
	"sync"
	"time"

	"github.com/nextdns/nextdns/resolver"
	"github.com/nextdns/nextdns/resolver/endpoint"
	"github.com/nextdns/nextdns/resolver/query"
)

// cache area (C06, history half of C07).  One case line is one whole history of queries from
// several profiles / URLs over DoH and DNS53, clock advances and cache evictions (format: see
// lean/NV/Driver/Cache.lean).  The REAL DOH.resolve / DNS53.resolve run in-process on one
// resolver.DNS value whose two resolvers share one harness-owned Cacher (as in run.go), with an
// injected http.RoundTripper and a loopback UDP server as upstreams.
//
// Virtual time: whole seconds.  The code reads time.Now() itself, so the harness (a) truncates the
// fetch time of every stored entry to the whole second, (b) realises `A,d` by moving every stored
// entry time and every recorded last-modified time back by d seconds, (c) really sleeps for the
// rare `lat` seconds of upstream latency, and (d) re-runs a history that straddled a real second
// boundary (checked at the end), so that ages and Before() comparisons are exact.

const cacheT0 = 1000000
const cacheProfilePrefix = "https://dns.nextdns.io/" // run.go; tied to the model by NV.Gen.Cache

// ---------------------------------------------------------------- harness-owned Cacher
type vMeta struct {
	qsec []byte // question section of the query on whose behalf the entry was stored
	name string // its Query.Name
}

type vCache struct {
	mu      sync.Mutex // bursts of concurrent queries (op C) share the Cacher
	m       map[interface{}]interface{}
	byOp    map[int]interface{} // operation index -> key passed to Add
	addLog  []interface{}       // keys passed to Add during the current operation, in order
	meta    map[interface{}]vMeta
	curOp   int
	curMeta vMeta
	lastGet *vMeta
}

func newVCache() *vCache {
	return &vCache{m: map[interface{}]interface{}{}, byOp: map[int]interface{}{}, meta: map[interface{}]vMeta{}}
}

func (c *vCache) Add(k, v interface{}) {
	c.mu.Lock()
	defer c.mu.Unlock()
	resolver.VerifCacheTruncEntry(v)
	c.m[k] = v
	c.byOp[c.curOp] = k
	c.addLog = append(c.addLog, k)
	c.meta[k] = c.curMeta
}

func (c *vCache) Get(k interface{}) (interface{}, bool) {
	c.mu.Lock()
	defer c.mu.Unlock()
	v, ok := c.m[k]
	if ok {
		m := c.meta[k]
		c.lastGet = &m
	}
	return v, ok
}

// ---------------------------------------------------------------- DoH upstream
type bodyReader struct {
	b    []byte
	rerr bool
}

var errBody = errors.New("verif: body read error")

func (r *bodyReader) Read(p []byte) (int, error) {
	if len(r.b) > 0 {
		n := copy(p, r.b)
		r.b = r.b[n:]
		return n, nil
	}
	if r.rerr {
		return 0, errBody
	}
	return 0, io.EOF
}

type vRT struct {
	out    []string // outcome fields of the current operation
	lat    int
	lmReal func(secs int64) string
	log    string
}

func (t *vRT) RoundTrip(req *http.Request) (*http.Response, error) {
	var body []byte
	if req.Body != nil {
		body, _ = io.ReadAll(req.Body)
	}
	t.log = "D:" + hx([]byte(req.URL.String())) + ":" + hx(body)
	if t.lat > 0 {
		time.Sleep(time.Duration(t.lat) * time.Second)
	}
	switch t.out[0] {
	case "E":
		return nil, errors.New("verif: transport error")
	case "S":
		return &http.Response{StatusCode: 503, Proto: "HTTP/2.0", Header: http.Header{}, Body: io.NopCloser(strings.NewReader(""))}, nil
	}
	// B,<body>,<rerr>,<lm>,<proto>
	h := http.Header{}
	lm := t.out[3]
	switch {
	case lm == "-":
	case lm == "x":
		h.Set("X-Conf-Last-Modified", "yesterday at noon")
	case strings.HasPrefix(lm, "s"):
		s, _ := strconv.ParseInt(lm[1:], 10, 64)
		h.Set("X-Conf-Last-Modified", t.lmReal(s))
	}
	return &http.Response{StatusCode: 200, Proto: t.out[4], Header: h,
		Body: io.NopCloser(&bodyReader{b: unhx(t.out[1]), rerr: t.out[2] == "1"})}, nil
}

// barrierRT: the upstream of a burst (op C) answers only when all n requests have arrived (or
// 400 ms passed: the ones that never come were served from the cache), so that none of the burst
// can be answered from what another one of the same burst stored.
type barrier struct {
	mu      sync.Mutex
	n, seen int
	ch      chan struct{}
}

func (b *barrier) arrive() {
	b.mu.Lock()
	b.seen++
	if b.seen == b.n {
		close(b.ch)
	}
	b.mu.Unlock()
	select {
	case <-b.ch:
	case <-time.After(400 * time.Millisecond):
	}
}

type barrierRT struct {
	inner *vRT
	b     *barrier
}

func (t *barrierRT) RoundTrip(req *http.Request) (*http.Response, error) {
	t.b.arrive()
	return t.inner.RoundTrip(req)
}

// urlRT: answers every URL with its own body, after the barrier (op CC)
type urlRT struct {
	bodies map[string]string
	b      *barrier
	log    string
}

func (t *urlRT) RoundTrip(req *http.Request) (*http.Response, error) {
	var body []byte
	if req.Body != nil {
		body, _ = io.ReadAll(req.Body)
	}
	t.log = "D:" + hx([]byte(req.URL.String())) + ":" + hx(body)
	t.b.arrive()
	h, ok := t.bodies[req.URL.String()]
	if !ok {
		return &http.Response{StatusCode: 404, Proto: "HTTP/2.0", Header: http.Header{}, Body: io.NopCloser(strings.NewReader(""))}, nil
	}
	return &http.Response{StatusCode: 200, Proto: "HTTP/2.0", Header: http.Header{},
		Body: io.NopCloser(&bodyReader{b: unhx(h)})}, nil
}

// ---------------------------------------------------------------- DNS53 upstream
type udpSrv struct {
	pc     net.PacketConn
	mu     sync.Mutex
	script [][]byte
	got    [][]byte
	seen   chan struct{}
	// datagrams to send in answer to the next request once the executor says its exchange has ended (strays)
	late     [][]byte
	lateDone chan struct{}
	lateGo   chan struct{}
}

func newUDPSrv() (*udpSrv, error) {
	pc, err := net.ListenPacket("udp", "127.0.0.1:0")
	if err != nil {
		return nil, err
	}
	s := &udpSrv{pc: pc, seen: make(chan struct{}, 64), lateDone: make(chan struct{}, 64), lateGo: make(chan struct{}, 1)}
	go func() {
		buf := make([]byte, 65536)
		for {
			n, addr, err := pc.ReadFrom(buf)
			if err != nil {
				return
			}
			s.mu.Lock()
			s.got = append(s.got, append([]byte{}, buf[:n]...))
			script := s.script
			s.mu.Unlock()
			for _, d := range script {
				_, _ = pc.WriteTo(d, addr)
			}
			s.mu.Lock()
			late := s.late
			s.late = nil
			s.mu.Unlock()
			if late != nil {
				go func(addr net.Addr) {
					// strictly after the exchange has ended: the executor says so (no timing assumption)
					select {
					case <-s.lateGo:
					case <-time.After(3 * time.Second):
					}
					for _, d := range late {
						_, _ = pc.WriteTo(d, addr)
					}
					s.lateDone <- struct{}{}
				}(addr)
			}
			select {
			case s.seen <- struct{}{}:
			default:
			}
		}
	}()
	return s, nil
}

func (s *udpSrv) arm(script [][]byte) {
	s.mu.Lock()
	s.script = script
	s.got = nil
	s.late = nil
	s.mu.Unlock()
	for {
		select {
		case <-s.seen:
			continue
		case <-s.lateGo:
			continue
		case <-s.lateDone:
			continue
		default:
		}
		break
	}
}

func (s *udpSrv) received() [][]byte {
	s.mu.Lock()
	defer s.mu.Unlock()
	return s.got
}

// ---------------------------------------------------------------- executor
// question section (wire name + type + class) of a payload that passed query.New
func qSection(p []byte) []byte {
	off := 12
	for off < len(p) {
		c := int(p[off])
		if c == 0 {
			off++
			break
		}
		if c&0xC0 != 0 {
			off += 2
			break
		}
		off += 1 + c
	}
	off += 4
	if off > len(p) {
		off = len(p)
	}
	return p[12:off]
}

type callRes struct {
	n    int
	i    resolver.ResolveInfo
	err  error
	pnc  interface{}
	done bool
}

// execHistory runs one history on the real code; ok=false when the run straddled a real second
// boundary (the caller retries).
func execHistory(f []string, srv *udpSrv) (string, bool) {
	if len(f) < 5 || f[0] != "cache" {
		return "bad-op", true
	}
	bufLen, e1 := strconv.Atoi(f[2])
	maxAge, e2 := strconv.Atoi(f[3])
	maxTTL, e3 := strconv.Atoi(f[4])
	if e1 != nil || e2 != nil || e3 != nil || bufLen < 3 || (f[1] != "0" && f[1] != "1" && f[1] != "2") {
		return "bad-op", true
	}
	dns := &resolver.DNS{}
	cache := newVCache()
	// "2": cache on, and the single queries (D, N) go the whole way: DNS.Resolve -> endpoint manager -> the resolver of the
	// transport the manager currently stands on (DoH, or the plain-DNS fallback)
	viaMgr := f[1] == "2"
	mgrFor := func(e endpoint.Endpoint) *endpoint.Manager {
		return &endpoint.Manager{
			Providers:      []endpoint.Provider{endpoint.StaticProvider([]endpoint.Endpoint{e})},
			InitEndpoint:   e,
			ErrorThreshold: 1 << 30,
			EndpointTester: func(endpoint.Endpoint) endpoint.Tester {
				return func(ctx context.Context, testDomain string) error { return nil }
			},
		}
	}
	if f[1] != "0" {
		dns.DOH.Cache = cache
		dns.DNS53.Cache = cache
	}
	dns.DOH.CacheMaxAge, dns.DNS53.CacheMaxAge = uint32(maxAge), uint32(maxAge)
	dns.DOH.MaxTTL, dns.DNS53.MaxTTL = uint32(maxTTL), uint32(maxTTL)
	start := time.Now()
	startSec := start.Unix()
	var adv int64    // total of A operations (virtual only)
	var latSum int64 // total real latency slept
	rt := &vRT{}
	rt.lmReal = func(secs int64) string {
		// virtual second secs <-> real second startSec + (secs - T0) - adv
		return time.Unix(startSec+(secs-cacheT0)-adv, 0).UTC().Format(http.TimeFormat)
	}
	var out []string
	for idx, tok := range f[5:] {
		g := strings.Split(tok, ",")
		cache.curOp = idx
		cache.lastGet = nil
		cache.addLog = nil
		switch {
		case g[0] == "A" && len(g) == 2:
			d, err := strconv.ParseInt(g[1], 10, 64)
			if err != nil || d < 0 {
				return "bad-op", true
			}
			for _, v := range cache.m {
				resolver.VerifCacheShiftEntry(v, time.Duration(d)*time.Second)
			}
			dns.VerifCacheShiftLastMod(time.Duration(d) * time.Second)
			adv += d
			out = append(out, "a")
		case g[0] == "XA" && len(g) == 1:
			cache.m = map[interface{}]interface{}{}
			out = append(out, "xa")
		case g[0] == "X" && len(g) == 2:
			i, err := strconv.Atoi(g[1])
			if err != nil {
				return "bad-op", true
			}
			k, ok := cache.byOp[i]
			had := false
			if ok {
				_, had = cache.m[k]
				delete(cache.m, k)
			}
			out = append(out, "x"+b01(had))
		case g[0] == "CC" && len(g) == 6:
			// CC,<profA>,<profB>,<payload>,<bodyA>,<bodyB>: the SAME question asked at the same moment by
			// a client of profile A and a client of profile B (IDs differ); the upstream answers each URL
			// with its own body, and only when both requests have arrived. Started under the resolver's
			// own mutex like C. Each must be sent to and answered from its own profile's URL.
			pa, pb := string(unhx(g[1])), string(unhx(g[2]))
			payA := unhx(g[3])
			if len(payA) < 12 {
				return "bad-query", true
			}
			payB := append([]byte{}, payA...)
			payB[0] ^= 0x01
			payB[1] ^= 0x01
			qa, errA := query.New(append([]byte{}, payA...), loopback, loopback)
			qb, errB := query.New(payB, loopback, loopback)
			if errA != nil || errB != nil {
				return "bad-query", true
			}
			cache.curMeta = vMeta{qsec: append([]byte{}, qSection(qa.Payload)...), name: qa.Name}
			dns.DOH.URL = ""
			idA := qa.ID
			dns.DOH.GetProfileURL = func(q query.Query) (string, string) {
				if q.ID == idA {
					return cacheProfilePrefix + pa, pa
				}
				return cacheProfilePrefix + pb, pb
			}
			bar := &barrier{n: 2, ch: make(chan struct{})}
			bodies := map[string]string{cacheProfilePrefix + pa: g[4], cacheProfilePrefix + pb: g[5]}
			var results [2]callRes
			var rts [2]*urlRT
			var bufs [2][]byte
			var wg sync.WaitGroup
			unlock := dns.VerifCacheHoldMu()
			for i, q := range []query.Query{qa, qb} {
				i, q := i, q
				rts[i] = &urlRT{bodies: bodies, b: bar}
				bufs[i] = make([]byte, bufLen)
				wg.Add(1)
				go func() {
					defer wg.Done()
					defer func() {
						if x := recover(); x != nil {
							results[i].pnc = x
						}
					}()
					results[i].n, results[i].i, results[i].err = dns.VerifCacheDOH(context.Background(), q, bufs[i], rts[i])
				}()
			}
			time.Sleep(8 * time.Millisecond)
			unlock()
			wg.Wait()
			var toks []string
			for i := 0; i < 2; i++ {
				if results[i].pnc != nil {
					out = append(out, fmt.Sprintf("PANIC:%v", results[i].pnc))
					return strings.ReplaceAll(strings.Join(out, " "), "\n", " "), true
				}
				up := "-"
				if rts[i].log != "" {
					up = rts[i].log
				}
				tr := results[i].i.Transport
				if tr == "" {
					tr = "-"
				}
				n := results[i].n
				if n < 0 {
					n = 0
				}
				if n > bufLen {
					n = bufLen
				}
				al := "-"
				if up == "-" && results[i].err == nil {
					al = "0"
					if cache.lastGet == nil {
						al = "none"
					}
				}
				toks = append(toks, fmt.Sprintf("fc=%s,err=%s,tr=%s,n=%s,up=%s,al=%s",
					b01(results[i].i.FromCache), b01(results[i].err != nil), tr, hx(bufs[i][:n]), up, al))
			}
			// eviction by operation index refers to what the SECOND client (profile B) stored, whichever
			// of the two stored last
			delete(cache.byOp, idx)
			for _, k := range cache.addLog {
				v := reflect.ValueOf(k)
				if v.Kind() == reflect.Struct && v.NumField() > 0 && v.Field(0).Kind() == reflect.String &&
					v.Field(0).String() == cacheProfilePrefix+pb {
					cache.byOp[idx] = k
				}
			}
			out = append(out, "cc,"+strings.Join(toks, "+"))
		case g[0] == "C" && len(g) >= 5:
			// C,<n>,<profilehex>,<payload>,<out…>: n identical DoH queries of one profile in flight
			// together. They are started while the resolver's own mutex is held and released at
			// once (whatever the resolver does under that mutex on entry, all n do it side by
			// side), and the upstream answers only when all n requests have arrived.
			nb, err := strconv.Atoi(g[1])
			if err != nil || nb < 2 || nb > 8 {
				return "bad-op", true
			}
			id := string(unhx(g[2]))
			payload := unhx(g[3])
			o := g[4:]
			if !((len(o) == 1 && (o[0] == "E" || o[0] == "S")) || (len(o) == 5 && o[0] == "B")) {
				return "bad-op", true
			}
			q0, err := query.New(append([]byte{}, payload...), loopback, loopback)
			if err != nil {
				return "bad-query", true
			}
			cache.curMeta = vMeta{qsec: append([]byte{}, qSection(q0.Payload)...), name: q0.Name}
			dns.DOH.URL = ""
			dns.DOH.GetProfileURL = func(query.Query) (string, string) { return cacheProfilePrefix + id, id }
			bar := &barrier{n: nb, ch: make(chan struct{})}
			results := make([]callRes, nb)
			rts := make([]*vRT, nb)
			bufs := make([][]byte, nb)
			var wg sync.WaitGroup
			unlock := dns.VerifCacheHoldMu()
			for i := 0; i < nb; i++ {
				i := i
				rts[i] = &vRT{out: o, lmReal: rt.lmReal}
				bufs[i] = make([]byte, bufLen)
				q, _ := query.New(append([]byte{}, payload...), loopback, loopback)
				wg.Add(1)
				go func() {
					defer wg.Done()
					defer func() {
						if x := recover(); x != nil {
							results[i].pnc = x
						}
					}()
					results[i].n, results[i].i, results[i].err = dns.VerifCacheDOH(context.Background(), q, bufs[i], &barrierRT{rts[i], bar})
				}()
			}
			time.Sleep(8 * time.Millisecond)
			unlock()
			wg.Wait()
			var toks []string
			for i := 0; i < nb; i++ {
				if results[i].pnc != nil {
					out = append(out, fmt.Sprintf("PANIC:%v", results[i].pnc))
					return strings.ReplaceAll(strings.Join(out, " "), "\n", " "), true
				}
				up := "-"
				if rts[i].log != "" {
					up = rts[i].log
				}
				tr := results[i].i.Transport
				if tr == "" {
					tr = "-"
				}
				n := results[i].n
				if n < 0 {
					n = 0
				}
				if n > bufLen {
					n = bufLen
				}
				al := "-"
				if up == "-" && results[i].err == nil {
					switch m := cache.lastGet; {
					case m == nil:
						al = "none"
					case string(m.qsec) == string(cache.curMeta.qsec):
						al = "0"
					case m.name == q0.Name && string(m.qsec[len(m.qsec)-4:]) == string(cache.curMeta.qsec[len(cache.curMeta.qsec)-4:]):
						al = "dot"
					default:
						al = "x"
					}
				}
				toks = append(toks, fmt.Sprintf("fc=%s,err=%s,tr=%s,n=%s,up=%s,al=%s",
					b01(results[i].i.FromCache), b01(results[i].err != nil), tr, hx(bufs[i][:n]), up, al))
			}
			same := true
			for _, t := range toks {
				if t != toks[0] {
					same = false
				}
			}
			if same {
				out = append(out, fmt.Sprintf("c%d,", nb)+toks[0])
			} else {
				out = append(out, "cdiff,"+strings.Join(toks, "+"))
			}
		case (g[0] == "D" && len(g) >= 6) || (g[0] == "N" && len(g) >= 3):
			var payload []byte
			if g[0] == "D" {
				payload = unhx(g[3])
			} else {
				payload = unhx(g[1])
			}
			q, err := query.New(append([]byte{}, payload...), loopback, loopback)
			if err != nil {
				return "bad-query", true
			}
			cache.curMeta = vMeta{qsec: append([]byte{}, qSection(q.Payload)...), name: q.Name}
			buf := make([]byte, bufLen)
			var res callRes
			up := "-"
			if g[0] == "D" {
				id := string(unhx(g[2]))
				switch g[1] {
				case "u":
					dns.DOH.URL = id
					dns.DOH.GetProfileURL = nil
				case "p":
					dns.DOH.URL = ""
					dns.DOH.GetProfileURL = func(query.Query) (string, string) { return cacheProfilePrefix + id, id }
				default:
					return "bad-op", true
				}
				lat, err := strconv.Atoi(g[4])
				if err != nil {
					return "bad-op", true
				}
				o := g[5:]
				if !((len(o) == 1 && (o[0] == "E" || o[0] == "S")) || (len(o) == 5 && o[0] == "B")) {
					return "bad-op", true
				}
				rt.out, rt.lat, rt.log = o, lat, ""
				func() {
					defer func() {
						if x := recover(); x != nil {
							res.pnc = x
						}
					}()
					if viaMgr {
						ep := &endpoint.DOHEndpoint{Hostname: "doh.verif.test"}
						ep.VerifRawRoundTripper(rt)
						dns.Manager = mgrFor(ep)
						res.n, res.i, res.err = dns.Resolve(context.Background(), q, buf)
						return
					}
					res.n, res.i, res.err = dns.VerifCacheDOH(context.Background(), q, buf, rt)
				}()
				if rt.log != "" {
					up = rt.log
					latSum += int64(lat)
				}
			} else {
				addr := srv.pc.LocalAddr().String()
				timeout := 2 * time.Second
				var script, lateScript [][]byte
				switch {
				case g[2] == "X" && len(g) == 3:
					addr = "127.0.0.1:99999"
				case g[2] == "L" && len(g) > 3:
					for _, h := range g[3:] {
						lateScript = append(lateScript, unhx(h))
					}
					timeout = 60 * time.Millisecond
				case g[2] == "G":
					accepted := false
					for _, h := range g[3:] {
						d := unhx(h)
						script = append(script, d)
						if len(d) >= 2 && int(d[0])<<8|int(d[1]) == int(q.ID) {
							accepted = true
						}
					}
					if !accepted {
						timeout = 60 * time.Millisecond
					}
				default:
					return "bad-op", true
				}
				srv.arm(script)
				if lateScript != nil {
					srv.mu.Lock()
					srv.late = lateScript
					srv.mu.Unlock()
				}
				ctx, cancel := context.WithTimeout(context.Background(), timeout)
				func() {
					defer func() {
						if x := recover(); x != nil {
							res.pnc = x
						}
					}()
					if viaMgr {
						dns.Manager = mgrFor(&endpoint.DNSEndpoint{Addr: addr})
						res.n, res.i, res.err = dns.Resolve(ctx, q, buf)
						return
					}
					res.n, res.i, res.err = dns.VerifCacheDNS53(ctx, q, buf, addr)
				}()
				cancel()
				got := srv.received()
				if lateScript != nil && len(got) > 0 {
					// the exchange is over: now the strays leave (and reach whatever socket is still open for them), before
					// the next operation starts
					select {
					case srv.lateGo <- struct{}{}:
					default:
					}
					select {
					case <-srv.lateDone:
					case <-time.After(500 * time.Millisecond):
					}
					time.Sleep(5 * time.Millisecond)
				}
				if len(got) == 0 && res.err != nil && (g[2] == "G" || g[2] == "L") {
					// the request may still be in flight towards the server goroutine
					select {
					case <-srv.seen:
					case <-time.After(200 * time.Millisecond):
					}
					got = srv.received()
				}
				if len(got) == 0 && res.err != nil && (g[2] == "G" || g[2] == "L") {
					// the request never reached the server: the (short) deadline expired before the
					// datagram was sent (loaded machine).  Not an observation of the code: run again.
					return "", false
				}
				if len(got) > 0 {
					up = "N:" + hx(got[0])
				} else if g[2] == "X" && res.err != nil && strings.HasPrefix(strings.TrimPrefix(res.err.Error(), "dns resolve: "), "dial:") {
					up = "N:dial"
				}
			}
			if res.pnc != nil {
				out = append(out, fmt.Sprintf("PANIC:%v", res.pnc))
				return strings.ReplaceAll(strings.Join(out, " "), "\n", " "), true
			}
			tr := res.i.Transport
			if tr == "" {
				tr = "-"
			}
			n := res.n
			if n < 0 {
				n = 0
			}
			if n > len(buf) {
				n = len(buf)
			}
			al := "-"
			if up == "-" && res.err == nil {
				// provenance as seen by the harness-owned Cacher: on whose behalf was the entry
				// that was just read stored?
				switch m := cache.lastGet; {
				case m == nil:
					al = "none"
				case string(m.qsec) == string(cache.curMeta.qsec):
					al = "0"
				case m.name == q.Name && string(m.qsec[len(m.qsec)-4:]) == string(cache.curMeta.qsec[len(cache.curMeta.qsec)-4:]):
					al = "dot"
				default:
					al = "x"
				}
			}
			out = append(out, fmt.Sprintf("fc=%s,err=%s,tr=%s,n=%s,up=%s,al=%s",
				b01(res.i.FromCache), b01(res.err != nil), tr, hx(buf[:n]), up, al))
		default:
			return "bad-op", true
		}
	}
	if time.Now().Unix()-startSec != latSum {
		return "", false
	}
	if len(out) == 0 {
		return "-", true
	}
	return strings.Join(out, " "), true
}

func runCacheLine(line string, srv *udpSrv) string {
	f := strings.Split(line, " ")
	for attempt := 0; attempt < 8; attempt++ {
		if o, ok := execHistory(f, srv); ok {
			return o
		}
	}
	return "UNSTABLE-CLOCK"
}

// ---------------------------------------------------------------- generator
var cacheMarker = []byte{0xa5, 0x5a, 0xc3}

type cqName struct {
	labels []string
	kind   string
}

type cq struct { // a question tuple in use in the current history
	wire  []byte
	typ   int
	class int
}

func flipCase(r *Rng, s string) string {
	b := []byte(s)
	for i := range b {
		if (b[i] >= 'a' && b[i] <= 'z' || b[i] >= 'A' && b[i] <= 'Z') && r.Bool() {
			b[i] ^= 0x20
		}
	}
	return string(b)
}

type cacheGen struct {
	r      *Rng
	c      *Ctx
	serial int
	now    int64
	bufLen int
}

// response to the question section qsec carrying a fresh serial in every RR
func (g *cacheGen) response(id int, qsec []byte, qtype, qclass int) (resp []byte, kind string) {
	r := g.r
	g.serial++
	ser := []byte{byte(g.serial >> 16), byte(g.serial >> 8), byte(g.serial)}
	rdata := append(append([]byte{}, cacheMarker...), ser...)
	ttls := []uint32{0, 1, 1, 2, 3, 5, 5, 10, 30, 30, 60, 300, 300, 3600, 86400, 0x7fffffff, 0xffffffff}
	ttl := func() uint32 { return ttls[r.Intn(len(ttls))] }
	an, ns, ar := 1, 0, 0
	switch r.Intn(10) {
	case 0:
		an = 0
		ns = 1 // NODATA / NXDOMAIN with SOA
	case 1:
		an = 2 + r.Intn(2)
	case 2:
		an, ns = 1, 1
	case 3:
		an = 0 // empty answer: never served from cache
	}
	if r.Chance(25) {
		ar = 1
	}
	opt := r.Chance(30)
	flags := 0x8180
	if an == 0 && r.Bool() {
		flags = 0x8183
	}
	var body []byte
	body = append(body, qsec...)
	ptr := []byte{0xC0, 12}
	for i := 0; i < an; i++ {
		body = append(body, packRR(rrSpec{name: ptr, typ: uint16(qtype), class: uint16(qclass), ttl: ttl(), rdata: rdata})...)
	}
	for i := 0; i < ns; i++ {
		body = append(body, packRR(rrSpec{name: ptr, typ: 6, class: uint16(qclass), ttl: ttl(), rdata: rdata})...)
	}
	optFirst := opt && r.Chance(30)
	arTotal := ar
	if opt {
		arTotal++
	}
	optRR := packRR(rrSpec{name: []byte{0}, typ: 41, class: 1232, ttl: 0x00008000, rdata: nil})
	if optFirst {
		body = append(body, optRR...)
	}
	for i := 0; i < ar; i++ {
		body = append(body, packRR(rrSpec{name: wireName("ns", "example"), typ: 1, class: 1, ttl: ttl(), rdata: rdata})...)
	}
	if opt && !optFirst {
		body = append(body, optRR...)
	}
	kind = "wf"
	hdr := append(be16(id), be16(flags)...)
	hdr = append(hdr, be16(1)...)
	hdr = append(hdr, be16(an)...)
	hdr = append(hdr, be16(ns)...)
	hdr = append(hdr, be16(arTotal)...)
	resp = append(hdr, body...)
	if r.Chance(8) {
		switch r.Intn(5) {
		case 0: // counts promise more records than present: the RR loop breaks at the end
			resp[7] += byte(1 + r.Intn(3))
			kind = "ancount-lie"
		case 1: // cut inside the last record: updateTTL returns 0 after a partial update
			if len(resp) > 14 {
				resp = resp[:len(resp)-1-r.Intn(5)]
			}
			kind = "cut-tail"
		case 2: // shorter than a header
			resp = resp[:2+r.Intn(10)]
			kind = "short"
		case 3: // question count lie
			resp[5] = byte(r.Intn(3))
			kind = "qdcount-lie"
		default: // RR counts whose 16-bit sum wraps
			resp[6], resp[7] = 0xff, 0xff
			resp[8], resp[9] = 0, byte(2)
			kind = "count-wrap"
		}
	}
	return resp, kind
}

func (g *cacheGen) query(q cq, id int) []byte {
	r := g.r
	hdr := append(be16(id), be16(0x0100)...)
	ar := 0
	var add []byte
	if r.Chance(35) {
		ar = 1
		add = packRR(rrSpec{name: []byte{0}, typ: 41, class: uint16(r.Pick([]int{512, 1232, 4096})), ttl: 0, rdata: nil})
	}
	hdr = append(hdr, be16(1)...)
	hdr = append(hdr, be16(0)...)
	hdr = append(hdr, be16(0)...)
	hdr = append(hdr, be16(ar)...)
	p := append(hdr, q.wire...)
	p = append(p, be16(q.typ)...)
	p = append(p, be16(q.class)...)
	return append(p, add...)
}

func (g *cacheGen) history() string {
	r, c := g.r, g.c
	// configuration
	cacheOn := !r.Chance(4)
	g.bufLen = 65535
	if r.Chance(12) {
		g.bufLen = r.Pick([]int{40, 64, 100, 512})
	}
	maxAge, maxTTL := 0, 0
	if r.Chance(30) {
		maxAge = r.Pick([]int{1, 2, 5, 30, 300})
	}
	if r.Chance(30) {
		maxTTL = r.Pick([]int{1, 2, 5, 60, 3600})
	}
	c.Stat(fmt.Sprintf("cfg:cache=%v", cacheOn))
	if g.bufLen != 65535 {
		c.Stat("cfg:small-buf")
	}
	if maxAge > 0 {
		c.Stat("cfg:max-age")
	}
	if maxTTL > 0 {
		c.Stat("cfg:max-ttl")
	}
	// name pool: a few base names, each in several spellings (letter case; one label holding a dot)
	bases := [][]string{{"example", "com"}, {"foo", "com"}, {"www", "example", "com"}, {"a", "b"}, {"host"}, {}}
	var names [][]byte
	dotted := r.Chance(6)
	nb := 1 + r.Intn(3)
	for i := 0; i < nb; i++ {
		b := bases[r.Intn(len(bases))]
		names = append(names, wireName(b...))
		if len(b) > 0 && r.Chance(70) {
			v := make([]string, len(b))
			for j := range b {
				v[j] = flipCase(r, b[j])
			}
			names = append(names, wireName(v...))
		}
		if dotted && len(b) >= 2 {
			// the same text with the first two labels merged into one label that contains '.'
			m := append([]string{b[0] + "." + b[1]}, b[2:]...)
			names = append(names, wireName(m...))
		}
	}
	if dotted {
		c.Stat("hist:dotted-label-spelling")
	}
	types := []int{1, 1, 28, 12, 16}
	classes := []int{1, 1, 1, 3, 255}
	if r.Chance(25) {
		// question tuples that differ in one high bit only (mDNS "unicast response" class bit,
		// types sharing their low byte): they are different questions for the upstream and must be
		// for the cache
		types = []int{1, 1, 257, 28, 28 + 256, 16}
		classes = []int{1, 1, 0x8001, 0x8001, 3, 0x8003, 255}
		c.Stat("hist:high-bit-class-or-type")
	}
	nq := 1 + r.Intn(4)
	var qs []cq
	for i := 0; i < nq; i++ {
		qs = append(qs, cq{wire: names[r.Intn(len(names))], typ: r.Pick(types), class: r.Pick(classes)})
	}
	// the same question under another spelling / type / class, to provoke near-miss keys
	for i := 0; i < 2; i++ {
		q := qs[r.Intn(len(qs))]
		switch r.Intn(3) {
		case 0:
			q.wire = names[r.Intn(len(names))]
		case 1:
			q.typ = r.Pick(types)
		default:
			q.class = r.Pick(classes)
		}
		qs = append(qs, q)
	}
	// resolvers: profiles via GetProfileURL (run.go) and plain URLs, overlapping on purpose
	type target struct{ mode, id string }
	allT := []target{{"p", "abc123"}, {"p", "def456"}, {"p", ""}, {"u", ""}, {"u", "https://0.0.0.0"},
		{"u", "https://dns.nextdns.io/abc123"}, {"u", "https://doh.example/dns-query"}, {"p", "ABC123"}}
	var ts []target
	for i := 0; i < 2+r.Intn(2); i++ {
		ts = append(ts, allT[r.Intn(len(allT))])
	}
	if r.Chance(12) {
		// question tuples whose components READ the same when written one after the other as decimal text
		// (type 1 + name "6example…" / type 16 + name "example…"; class 1 + type 16 / class 11 + type 6;
		// profile abc123 + class 1 / profile abc12 + class 31): different questions for the upstream, and they
		// must be for the cache whatever the key is made of
		c.Stat("hist:decimal-juxtaposition")
		b := [][]string{{"example", "com"}, {"foo", "com"}, {"a", "b"}, {"host"}}[r.Intn(4)]
		fam := [][3]int{{1, 16, 6}, {2, 28, 8}, {1, 12, 2}, {1, 15, 5}, {6, 65, 5}}[r.Intn(5)]
		pre := append([]string{strconv.Itoa(fam[2]) + b[0]}, b[1:]...)
		cl := r.Pick([]int{1, 1, 3})
		qs = []cq{{wire: wireName(pre...), typ: fam[0], class: cl}, {wire: wireName(b...), typ: fam[1], class: cl}}
		if r.Chance(50) {
			qs = append(qs, cq{wire: wireName(b...), typ: 16, class: 1}, cq{wire: wireName(b...), typ: 6, class: 11})
		}
		if r.Chance(50) {
			qs = append(qs, cq{wire: wireName(b...), typ: 1, class: 1}, cq{wire: wireName(b...), typ: 1, class: 31})
			ts = []target{{"p", "abc123"}, {"p", "abc12"}}
		}
		if r.Chance(50) {
			qs[0], qs[1] = qs[1], qs[0]
		}
	}
	protos := []string{"HTTP/2.0", "HTTP/2.0", "HTTP/1.1", "HTTP/3.0"}
	g.now = cacheT0
	g.serial = 0
	nops := 5 + r.Intn(36)
	slowLeft := 0
	if c.tier == "thorough" && r.Chance(1) || c.tier != "thorough" && r.Chance(1) && r.Chance(25) {
		slowLeft = 1 // one operation of this history really waits for a second
		c.Stat("hist:real-latency")
	}
	ops := make([]string, 0, nops)
	var stored []int // indexes of query operations (candidates for eviction)
	advs := []int64{0, 1, 1, 1, 2, 2, 3, 4, 5, 5, 6, 9, 10, 11, 29, 30, 31, 59, 60, 61, 299, 300, 301, 3599, 3600, 86400, 100000}
	if cacheOn && r.Chance(10) {
		// a burst: the first queries of a profile never seen before are in flight together, then
		// the first query of another new profile asks the same question
		q := qs[r.Intn(len(qs))]
		qsec := append(append(append([]byte{}, q.wire...), be16(q.typ)...), be16(q.class)...)
		pa, pb := fmt.Sprintf("%06x", r.Intn(1<<24)), fmt.Sprintf("%06x", r.Intn(1<<24))
		id := r.Intn(65536)
		body, _ := g.response(id, qsec, q.typ, q.class)
		ops = append(ops, fmt.Sprintf("C,%d,%s,%s,B,%s,0,-,HTTP/2.0", 2+r.Intn(3), hx([]byte(pa)), hx(g.query(q, id)), hx(body)))
		stored = append(stored, len(ops)-1)
		id2 := r.Intn(65536)
		body2, _ := g.response(id2, qsec, q.typ, q.class)
		ops = append(ops, fmt.Sprintf("D,p,%s,%s,0,B,%s,0,-,HTTP/2.0", hx([]byte(pb)), hx(g.query(q, id2)), hx(body2)))
		stored = append(stored, len(ops)-1)
		ts = append(ts, target{"p", pa}, target{"p", pb})
		c.Stat("op:burst")
		if r.Chance(60) {
			// and two clients of two further new profiles ask that question at the same moment
			pc, pd := fmt.Sprintf("%06x", r.Intn(1<<24)), fmt.Sprintf("%06x", r.Intn(1<<24))
			if pc != pd {
				id3 := r.Intn(65536)
				b3, _ := g.response(id3, qsec, q.typ, q.class)
				b4, _ := g.response(id3^0x0101, qsec, q.typ, q.class)
				ops = append(ops, fmt.Sprintf("CC,%s,%s,%s,%s,%s", hx([]byte(pc)), hx([]byte(pd)), hx(g.query(q, id3)), hx(b3), hx(b4)))
				stored = append(stored, len(ops)-1)
				ts = append(ts, target{"p", pc}, target{"p", pd})
				c.Stat("op:pair-two-profiles")
			}
		}
	}
	for i := 0; i < nops; i++ {
		k := r.Intn(100)
		switch {
		case k < 50: // DoH
			q := qs[r.Intn(len(qs))]
			t := ts[r.Intn(len(ts))]
			id := r.Intn(65536)
			p := g.query(q, id)
			qsec := append(append(append([]byte{}, q.wire...), be16(q.typ)...), be16(q.class)...)
			lat := 0
			var o string
			switch x := r.Intn(100); {
			case x < 5:
				o = "E"
				c.Stat("doh:transport-error")
			case x < 9:
				o = "S"
				c.Stat("doh:status")
			default:
				rid := id
				if r.Chance(10) {
					rid = r.Intn(65536) // DoH does not check the ID
				}
				body, kind := g.response(rid, qsec, q.typ, q.class)
				c.Stat("resp:" + kind)
				if r.Chance(3) {
					body = nil
					c.Stat("doh:empty-body")
				}
				rerr := "0"
				if r.Chance(4) {
					rerr = "1"
					c.Stat("doh:read-error")
				}
				if len(body) >= g.bufLen {
					c.Stat("doh:body-fills-buffer")
				}
				lm := "-"
				switch y := r.Intn(100); {
				case y < 30:
					d := []int64{-100000, -3600, -30, -5, -2, -1, 0, 0, 1, 2, 5}[r.Intn(11)]
					lm = fmt.Sprintf("s%d", g.now+d)
					c.Stat("lm:valid")
				case y < 35:
					lm = "x"
					c.Stat("lm:unparsable")
				}
				o = fmt.Sprintf("B,%s,%s,%s,%s", hx(body), rerr, lm, protos[r.Intn(len(protos))])
			}
			if slowLeft > 0 && r.Chance(20) {
				lat = 1
				slowLeft--
			}
			if cacheOn && t.mode == "p" && lat == 0 && r.Chance(7) && (o == "E" || o == "S" || strings.HasSuffix(o, ",-,HTTP/2.0") || strings.Contains(o, ",-,HTTP/")) && !strings.Contains(o, ",s1") {
				// the same query several times at the same moment, on a profile with a history: a
				// fresh entry serves them all, an expired one is refreshed by all of them side by side
				f := strings.Split(o, ",")
				if f[0] != "B" || (len(f) == 5 && f[3] == "-") {
					ops = append(ops, fmt.Sprintf("C,%d,%s,%s,%s", 2+r.Intn(3), hx([]byte(t.id)), hx(p), o))
					stored = append(stored, len(ops)-1)
					c.Stat("op:burst-midhistory")
					continue
				}
			}
			ops = append(ops, fmt.Sprintf("D,%s,%s,%s,%d,%s", t.mode, hx([]byte(t.id)), hx(p), lat, o))
			stored = append(stored, len(ops)-1)
			// whether the upstream is really contacted is up to the code; the generator's clock
			// only feeds later last-modified choices, so an approximation is enough
			c.Stat("op:doh")
		case k < 75: // DNS53
			q := qs[r.Intn(len(qs))]
			id := r.Intn(65536)
			p := g.query(q, id)
			qsec := append(append(append([]byte{}, q.wire...), be16(q.typ)...), be16(q.class)...)
			switch x := r.Intn(100); {
			case x < 4:
				ops = append(ops, fmt.Sprintf("N,%s,X", hx(p)))
				c.Stat("dns53:dial-error")
			case x < 5 && len(qs) > 1:
				// the answer comes after the exchange has ended (a stray), and the NEXT plain-DNS query - another question -
				// carries the same ID: it must get, and the cache must store, its own answer
				b, _ := g.response(id, qsec, q.typ, q.class)
				ops = append(ops, strings.Join([]string{"N", hx(p), "L", hx(b)}, ","))
				stored = append(stored, len(ops)-1)
				q2 := qs[r.Intn(len(qs))]
				for t := 0; t < 8 && string(q2.wire) == string(q.wire); t++ {
					q2 = qs[r.Intn(len(qs))]
				}
				p2 := g.query(q2, id)
				qsec2 := append(append(append([]byte{}, q2.wire...), be16(q2.typ)...), be16(q2.class)...)
				b2, _ := g.response(id, qsec2, q2.typ, q2.class)
				ops = append(ops, strings.Join([]string{"N", hx(p2), "G", hx(b2)}, ","))
				c.Stat("dns53:stray-then-same-id")
			case x < 7:
				// nothing acceptable arrives
				var ds []string
				if r.Bool() {
					b, _ := g.response((id+1)%65536, qsec, q.typ, q.class)
					ds = append(ds, hx(b))
				}
				if r.Bool() {
					ds = append(ds, hx([]byte{byte(id >> 8)}))
				}
				ops = append(ops, strings.Join(append([]string{"N", hx(p), "G"}, ds...), ","))
				c.Stat("dns53:timeout")
			default:
				var ds []string
				if r.Chance(15) {
					b, _ := g.response((id+1+r.Intn(100))%65536, qsec, q.typ, q.class)
					ds = append(ds, hx(b))
					c.Stat("dns53:stale-id-first")
				}
				if r.Chance(8) {
					ds = append(ds, hx(r.Bytes(r.Intn(2))))
					c.Stat("dns53:runt-first")
				}
				b, kind := g.response(id, qsec, q.typ, q.class)
				c.Stat("resp:" + kind)
				if len(b) > g.bufLen {
					c.Stat("dns53:datagram-cut")
				}
				ds = append(ds, hx(b))
				ops = append(ops, strings.Join(append([]string{"N", hx(p), "G"}, ds...), ","))
			}
			stored = append(stored, len(ops)-1)
			c.Stat("op:dns53")
		case k < 92:
			d := advs[r.Intn(len(advs))]
			g.now += d
			ops = append(ops, fmt.Sprintf("A,%d", d))
			c.Stat("op:advance")
		case k < 99:
			if len(stored) > 0 {
				ops = append(ops, fmt.Sprintf("X,%d", stored[r.Intn(len(stored))]))
			} else {
				ops = append(ops, "X,0")
			}
			c.Stat("op:evict")
		default:
			ops = append(ops, "XA")
			c.Stat("op:evict-all")
		}
	}
	on := b01(cacheOn)
	if cacheOn && r.Chance(35) {
		on = "2" // through DNS.Resolve and the endpoint manager, switching between DoH and the plain-DNS fallback
		c.Stat("mode:via-manager")
	}
	return fmt.Sprintf("cache %s %d %d %d %s", on, g.bufLen, maxAge, maxTTL, strings.Join(ops, " "))
}

// newCacheRng: NewRng(seed) starts the splitmix64 counter at seed*gamma, so the stream of seed s+k is
// the stream of seed s shifted by k draws and generators that consume a variable number of draws per
// case re-synchronise (shards seed, seed+1000, … produced mostly identical histories).  The seed is
// therefore scrambled first.
func newCacheRng(seed uint64) *Rng {
	z := seed ^ 0xC06C06C06C06C06
	z = (z ^ (z >> 30)) * 0xBF58476D1CE4E5B9
	z = (z ^ (z >> 27)) * 0x94D049BB133111EB
	z ^= z >> 31
	return &Rng{s: z*0xD1342543DE82EF95 + 0x2545F4914F6CDD1D}
}

func init() {
	areas["cache"] = func(c *Ctx) error {
		srv, err := newUDPSrv()
		if err != nil {
			return err
		}
		defer srv.pc.Close()
		emit := func(line string) {
			// a history that does not come back (queries waiting on each other inside the resolver) would hold the whole
			// shard until the area's time limit: after 40 s the case is recorded as the one that was running and the process
			// ends - the engine reports it with that case as the replay
			done := make(chan string, 1)
			go func() { done <- runCacheLine(line, srv) }()
			var impl string
			select {
			case impl = <-done:
			case <-time.After(40 * time.Second):
				c.Begin(line)
				c.Close()
				fmt.Fprintln(os.Stderr, "cache history did not return within 40 s (queries blocked inside the resolver)")
				os.Exit(4)
			}
			c.Emit(line, impl)
			for _, t := range strings.Split(impl, " ") {
				switch {
				case strings.Contains(t, ",up=-,") && strings.HasPrefix(t, "fc=1,err=0"):
					c.Stat("impl:served-from-cache")
				case strings.HasPrefix(t, "fc=1,err=0"):
					c.Stat("impl:other")
				case strings.HasPrefix(t, "fc=1,err=1"):
					c.Stat("impl:stale-then-upstream-failed")
				case strings.HasPrefix(t, "fc=0,err=1"):
					c.Stat("impl:upstream-failed")
				case strings.HasPrefix(t, "fc=0,err=0"):
					c.Stat("impl:fetched")
				case strings.HasPrefix(t, "PANIC"), t == "UNSTABLE-CLOCK":
					c.Stat("impl:" + strings.SplitN(t, ":", 2)[0])
				}
				if strings.HasSuffix(t, ",al=dot") {
					c.Stat("impl:dotted-label-alias-hit")
				}
			}
		}
		if ls := replayLines(); ls != nil {
			for _, l := range ls {
				if strings.HasPrefix(l, "cache ") {
					emit(l)
				}
			}
			return nil
		}
		g := &cacheGen{r: newCacheRng(c.seed), c: c}
		// a shard normally takes well under a minute (quick) / two minutes (thorough).  Code under test that makes every
		// history crawl (queries waiting on timeouts inside the resolver) would otherwise hold the shard until the area's
		// time limit: stop generating after the budget and let the histories that did run be compared.
		budget := 4 * time.Minute
		if c.tier == "thorough" {
			budget = 15 * time.Minute
		}
		start := time.Now()
		for i := 0; i < c.n; i++ {
			if time.Since(start) > budget {
				c.Stat("stopped-early:histories-crawl")
				c.notes["stopped_early"] = map[string]int64{"histories_run": int64(i), "of": int64(c.n)}
				break
			}
			emit(g.history())
		}
		return nil
	}
}
