package main

import (
	"context"
	"fmt"
	"os"
	"path/filepath"
	"strconv"
	"strings"
	"syscall"
	"time"

	"github.com/nextdns/nextdns/discovery"
	"github.com/nextdns/nextdns/proxy"
	"github.com/nextdns/nextdns/resolver"
	"github.com/nextdns/nextdns/resolver/query"
)

// hrefresh area (C12): a hosts file is loaded, rewritten and refreshed; the re-read may fail
// (a line longer than bufio.Scanner's 64 KiB limit, the path replaced by a directory). Names are
// then queried through the real Proxy.Resolve with a real discovery.Hosts as LocalResolver and a
// counting upstream: L = answered locally, U = sent upstream.
//
//   hrefresh <ok|long:<k>|dir|emfile> <names of file 1> <names of file 2> <pool>
// p1: after loading file 1; p2: after the rewrite and a refresh (long / dir: the re-read fails for good; emfile: it fails
// this once because the file cannot be opened); p3: after one more refresh with the file untouched since.

type countUp struct{ n int }

func (c *countUp) Resolve(ctx context.Context, q query.Query, buf []byte) (int, resolver.ResolveInfo, error) {
	c.n++
	return synthResp(q.ID, 40, 3, buf), resolver.ResolveInfo{}, nil
}

var hrPool = []string{"nas.lan.", "printer.lan.", "cam.lan.", "tv.lan.", "door.lan."}

func hostsText(names []string, longAfter int) string {
	var sb strings.Builder
	sb.WriteString("# generated\n")
	for i, n := range names {
		if i == longAfter {
			sb.WriteString("10.9.9.9 ")
			sb.WriteString(strings.Repeat("x", 70000))
			sb.WriteString("\n")
		}
		fmt.Fprintf(&sb, "10.0.0.%d %s\n", 10+i, strings.TrimSuffix(n, "."))
	}
	if longAfter >= len(names) {
		sb.WriteString("10.9.9.9 " + strings.Repeat("x", 70000) + "\n")
	}
	return sb.String()
}

func namesCSV(ns []string) string {
	if len(ns) == 0 {
		return "-"
	}
	var xs []string
	for _, n := range ns {
		xs = append(xs, hx([]byte(n)))
	}
	return strings.Join(xs, ",")
}

func runHRefresh(dir, variant string, n1, n2, pool []string) string {
	path := filepath.Join(dir, "hosts")
	_ = os.RemoveAll(path)
	if err := os.WriteFile(path, []byte(hostsText(n1, -1)), 0644); err != nil {
		return "ERR " + err.Error()
	}
	discovery.VerifSetHostsFiles([]string{path})
	h := &discovery.Hosts{}
	up := &countUp{}
	p := proxy.Proxy{LocalResolver: discovery.Resolver{h}, Upstream: up}
	ask := func() string {
		var sb strings.Builder
		for _, n := range pool {
			body := wireNameFromDotted(n)
			msg := append([]byte{0, 7, 1, 0, 0, 1, 0, 0, 0, 0, 0, 0}, body...)
			msg = append(msg, 0, 1, 0, 1)
			q, err := query.New(msg, loopback, loopback)
			if err != nil {
				return "ERR " + err.Error()
			}
			before := up.n
			buf := make([]byte, 65535)
			_, _, _ = p.Resolve(context.Background(), q, buf)
			if up.n == before {
				sb.WriteByte('L')
			} else {
				sb.WriteByte('U')
			}
		}
		return sb.String()
	}
	p1 := ask()
	// rewrite (size and mtime change) and force the refresh
	switch {
	case variant == "ok":
		_ = os.WriteFile(path, []byte(hostsText(n2, -1)+"# v2\n"), 0644)
	case variant == "dir":
		_ = os.Remove(path)
		_ = os.Mkdir(path, 0755)
	case strings.HasPrefix(variant, "long:"):
		k, _ := strconv.Atoi(variant[5:])
		_ = os.WriteFile(path, []byte(hostsText(n2, k)), 0644)
	case variant == "emfile":
		// the new file is fine but cannot be OPENED at the moment of the refresh (the process is out of file descriptors);
		// its stat works. The fault is gone at the next refresh.
		_ = os.WriteFile(path, []byte(hostsText(n2, -1)+"# v2\n"), 0644)
	}
	_ = os.Chtimes(path, time.Now(), time.Now().Add(-time.Hour))
	h.VerifExpire()
	var old syscall.Rlimit
	if variant == "emfile" {
		_ = syscall.Getrlimit(syscall.RLIMIT_NOFILE, &old)
		_ = syscall.Setrlimit(syscall.RLIMIT_NOFILE, &syscall.Rlimit{Cur: 0, Max: old.Max})
	}
	p2 := ask()
	if variant == "emfile" {
		_ = syscall.Setrlimit(syscall.RLIMIT_NOFILE, &old)
	}
	// the next refresh (5 s later in real life): nothing about the file has changed since the last one
	h.VerifExpire()
	p3 := ask()
	return "p1=" + p1 + " p2=" + p2 + " p3=" + p3
}


// lrefresh <variant> <names 1> <names 2> <pool>: the same history for the DHCP lease source (dnsmasq format): which pool
// names the source's own LookupHost finds (L) or not (U) after loading file 1, after the rewrite + refresh, and one refresh
// later. Every lookup has three seconds: a source that never comes back (a lock left held on the read-error path) is STUCK.
func leaseText(names []string, longAfter int) string {
	var sb strings.Builder
	for i, n := range names {
		if i == longAfter {
			sb.WriteString("1700000000 aa:bb:cc:dd:ee:ff 10.9.9.9 " + strings.Repeat("x", 70000) + " *\n")
		}
		fmt.Fprintf(&sb, "1700000000 aa:bb:cc:dd:ee:%02x 10.0.0.%d %s *\n", 16+i, 10+i, strings.TrimSuffix(n, "."))
	}
	if longAfter >= len(names) {
		sb.WriteString("1700000000 aa:bb:cc:dd:ee:ff 10.9.9.9 " + strings.Repeat("x", 70000) + " *\n")
	}
	return sb.String()
}

func runLRefresh(dir, variant string, n1, n2, pool []string) string {
	path := filepath.Join(dir, "dnsmasq.leases")
	_ = os.RemoveAll(path)
	if err := os.WriteFile(path, []byte(leaseText(n1, -1)), 0644); err != nil {
		return "ERR " + err.Error()
	}
	discovery.VerifSetLeaseFile(path, "dnsmasq")
	d := &discovery.DHCP{}
	ask := func() string {
		res := make(chan string, 1)
		go func() {
			var sb strings.Builder
			for _, n := range pool {
				if len(d.LookupHost(n)) > 0 {
					sb.WriteByte('L')
				} else {
					sb.WriteByte('U')
				}
			}
			res <- sb.String()
		}()
		select {
		case r := <-res:
			return r
		case <-time.After(3 * time.Second):
			return "STUCK"
		}
	}
	p1 := ask()
	switch {
	case variant == "ok" || variant == "emfile":
		_ = os.WriteFile(path, []byte(leaseText(n2, -1)+"# v2\n"), 0644)
	case variant == "dir":
		_ = os.Remove(path)
		_ = os.Mkdir(path, 0755)
	case strings.HasPrefix(variant, "long:"):
		k, _ := strconv.Atoi(variant[5:])
		_ = os.WriteFile(path, []byte(leaseText(n2, k)), 0644)
	}
	_ = os.Chtimes(path, time.Now(), time.Now().Add(-time.Hour))
	d.VerifExpire()
	var old syscall.Rlimit
	if variant == "emfile" {
		_ = syscall.Getrlimit(syscall.RLIMIT_NOFILE, &old)
		_ = syscall.Setrlimit(syscall.RLIMIT_NOFILE, &syscall.Rlimit{Cur: 0, Max: old.Max})
	}
	p2 := ask()
	if variant == "emfile" {
		_ = syscall.Setrlimit(syscall.RLIMIT_NOFILE, &old)
	}
	if p2 == "STUCK" {
		return "p1=" + p1 + " p2=STUCK p3=STUCK"
	}
	d.VerifExpire()
	p3 := ask()
	return "p1=" + p1 + " p2=" + p2 + " p3=" + p3
}

func wireNameFromDotted(n string) []byte {
	return wireName(strings.Split(strings.TrimSuffix(n, "."), ".")...)
}

func init() {
	areas["hrefresh"] = func(c *Ctx) error {
		dir, err := os.MkdirTemp("", "nvhr")
		if err != nil {
			return err
		}
		defer os.RemoveAll(dir)
		r := NewRng(c.seed)
		one := func(variant string, n1, n2, pool []string) {
			out := runHRefresh(dir, variant, n1, n2, pool)
			c.Emit("hrefresh "+variant+" "+namesCSV(n1)+" "+namesCSV(n2)+" "+namesCSV(pool), out)
			c.Stat("variant:" + strings.SplitN(variant, ":", 2)[0])
		}
		lone := func(variant string, n1, n2, pool []string) {
			out := runLRefresh(dir, variant, n1, n2, pool)
			c.Emit("lrefresh "+variant+" "+namesCSV(n1)+" "+namesCSV(n2)+" "+namesCSV(pool), out)
			c.Stat("lease-variant:" + strings.SplitN(variant, ":", 2)[0])
		}
		dec := func(s string) []string {
			if s == "-" {
				return nil
			}
			var ns []string
			for _, x := range strings.Split(s, ",") {
				ns = append(ns, string(unhx(x)))
			}
			return ns
		}
		if ls := replayLines(); ls != nil {
			for _, l := range ls {
				f := strings.Fields(l)
				if len(f) == 5 && f[0] == "hrefresh" {
					one(f[1], dec(f[2]), dec(f[3]), dec(f[4]))
				}
				if len(f) == 5 && f[0] == "lrefresh" {
					lone(f[1], dec(f[2]), dec(f[3]), dec(f[4]))
				}
			}
			return nil
		}
		sub := func() []string {
			var ns []string
			for _, n := range hrPool {
				if r.Chance(60) {
					ns = append(ns, n)
				}
			}
			return ns
		}
		for i := 0; i < c.n; i++ {
			n1, n2 := sub(), sub()
			variant := "ok"
			switch r.Intn(6) {
			case 4, 5:
				variant = "emfile"
			case 1:
				variant = "dir"
			case 2, 3:
				variant = "long:" + strconv.Itoa(r.Intn(len(n2)+1))
			}
			if i%3 == 2 {
				lone(variant, n1, n2, hrPool)
				continue
			}
			one(variant, n1, n2, hrPool)
		}
		return nil
	}
}
