package main

import (
	"bytes"
	"context"
	"fmt"
	"io"
	"net"
	"net/http"
	"strconv"
	"strings"
	"sync"
	"time"

	"github.com/nextdns/nextdns/resolver"
	"github.com/nextdns/nextdns/resolver/endpoint"
	"github.com/nextdns/nextdns/resolver/query"
)

// ecs area (C13):
//   encq …   a structured query is built with the repository's own dnsmessage.Builder (ties
//            NV.Spec.encode to the code's notion of a query) and run through the real query.New
//   post …   the payload is parsed by query.New and handed to the real DOH.resolve with a
//            recording http.RoundTripper; the canonical output is the POSTed body

type ecsRecRT struct{ body []byte }

func (t *ecsRecRT) RoundTrip(req *http.Request) (*http.Response, error) {
	t.body, _ = io.ReadAll(req.Body)
	// a minimal NOERROR answer carrying the query id
	resp := []byte{0, 0, 0x81, 0x80, 0, 0, 0, 0, 0, 0, 0, 0}
	if len(t.body) >= 2 {
		resp[0], resp[1] = t.body[0], t.body[1]
	}
	return &http.Response{StatusCode: 200, Proto: "HTTP/2.0", Header: http.Header{},
		Body: io.NopCloser(bytes.NewReader(resp)), Request: req}, nil
}

func runPost(payload []byte) string {
	p := append([]byte{}, payload...)
	done := make(chan string, 1)
	go func() {
		defer func() {
			if x := recover(); x != nil {
				done <- fmt.Sprintf("PANIC %v", x)
			}
		}()
		// proxy/udp.go and tcp.go log a parse error and resolve anyway
		q, _ := query.New(p, transportPeer(payload), loopback)
		rt := &ecsRecRT{}
		d := &resolver.DOH{URL: "https://doh.invalid/x"}
		ctx, cancel := context.WithTimeout(context.Background(), 2*time.Second)
		defer cancel()
		buf := make([]byte, 65535)
		if _, _, err := resolver.VerifDOHResolve(d, ctx, q, buf, rt); err != nil {
			done <- "ERR " + err.Error()
			return
		}
		done <- hx(rt.body)
	}()
	select {
	case s := <-done:
		return s
	case <-time.After(3 * time.Second):
		return "TIMEOUT"
	}
}

// post53 <payload>: the same over the plain-DNS path - query.New, then the real resolver.DNS -> manager -> DNS53.resolve to a
// loopback UDP server; the canonical output is the datagram that server received.
type ecs53 struct {
	pc   net.PacketConn
	res  *resolver.DNS
	mu   sync.Mutex
	last []byte
}

var ecs53sys *ecs53

func ecs53Start() *ecs53 {
	if ecs53sys != nil {
		return ecs53sys
	}
	pc, err := net.ListenPacket("udp", "127.0.0.1:0")
	if err != nil {
		return nil
	}
	s := &ecs53{pc: pc}
	go func() {
		buf := make([]byte, 65535)
		for {
			n, addr, err := pc.ReadFrom(buf)
			if err != nil {
				return
			}
			s.mu.Lock()
			s.last = append([]byte{}, buf[:n]...)
			s.mu.Unlock()
			rep := []byte{0, 0, 0x81, 0x80, 0, 0, 0, 0, 0, 0, 0, 0}
			if n >= 2 {
				rep[0], rep[1] = buf[0], buf[1]
			}
			_, _ = pc.WriteTo(rep, addr)
		}
	}()
	ep := &endpoint.DNSEndpoint{Addr: pc.LocalAddr().String()}
	s.res = &resolver.DNS{Manager: &endpoint.Manager{
		Providers:    []endpoint.Provider{endpoint.StaticProvider([]endpoint.Endpoint{ep})},
		InitEndpoint: ep,
		EndpointTester: func(endpoint.Endpoint) endpoint.Tester {
			return func(ctx context.Context, testDomain string) error { return nil }
		},
	}}
	ecs53sys = s
	return s
}

func runPost53(payload []byte) string {
	s := ecs53Start()
	if s == nil {
		return "ERR no loopback upstream"
	}
	p := append([]byte{}, payload...)
	done := make(chan string, 1)
	go func() {
		defer func() {
			if x := recover(); x != nil {
				done <- fmt.Sprintf("PANIC %v", x)
			}
		}()
		q, _ := query.New(p, transportPeer(payload), loopback)
		s.mu.Lock()
		s.last = nil
		s.mu.Unlock()
		ctx, cancel := context.WithTimeout(context.Background(), 2*time.Second)
		defer cancel()
		buf := make([]byte, 65535)
		ctx2, cancel2 := context.WithTimeout(ctx, 50*time.Millisecond)
		defer cancel2()
		_, _, err := s.res.Resolve(ctx2, q, buf)
		s.mu.Lock()
		defer s.mu.Unlock()
		if s.last == nil && err != nil {
			done <- "ERR " + err.Error()
			return
		}
		// (an unparsable message has no ID for the answer to match: the exchange fails, the datagram was sent all the same)
		done <- hx(s.last)
	}()
	select {
	case r := <-done:
		return r
	case <-time.After(3 * time.Second):
		return "TIMEOUT"
	}
}

type encCase struct {
	id, flags   int
	qname       []string
	qtype, qcls int
	pre         []query.VerifRR
	preLabels   [][]string
	udp         int
	ttl         uint32
	opts        []query.VerifOpt
}

func labelsTok(ls []string) string {
	if len(ls) == 0 {
		return "-"
	}
	out := make([]string, len(ls))
	for i, l := range ls {
		out[i] = hx([]byte(l))
	}
	return strings.Join(out, ".")
}

func dottedName(ls []string) string {
	if len(ls) == 0 {
		return "."
	}
	return strings.Join(ls, ".") + "."
}

func (e *encCase) line() string {
	pre := "-"
	if len(e.pre) > 0 {
		var ps []string
		for i, r := range e.pre {
			ps = append(ps, fmt.Sprintf("%s/%d/%d/%d/%s", labelsTok(e.preLabels[i]), r.Type, r.Class, r.TTL, hx(wireRData(r))))
		}
		pre = strings.Join(ps, ",")
	}
	opts := "-"
	if len(e.opts) > 0 {
		var os []string
		for _, o := range e.opts {
			os = append(os, fmt.Sprintf("%d:%s", o.Code, hx(o.Data)))
		}
		opts = strings.Join(os, ",")
	}
	return fmt.Sprintf("encq %d %d %s %d %d %s %d %d %s", e.id, e.flags, labelsTok(e.qname), e.qtype, e.qcls, pre, e.udp, e.ttl, opts)
}

// wireRData is the RDATA the Builder writes for a VerifRR (TXT: one length-prefixed string).
func wireRData(r query.VerifRR) []byte {
	if r.Type == 16 {
		return append([]byte{byte(len(r.RData))}, r.RData...)
	}
	return r.RData
}

// ordLabel: an ordinary label, 1..63 bytes, any byte except '.' (the Builder splits at dots)
func (r *Rng) ordLabel() string {
	switch r.Intn(12) {
	case 0:
		n := 1 + r.Intn(63)
		b := make([]byte, n)
		for i := range b {
			b[i] = byte('a' + r.Intn(26))
		}
		return string(b)
	case 1:
		b := r.Bytes(1 + r.Intn(6))
		for i := range b {
			if b[i] == '.' {
				b[i] = '-'
			}
		}
		return string(b)
	case 2:
		return strings.Repeat("x", 63)
	}
	return labelPool[r.Intn(len(labelPool))]
}

func (r *Rng) ordName() []string {
	for {
		n := r.Intn(5)
		if r.Chance(3) {
			n = 4 + r.Intn(4)
		}
		ls := make([]string, n)
		tot := 0
		for i := range ls {
			ls[i] = r.ordLabel()
			tot += len(ls[i]) + 1
		}
		if tot <= 255 {
			return ls
		}
	}
}

// ecsOptC13: client-subnet options over the whole shape space, with boundary lengths.
func (r *Rng) ecsOptC13() (query.VerifOpt, string) {
	fam := byte(r.Pick([]int{1, 1, 1, 2, 2, 2, 0, 3, 255}))
	var n int
	switch r.Intn(10) {
	case 0:
		n = r.Intn(8) // short
	case 1:
		n = 8
	case 2:
		n = 20
	case 3:
		n = r.Pick([]int{19, 21, 254, 255})
	case 4:
		n = r.Pick([]int{256, 257, 263, 264, 276, 300, 511, 512, 520})
	default:
		n = 8 + r.Intn(16)
	}
	d := r.Bytes(n)
	if n > 1 {
		d[0] = 0
		d[1] = fam
	}
	if n > 2 {
		d[2] = byte(r.Pick([]int{32, 32, 128, 128, 24, 56, 0, 31, 127}))
	}
	if n > 3 {
		d[3] = 0
	}
	kind := fmt.Sprintf("ecs:fam%d", fam)
	if n < 8 {
		kind = "ecs:short"
	} else if n > 255 {
		kind = "ecs:len>255"
	}
	return query.VerifOpt{Code: 8, Data: d}, kind
}

func (r *Rng) optC13() (query.VerifOpt, string) {
	switch r.Intn(10) {
	case 0, 1, 2, 3, 4:
		return r.ecsOptC13()
	case 5:
		return query.VerifOpt{Code: 0xfde9, Data: r.Bytes(6)}, "mac"
	case 6:
		return query.VerifOpt{Code: 10, Data: r.Bytes(8 + r.Intn(25))}, "cookie"
	case 7:
		return query.VerifOpt{Code: uint16(r.Intn(65536)), Data: r.Bytes(r.Intn(40))}, "other"
	case 8:
		return query.VerifOpt{Code: 0xffff, Data: r.Bytes(r.Intn(12))}, "code-ffff"
	default:
		return query.VerifOpt{Code: 12, Data: make([]byte, r.Pick([]int{0, 1, 100, 255, 256, 400}))}, "padding"
	}
}

func (r *Rng) genEnc(c *Ctx) encCase {
	var e encCase
	e.id = r.Intn(65536)
	e.flags = 0x0100
	if r.Chance(20) {
		e.flags = r.Intn(65536) &^ 0x8000
	}
	e.qname = r.ordName()
	e.qtype = r.Pick(qtypes)
	e.qcls = r.Pick(qclasses)
	if r.Chance(25) {
		for i := 0; i < 1+r.Intn(3); i++ {
			ls := r.ordName()
			rr := query.VerifRR{Name: dottedName(ls), Class: uint16(r.Pick(qclasses)), TTL: r.ttl()}
			switch r.Intn(3) {
			case 0:
				rr.Type, rr.RData = 1, r.Bytes(4)
			case 1:
				rr.Type, rr.RData = 28, r.Bytes(16)
			default:
				rr.Type, rr.RData = 16, r.Bytes(r.Intn(40))
			}
			e.pre = append(e.pre, rr)
			e.preLabels = append(e.preLabels, ls)
		}
		c.Stat("enc:pre-opt-additional")
	}
	e.udp = r.Pick([]int{0, 512, 1232, 4096, 65535})
	e.ttl = uint32(r.Intn(2)) << 15
	if r.Chance(10) {
		e.ttl = uint32(r.U64())
	}
	n := r.Pick([]int{0, 1, 1, 1, 2, 2, 3, 4, 6})
	for i := 0; i < n; i++ {
		o, kind := r.optC13()
		e.opts = append(e.opts, o)
		c.Stat("opt:" + kind)
	}
	if r.Chance(12) {
		// a DECOY: the byte-for-byte wire form (code, length, data) of one of the message's ECS options also occurs
		// EARLIER in the message - as the data of an opaque option in front of it, or inside a TXT record before the OPT
		// record. The option must be neutralised where it IS, and nothing else may change.
		for i, o := range e.opts {
			if o.Code != 8 || len(o.Data) > 200 {
				continue
			}
			wire := append([]byte{0, 8, byte(len(o.Data) >> 8), byte(len(o.Data))}, o.Data...)
			if r.Bool() {
				decoy := query.VerifOpt{Code: uint16(65001 + r.Intn(500)), Data: wire}
				e.opts = append(e.opts[:i], append([]query.VerifOpt{decoy}, e.opts[i:]...)...)
				c.Stat("enc:decoy-option")
			} else {
				ls := r.ordName()
				e.pre = append(e.pre, query.VerifRR{Name: dottedName(ls), Type: 16, Class: 1, TTL: 60, RData: append([]byte{byte(len(wire))}, wire...)})
				e.preLabels = append(e.preLabels, ls)
				c.Stat("enc:decoy-txt-record")
			}
			break
		}
	}
	c.Stat(fmt.Sprintf("enc:nopts=%d", len(e.opts)))
	return e
}

func parseLabelsTok(s string) ([]string, bool) {
	if s == "-" {
		return nil, true
	}
	var ls []string
	for _, p := range strings.Split(s, ".") {
		if p == "" || p == "-" {
			return nil, false
		}
		ls = append(ls, string(unhx(p)))
	}
	return ls, true
}

// runEnc: Builder bytes, then the real query.New on them.
func runEnc(f []string) string {
	if len(f) != 10 {
		return "bad-op"
	}
	num := func(s string) int { n, _ := strconv.ParseUint(s, 10, 32); return int(n) }
	qn, ok := parseLabelsTok(f[3])
	if !ok {
		return "bad-op"
	}
	var pre []query.VerifRR
	if f[6] != "-" {
		for _, p := range strings.Split(f[6], ",") {
			x := strings.Split(p, "/")
			if len(x) != 5 {
				return "bad-op"
			}
			ls, ok := parseLabelsTok(x[0])
			if !ok {
				return "bad-op"
			}
			rd := unhx(x[4])
			t := num(x[1])
			if t == 16 {
				if len(rd) == 0 || int(rd[0]) != len(rd)-1 {
					return "bad-op"
				}
				rd = rd[1:]
			}
			pre = append(pre, query.VerifRR{Name: dottedName(ls), Type: uint16(t), Class: uint16(num(x[2])), TTL: uint32(num(x[3])), RData: rd})
		}
	}
	var opts []query.VerifOpt
	if f[9] != "-" {
		for _, p := range strings.Split(f[9], ",") {
			x := strings.Split(p, ":")
			if len(x) != 2 {
				return "bad-op"
			}
			opts = append(opts, query.VerifOpt{Code: uint16(num(x[0])), Data: unhx(x[1])})
		}
	}
	msg, err := query.VerifBuildQuery(uint16(num(f[1])), uint16(num(f[2])), dottedName(qn), uint16(num(f[4])), uint16(num(f[5])),
		pre, uint16(num(f[7])), uint32(num(f[8])), opts)
	if err != nil {
		return "BUILDER-ERR " + err.Error()
	}
	enc := hx(msg)
	line, q, ok := runParse(msg, 2*time.Second)
	if !ok {
		return line
	}
	stage := strings.SplitN(line, " ", 2)[0]
	peer := "none"
	if !samePeer(q.PeerIP, transportPeer(msg)) {
		peer = hx(q.PeerIP)
	}
	return fmt.Sprintf("enc=%s %s peer=%s payload=%s", enc, stage, peer, hx(q.Payload))
}

func init() {
	areas["ecs"] = func(c *Ctx) error {
		r := NewRng(c.seed)
		run := func(l string) {
			c.Note(l)
			f := strings.Fields(l)
			switch {
			case len(f) == 2 && f[0] == "post":
				c.Emit(l, runPost(unhx(f[1])))
			case len(f) == 2 && f[0] == "post53":
				c.Emit(l, runPost53(unhx(f[1])))
			case len(f) > 0 && f[0] == "encq":
				c.Emit(l, runEnc(f))
			default:
				c.Emit(l, "bad-op")
			}
		}
		if ls := replayLines(); ls != nil {
			for _, l := range ls {
				run(l)
			}
			return nil
		}
		for i := 0; i < c.n; i++ {
			if r.Chance(75) {
				e := r.genEnc(c)
				c.Stat("op:encq")
				run(e.line())
			} else {
				q := r.genQuery(r.Chance(60))
				p := q.payload
				mutated := false
				if r.Chance(15) {
					p, _ = r.mutate(p)
					mutated = true
				}
				if !mutated && len(p) >= 2 && len(p) <= 1400 && r.Chance(40) {
					c.Stat("op:post53")
					run("post53 " + hx(p))
				} else {
					c.Stat("op:post")
					run("post " + hx(p))
				}
			}
		}
		return nil
	}
}
