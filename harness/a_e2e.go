package main

import (
	"context"
	"crypto/x509"
	"io"
	"net/http"
	"net/http/httptest"
	"os"
	"strconv"
	"strings"
	"sync"
	"time"

	"github.com/nextdns/nextdns/discovery"
	"github.com/nextdns/nextdns/proxy"
	"github.com/nextdns/nextdns/resolver"
	"github.com/nextdns/nextdns/resolver/endpoint"
)

// e2e area (C01): the WHOLE query path in one process, nothing replaced inside it:
//   UDP/TCP socket -> serveUDP/serveTCP handler -> Proxy.Resolve (hosts file, bogus-priv,
//   discovery tables) -> resolver.DNS -> endpoint.Manager -> DOH.resolve -> the endpoint's own
//   HTTP/2+TLS transport -> a loopback DoH server that answers what the case line says.
// The Lean model composes NV.Local.resolve with the handler reply models; the oracle checks C12's
// clauses on the inner result and C01's on the reply (the query's ID and question on every reply
// built locally, the upstream's bytes otherwise).
//
// case:  daemon udp|tcp b=<0|1> L=… DN=… DA=… U=<0:H<hex> | 1:N0> <payloadhex>     (tokens as in `resolve`)
// impl:  <replyhex> | TIMEOUT …

type swapResolver struct {
	mu sync.Mutex
	r  proxy.HostResolver
}

func (s *swapResolver) get() proxy.HostResolver {
	s.mu.Lock()
	defer s.mu.Unlock()
	return s.r
}
func (s *swapResolver) set(r proxy.HostResolver) { s.mu.Lock(); s.r = r; s.mu.Unlock() }
func (s *swapResolver) LookupAddr(a string) []string {
	if r := s.get(); r != nil {
		return r.LookupAddr(a)
	}
	return nil
}
func (s *swapResolver) LookupHost(n string) []string {
	if r := s.get(); r != nil {
		return r.LookupHost(n)
	}
	return nil
}

type e2eDoh struct {
	mu   sync.Mutex
	fail bool
	body []byte
}

func (d *e2eDoh) handler(w http.ResponseWriter, r *http.Request) {
	_, _ = io.ReadAll(r.Body)
	d.mu.Lock()
	fail, body := d.fail, d.body
	d.mu.Unlock()
	if fail {
		w.WriteHeader(500)
		return
	}
	_, _ = w.Write(body)
}

type e2eSys struct {
	doh    *e2eDoh
	ts     *httptest.Server
	loc    *swapResolver
	disc   *swapResolver
	addr   map[string]string // "0"/"1" (bogus-priv) -> proxy address
	cancel []context.CancelFunc
}

func startE2E() *e2eSys {
	s := &e2eSys{doh: &e2eDoh{}, loc: &swapResolver{}, disc: &swapResolver{}, addr: map[string]string{}}
	ts := httptest.NewUnstartedServer(http.HandlerFunc(s.doh.handler))
	ts.EnableHTTP2 = true
	ts.StartTLS()
	s.ts = ts
	roots := x509.NewCertPool()
	roots.AddCert(ts.Certificate())
	for _, b := range []string{"0", "1"} {
		ep := &endpoint.DOHEndpoint{Hostname: "example.com"}
		ep.VerifUseTransport(ts.Listener.Addr().String(), roots)
		up := &resolver.DNS{Manager: &endpoint.Manager{
			Providers:      []endpoint.Provider{endpoint.StaticProvider([]endpoint.Endpoint{ep})},
			InitEndpoint:   ep,
			ErrorThreshold: 1 << 30,
			EndpointTester: func(endpoint.Endpoint) endpoint.Tester {
				return func(ctx context.Context, testDomain string) error { return nil }
			},
		}}
		a := "127.0.0.1:" + strconv.Itoa(freePort())
		ctx, cancel := context.WithCancel(context.Background())
		s.cancel = append(s.cancel, cancel)
		p := proxy.Proxy{Addrs: []string{a}, Upstream: up, Timeout: 2 * time.Second, MaxInflightRequests: 16,
			BogusPriv: b == "1", LocalResolver: s.loc, DiscoveryResolver: s.disc}
		go func() { _ = p.ListenAndServe(ctx) }()
		s.addr[b] = a
	}
	time.Sleep(150 * time.Millisecond)
	return s
}

func (s *e2eSys) stop() {
	for _, c := range s.cancel {
		c()
	}
	s.ts.Close()
}

func (s *e2eSys) run(c *Ctx, f []string) string {
	if len(f) != 8 || (f[1] != "udp" && f[1] != "tcp") || (f[2] != "b=0" && f[2] != "b=1") {
		return "bad-op"
	}
	lines, lpresent, ok := parseLocalTok(f[3])
	dn, dnp, ok1 := parseMapTok(f[4], "DN=", true)
	da, dap, ok2 := parseMapTok(f[5], "DA=", false)
	if !ok || !ok1 || !ok2 || dnp != dap {
		return "bad-op"
	}
	s.doh.mu.Lock()
	switch {
	case f[6] == "U=1:N0":
		s.doh.fail, s.doh.body = true, nil
	case strings.HasPrefix(f[6], "U=0:H"):
		s.doh.fail, s.doh.body = false, unhx(f[6][5:])
	default:
		s.doh.mu.Unlock()
		return "bad-op"
	}
	s.doh.mu.Unlock()
	if lpresent {
		setupHostsFile(c)
		if err := os.WriteFile(hostsPath, []byte(renderHosts(lines)), 0644); err != nil {
			return "ERR " + err.Error()
		}
		s.loc.set(discovery.Resolver{&discovery.Hosts{}})
	} else {
		s.loc.set(nil)
	}
	if dnp {
		s.disc.set(discovery.Resolver{&tabSource{names: dn, addrs: da}})
	} else {
		s.disc.set(nil)
	}
	payload := unhx(f[7])
	addr := s.addr[f[2][2:]]
	if f[1] == "udp" {
		rep, err := udpExchange(addr, payload, 3*time.Second)
		if err != nil {
			return "TIMEOUT"
		}
		return hx(rep)
	}
	t := &tcpClient{}
	out, err := t.exchange(addr, payload, 3*time.Second)
	if t.c != nil {
		t.c.Close()
	}
	if err != nil {
		return "ERR"
	}
	return out
}

func init() {
	areas["e2e"] = func(c *Ctx) error {
		sys := startE2E()
		defer sys.stop()
		// warm up the h2 connections
		sys.doh.mu.Lock()
		sys.doh.body = []byte{0, 0, 0x81, 0x80, 0, 0, 0, 0, 0, 0, 0, 0}
		sys.doh.mu.Unlock()
		for _, a := range sys.addr {
			for i := 0; i < 10; i++ {
				if r, err := udpExchange(a, kindQuery(1, "warm"), 500*time.Millisecond); err == nil && len(r) >= 12 {
					break
				}
				time.Sleep(40 * time.Millisecond) // refused at once while the socket is not bound yet: pause before the next try
			}
		}
		one := func(l string) {
			c.Begin(l)
			c.Emit(l, sys.run(c, strings.Split(l, " ")))
		}
		if ls := replayLines(); ls != nil {
			for _, l := range ls {
				one(l)
			}
			return nil
		}
		r := NewRng(c.seed)
		for i := 0; i < c.n; i++ {
			// a `resolve` case of the local area, with an upstream outcome a DoH server can produce
			var f []string
			for {
				f = strings.Split(r.genResolve(c), " ")
				if f[0] == "resolve" && !strings.Contains(f[6], ",") && len(unhx(f[6])) > 14 {
					if q := unhx(f[6]); len(q) > 14 {
						break
					}
				}
			}
			u := f[5]
			switch {
			case strings.HasPrefix(u, "U=0:H") && len(unhx(u[5:])) >= 12 && len(f[6]) >= 4 && u[5:9] == f[6][:4]:
				// the DoH server answers with exactly these bytes; they carry the query's ID, as the
				// answer of a DoH server does (a mutated query whose ID no longer matches gets the 500)
			default:
				u = "U=1:N0"
				c.Stat("up:http-500")
			}
			proto := "udp"
			if r.Chance(35) {
				proto = "tcp"
			}
			c.Stat("proto:" + proto)
			one(strings.Join([]string{"daemon", proto, f[1], f[2], f[3], f[4], u, f[6]}, " "))
		}
		return nil
	}
}
