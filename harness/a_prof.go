package main

import (
	"bytes"
	"context"
	"fmt"
	"io"
	"net"
	"strconv"
	"strings"
	"sync"
	"sync/atomic"
	"time"

	"github.com/nextdns/nextdns/config"
	"github.com/nextdns/nextdns/proxy"
	"github.com/nextdns/nextdns/resolver"
	"github.com/nextdns/nextdns/resolver/query"
)

// prof area (C11): ordered profile lists x client tuples through the REAL config.Profiles Set / Get.
//
//   prof <src> <dst> <mac> <entry>*
//       src, dst : nil | <hex> | -      mac : <hex> | -
//       entry    : <raw>;<id>;<prefix>;<mac>;<dests>;<final>   raw = text handed to Profiles.Set; id, prefix,
//                  mac, dests are what the REAL parser made of it (checked again on replay) and are what
//                  the Lean model is given; prefix = nil | <ip>/<mask>; dests = - | <ip>+<ip>;
//                  final = DestIPs left in the stored entry: for interface entries the harness may
//                  overwrite DestIPs of the entry just set (after Set ran its replacement test on the
//                  parsed addresses) to reach address lists other than the machine's own
//   -> list=<id;prefix;mac;dests of every final entry> get=<hex> nilget=<hex>

func optIP(s string) net.IP {
	if s == "nil" {
		return nil
	}
	if s == "-" {
		return net.IP{}
	}
	return net.IP(unhx(s))
}

func ipTok(ip net.IP) string {
	if ip == nil {
		return "nil"
	}
	return hx(ip)
}

func destsTok(ds []net.IP) string {
	if len(ds) == 0 {
		return "-"
	}
	var xs []string
	for _, d := range ds {
		xs = append(xs, hx(d))
	}
	return strings.Join(xs, "+")
}

func prefixTok(n *net.IPNet) string {
	if n == nil {
		return "nil"
	}
	return hx(n.IP) + "/" + hx(n.Mask)
}

// parsed fields of one value, through the real newConfig (a Set on an empty list)
func profParse(raw string) (fields string, dests []net.IP, err error) {
	var tmp config.Profiles
	if err := tmp.Set(raw); err != nil {
		return "", nil, err
	}
	p := tmp[0]
	return hx([]byte(p.ID)) + ";" + prefixTok(p.Prefix) + ";" + hx(p.MAC), p.DestIPs, nil
}

func parseDestsTok(s string) []net.IP {
	if s == "-" {
		return nil
	}
	var ds []net.IP
	for _, t := range strings.Split(s, "+") {
		ds = append(ds, net.IP(unhx(t)))
	}
	return ds
}

// envGlitch: newConfig reads the interface's addresses from the kernel on every call and ignores
// errors (`addrs, _ := iface.Addrs()`); under load a netlink dump occasionally comes back empty or
// partial, so the Set under test and the parse that produced the model's input can disagree about the
// MACHINE, not about the code.  Such a run is detected (addresses of the entry just set differ from
// the parsed ones) and repeated; it is never compared with the model.
const envGlitch = "ENV-GLITCH"

func runProfRetry(c *Ctx, src, dst net.IP, mac net.HardwareAddr, entries []string, seq [][3]string) string {
	for i := 0; i < 6; i++ {
		if out := runProf(src, dst, mac, entries, seq); out != envGlitch {
			return out
		}
		c.Stat("env:interface-addresses-changed-retry")
	}
	return envGlitch
}

func runProf(src, dst net.IP, mac net.HardwareAddr, entries []string, seq [][3]string) (line string) {
	defer func() {
		if x := recover(); x != nil {
			line = fmt.Sprintf("PANIC %v", x)
		}
	}()
	var ps config.Profiles
	seen := map[*net.IP]bool{}
	for i, e := range entries {
		f := strings.Split(e, ";")
		if len(f) != 6 {
			return "bad-case"
		}
		raw := string(unhx(f[0]))
		fields, pd, err := profParse(raw)
		if err != nil {
			return fmt.Sprintf("set-error %d", i)
		}
		if fields+";"+destsTok(pd) != f[1]+";"+f[2]+";"+f[3]+";"+f[4] {
			return fmt.Sprintf("PARSE-MISMATCH %d %s", i, fields)
		}
		if err := ps.Set(raw); err != nil {
			return fmt.Sprintf("set-error %d", i)
		}
		want := f[5]
		if len(pd) == 0 && want != "-" {
			// nothing to attach the listed addresses to (interface without addresses, or no interface entry)
			return fmt.Sprintf("PARSE-MISMATCH %d dests", i)
		}
		attached := false
		for j := range ps {
			if len(ps[j].DestIPs) > 0 && !seen[&ps[j].DestIPs[0]] {
				// the entry just set (fresh DestIPs array): install the listed addresses if they differ
				attached = true
				if destsTok(ps[j].DestIPs) != destsTok(pd) {
					return envGlitch // the interface's addresses changed between two calls
				}
				if destsTok(ps[j].DestIPs) != want {
					ps[j].DestIPs = parseDestsTok(want)
				}
				if len(ps[j].DestIPs) > 0 {
					seen[&ps[j].DestIPs[0]] = true
				}
			}
		}
		if len(pd) > 0 && !attached {
			return envGlitch // Set saw no address on an interface that had some a moment ago
		}
	}
	if seq != nil {
		if profWire {
			return runPwire(ps, seq)
		}
		return runPseq(ps, seq)
	}
	var list []string
	for _, p := range ps {
		list = append(list, hx([]byte(p.ID))+";"+prefixTok(p.Prefix)+";"+hx(p.MAC)+";"+destsTok(p.DestIPs))
	}
	return fmt.Sprintf("list=%s get=%s nilget=%s", joinOrDash(list), hx([]byte(ps.Get(src, dst, mac))), hx([]byte(ps.Get(nil, nil, nil))))
}

// runPseq: ONE resolver.DOH wired as run.go wires it (static shortcut or per-query
// Profiles.Get(PeerIP, LocalIP, MAC)) answers a SEQUENCE of queries of several clients; for each
// query the cache context (Get and Add must agree), the request path and ResolveInfo.Profile are
// recorded. Anything the resolver remembers about a client between queries must not change the
// profile a later query of another tuple is resolved under.
//
//	pseq <src/dst/mac>,<src/dst/mac>,… <entry>*  ->  seq=<ctx:path:profile>,…   (hex fields)
func runPseq(ps config.Profiles, seq [][3]string) string {
	via := make([]bool, len(seq))
	for i := range seq {
		if strings.HasSuffix(seq[i][2], "/e") {
			via[i] = true
			seq[i][2] = strings.TrimSuffix(seq[i][2], "/e")
		}
	}
	cache := &recCache{}
	rt := &recRT{}
	d := &resolver.DOH{Cache: cache}
	if len(ps) == 0 || (len(ps) == 1 && ps.Get(nil, nil, nil) != "") {
		profile := ps.Get(nil, nil, nil)
		d.GetProfileURL = func(q query.Query) (string, string) { return purlPrefix + profile, profile }
	} else {
		d.GetProfileURL = func(q query.Query) (string, string) {
			profile := ps.Get(q.PeerIP, q.LocalIP, q.MAC)
			return purlPrefix + profile, profile
		}
	}
	var outs []string
	for i, t := range seq {
		cache.ctxs, rt.paths, rt.hosts = nil, nil, nil
		name := fmt.Sprintf("n%d.example.com.", i%3)
		q := query.Query{ID: uint16(i + 1), Class: query.ClassINET, Type: query.TypeA, Name: name,
			PeerIP: optIP(t[0]), LocalIP: optIP(t[1]), MAC: net.HardwareAddr(unhx(t[2])),
			Payload: []byte{0, byte(i + 1), 1, 0, 0, 1, 0, 0, 0, 0, 0, 0}}
		if via[i] {
			// the client tuple reaches the resolver the way it does behind a forwarder such as dnsmasq:
			// through query.New on a wire query whose EDNS options carry the client address (ECS /32 or
			// /128) and MAC (dnsmasq's add-mac option)
			src := optIP(t[0])
			var opts []optSpec
			if mac := unhx(t[2]); len(mac) > 0 {
				opts = append(opts, optSpec{code: 0xfde9, data: mac})
			}
			fam, bits := byte(1), byte(32)
			if len(src) == 16 {
				fam, bits = 2, 128
			}
			opts = append(opts, optSpec{code: 8, data: append([]byte{0, fam, bits, 0}, src...)})
			body := append(wireName(fmt.Sprintf("n%d", i%3), "example", "com"), 0, 1, 0, 1)
			body = append(body, packRR(rrSpec{name: []byte{0}, typ: 41, class: 1232, rdata: packOpts(opts)})...)
			pl := append(be16(i+1), 1, 0, 0, 1, 0, 0, 0, 0, 0, 1)
			pl = append(pl, body...)
			var qerr error
			q, qerr = query.New(pl, net.IPv4(127, 0, 0, 1), optIP(t[1]))
			if qerr != nil {
				return fmt.Sprintf("err %d:query.New %v", i, qerr)
			}
		}
		buf := make([]byte, 512)
		_, info, err := resolver.VerifC11DOHResolve(d, context.Background(), q, buf, rt)
		if err != nil {
			return fmt.Sprintf("err %d:%v", i, err)
		}
		ctx, ok1 := uniq(cache.ctxs)
		path, ok2 := uniq(rt.paths)
		if !ok1 || !ok2 || len(rt.paths) != 1 {
			return fmt.Sprintf("inconsistent %d ctxs=%q paths=%q", i, cache.ctxs, rt.paths)
		}
		outs = append(outs, hx([]byte(ctx))+":"+hx([]byte(path))+":"+hx([]byte(info.Profile)))
	}
	return "seq=" + joinOrDash(outs)
}

// profWire: the sequence being run is a `pwire` one (set by the area's line runner; the area is single-threaded)
var profWire bool

// pwire <src/dst/->,… <entry>*  ->  seq=<profile>,…
// The client tuples are realised on REAL sockets: one proxy.Proxy listening on the IPv4 wildcard address, every client
// bound to its own loopback source address sending to its own loopback destination address, all queries in flight at
// the same time (the upstream holds each until every packet has been read). The upstream evaluates the profile the way
// run.go's resolver does - Profiles.Get(q.PeerIP, q.LocalIP, q.MAC), or the static shortcut - when it is released:
// whatever the receive loop keeps between packets must not change the tuple of a query already handed to a handler.
type pwireUp struct {
	get     func(q query.Query) string
	n       int32
	arrived int32
	gate    chan struct{}
	mu      sync.Mutex
	got     map[uint16]string
}

func (u *pwireUp) Resolve(ctx context.Context, q query.Query, buf []byte) (int, resolver.ResolveInfo, error) {
	if q.ID == 0xabcd {
		return synthResp(q.ID, 40, 1, buf), resolver.ResolveInfo{}, nil // readiness probe
	}
	if atomic.AddInt32(&u.arrived, 1) == u.n {
		close(u.gate)
	}
	select {
	case <-u.gate:
	case <-time.After(1500 * time.Millisecond):
	}
	time.Sleep(20 * time.Millisecond)
	prof := u.get(q)
	u.mu.Lock()
	u.got[q.ID] = prof
	u.mu.Unlock()
	return synthResp(q.ID, 40, 1, buf), resolver.ResolveInfo{Profile: prof}, nil
}

func runPwire(ps config.Profiles, seq [][3]string) string {
	up := &pwireUp{n: int32(len(seq)), gate: make(chan struct{}), got: map[uint16]string{}}
	if len(ps) == 0 || (len(ps) == 1 && ps.Get(nil, nil, nil) != "") {
		profile := ps.Get(nil, nil, nil)
		up.get = func(q query.Query) string { return profile }
	} else {
		up.get = func(q query.Query) string { return ps.Get(q.PeerIP, q.LocalIP, q.MAC) }
	}
	port := freePort()
	addr := "0.0.0.0:" + strconv.Itoa(port)
	ctx, cancel := context.WithCancel(context.Background())
	done := make(chan error, 1)
	px := proxy.Proxy{Addrs: []string{addr}, Upstream: up, Timeout: 3 * time.Second, MaxInflightRequests: 64}
	go func() { done <- px.ListenAndServe(ctx) }()
	defer func() {
		cancel()
		select {
		case <-done:
		case <-time.After(3 * time.Second):
		}
	}()
	probe := []byte{0xab, 0xcd, 1, 0, 0, 1, 0, 0, 0, 0, 0, 0, 1, 'p', 0, 0, 1, 0, 1}
	ready := false
	for dl := time.Now().Add(5 * time.Second); time.Now().Before(dl); {
		if r, err := udpExchange("127.0.0.1:"+strconv.Itoa(port), probe, 200*time.Millisecond); err == nil && len(r) >= 12 {
			ready = true
			break
		}
	}
	if !ready {
		return "err proxy did not come up"
	}
	outs := make([]string, len(seq))
	var wg sync.WaitGroup
	for i, t := range seq {
		src, dst := optIP(t[0]), optIP(t[1])
		if strings.HasSuffix(t[2], "/t") {
			// this client asks over TCP (same wildcard listener address, same profile rules)
			if src.To4() == nil || dst.To4() == nil {
				return "bad-case"
			}
			id := uint16(i + 1)
			d := net.Dialer{LocalAddr: &net.TCPAddr{IP: src}, Timeout: time.Second}
			tc, err := d.Dial("tcp4", net.JoinHostPort(dst.String(), strconv.Itoa(port)))
			if err != nil {
				return "err dial " + err.Error()
			}
			body := append(wireName(fmt.Sprintf("n%d", i%3), "example", "com"), 0, 1, 0, 1)
			pl := append(be16(int(id)), 1, 0, 0, 1, 0, 0, 0, 0, 0, 0)
			pl = append(pl, body...)
			if _, err := tc.Write(append(be16(len(pl)), pl...)); err != nil {
				tc.Close()
				return "err send " + err.Error()
			}
			wg.Add(1)
			go func(i int, tc net.Conn) {
				defer wg.Done()
				defer tc.Close()
				_ = tc.SetReadDeadline(time.Now().Add(4 * time.Second))
				b := make([]byte, 600)
				if _, err := io.ReadFull(tc, b[:2]); err != nil {
					outs[i] = "TIMEOUT"
					return
				}
				n := int(b[0])<<8 | int(b[1])
				if n < 12 || n > len(b) {
					outs[i] = "TIMEOUT"
					return
				}
				if _, err := io.ReadFull(tc, b[:n]); err != nil || b[0] != byte(id>>8) || b[1] != byte(id) {
					outs[i] = "TIMEOUT"
					return
				}
				outs[i] = "ok"
			}(i, tc)
			time.Sleep(8 * time.Millisecond)
			continue
		}
		if src.To4() == nil || dst.To4() == nil || !src.IsLoopback() || !dst.IsLoopback() {
			return "bad-case"
		}
		// a CONNECTED socket, as stub resolvers use: a reply that leaves the proxy from another local address than the
		// one the query was sent to never reaches it
		conn, err := net.DialUDP("udp4", &net.UDPAddr{IP: src}, &net.UDPAddr{IP: dst, Port: port})
		if err != nil {
			return "err bind " + err.Error()
		}
		id := uint16(i + 1)
		body := append(wireName(fmt.Sprintf("n%d", i%3), "example", "com"), 0, 1, 0, 1)
		pl := append(be16(int(id)), 1, 0, 0, 1, 0, 0, 0, 0, 0, 0)
		pl = append(pl, body...)
		if _, err := conn.Write(pl); err != nil {
			conn.Close()
			return "err send " + err.Error()
		}
		wg.Add(1)
		go func(i int, conn *net.UDPConn) {
			defer wg.Done()
			defer conn.Close()
			_ = conn.SetReadDeadline(time.Now().Add(4 * time.Second))
			b := make([]byte, 600)
			n, err := conn.Read(b)
			if err != nil || n < 12 || b[0] != byte(id>>8) || b[1] != byte(id) {
				outs[i] = "TIMEOUT"
				return
			}
			outs[i] = "ok"
		}(i, conn)
		time.Sleep(8 * time.Millisecond) // the packets are read in this order
	}
	wg.Wait()
	up.mu.Lock()
	defer up.mu.Unlock()
	for i := range seq {
		if outs[i] != "ok" {
			return fmt.Sprintf("err %d:%s", i, outs[i])
		}
		p, ok := up.got[uint16(i+1)]
		if !ok {
			return fmt.Sprintf("err %d:not-resolved", i)
		}
		outs[i] = hx([]byte(p))
	}
	return "seq=" + joinOrDash(outs)
}

// genPwireLine: a `pwire` case - 2..5 clients, each on its own loopback source and destination address, and a profile
// list whose entries tell those addresses apart (interface entry of lo, host / subnet entries, unconditional entry)
func (r *Rng) genPwireLine(c *Ctx) string {
	k := 2 + r.Intn(4)
	var ts []string
	for j := 0; j < k; j++ {
		t := hx(net.IPv4(127, 0, 1, byte(1+r.Intn(4))).To4()) + "/" + hx(net.IPv4(127, 0, 0, byte(1+r.Intn(3))).To4()) + "/-"
		if r.Chance(30) {
			t += "/t"
			c.Stat("pwire:tcp-client")
		}
		ts = append(ts, t)
	}
	var wes []profEntry
	for _, raw := range []string{"lo=p3", "127.0.1.2/32=p1", "127.0.1.0/30=p2", "127.0.0.0/8=abc123", "x", "127.0.1.3/32=P1"} {
		if r.Chance(55) {
			if e, ok := r.genProfEntryRaw(c, raw); ok {
				if raw == "lo=p3" && r.Chance(40) {
					e.final = destsTok([]net.IP{net.IPv4(127, 0, 0, 2).To4()})
				}
				wes = append(wes, e)
			}
		}
	}
	for a := len(wes) - 1; a > 0; a-- {
		b := r.Intn(a + 1)
		wes[a], wes[b] = wes[b], wes[a]
	}
	var sb strings.Builder
	fmt.Fprintf(&sb, "pwire %s", strings.Join(ts, ","))
	for _, e := range wes {
		fmt.Fprintf(&sb, " %s;%s;%s;%s", hx([]byte(e.raw)), e.fields, e.dests, e.final)
	}
	return sb.String()
}

func init() {
	// localaddr area (C01, C11, C15): only `pwire` cases - several UDP clients on their own local source and destination
	// addresses through ONE wildcard listener, all in flight together; every one must get its reply (connected sockets:
	// from the address it wrote to) and be resolved under the profile of its own addresses.
	areas["localaddr"] = func(c *Ctx) error {
		run := func(l string) {
			c.Note(l)
			l = adaptProfLine(c, l)
			f := strings.Split(l, " ")
			if len(f) < 2 || f[0] != "pwire" {
				c.Emit(l, "bad-case")
				return
			}
			var seq [][3]string
			for _, t := range strings.Split(f[1], ",") {
				g := strings.Split(t, "/")
				if len(g) == 4 && g[3] == "t" {
					g = []string{g[0], g[1], g[2] + "/t"}
				}
				if len(g) != 3 {
					c.Emit(l, "bad-case")
					return
				}
				seq = append(seq, [3]string{g[0], g[1], g[2]})
			}
			profWire = true
			out := runProfRetry(c, nil, nil, nil, f[2:], seq)
			profWire = false
			if out == envGlitch {
				c.Stat("env:case-dropped")
				return
			}
			c.Emit(l, out)
		}
		if ls := replayLines(); ls != nil {
			for _, l := range ls {
				run(l)
			}
			return nil
		}
		r := NewRng(c.seed)
		for i := 0; i < c.n; i++ {
			c.Stat("op:pwire")
			run(r.genPwireLine(c))
		}
		return nil
	}
}

// adaptProfLine makes a stored case independent of the machine it was recorded on: the addresses
// of an interface entry (`lo=…`) are whatever the local interface has.  When the real parser gives
// other addresses than the line lists, the `dests` field (and `final`, unless it was an overwrite) is
// rewritten to the local ones; an interface entry the local parser rejects (no such interface) is
// dropped.  The rewritten line is what both the real code and the Lean model are given.
func adaptProfLine(c *Ctx, l string) string {
	f := strings.Split(l, " ")
	first := 4
	if len(f) >= 2 && (f[0] == "pseq" || f[0] == "pwire") {
		first = 2
	} else if len(f) < 4 || f[0] != "prof" {
		return l
	}
	out := f[:first:first]
	for _, e := range f[first:] {
		g := strings.Split(e, ";")
		if len(g) != 6 || g[2] != "nil" || g[3] != "-" || g[4] == "-" {
			out = append(out, e) // not an interface entry
			continue
		}
		fields, pd, err := profParse(string(unhx(g[0])))
		if err != nil {
			c.Stat("replay:iface-missing")
			continue
		}
		if d := destsTok(pd); fields == g[1]+";"+g[2]+";"+g[3] && d != g[4] && d != "-" {
			if g[5] == g[4] {
				g[5] = d
			}
			g[4] = d
			c.Stat("replay:iface-addresses-adapted")
		}
		out = append(out, strings.Join(g, ";"))
	}
	return strings.Join(out, " ")
}

// ---- generator

var profSubnets = []string{"10.0.0.0/8", "10.1.0.0/16", "10.1.2.0/24", "10.1.2.128/25", "10.1.2.3/32", "10.1.2.77/24",
	"192.168.0.0/16", "192.168.1.0/24", "0.0.0.0/0", "10.1.2.0/23", "127.0.0.0/8",
	"2001:db8::/32", "2001:db8:1::/48", "2001:db8:1:2::/64", "2001:db8:1:2::1/128", "::/0", "fe80::/10", "::1/128",
	"::ffff:10.1.0.0/112", "::ffff:0:0/96", "::ffff:10.1.2.0/120", "2001:db8:1:2:3::/63"}

var profMACs = []string{"28:a0:2b:56:e9:66", "28:A0:2B:56:E9:66", "28-a0-2b-56-e9-66", "28a0.2b56.e966", "84:89:ad:7c:e3:db",
	"00:00:00:00:00:00", "02:00:5e:10:00:00:00:01", "28:a0:2b:56:e9:66:00:01", "84:89:ad:7c:e3:dc"}

var profIDs = []string{"p1", "p2", "p3", "abc123", "P1", "", "a.b-c_d~e", "x"}

var profSrcs = []string{"10.1.2.3", "10.1.2.200", "10.1.3.1", "10.2.0.1", "11.0.0.1", "192.168.1.9", "192.168.2.9", "127.0.0.1", "9.255.255.255",
	"10.1.2.127", "10.1.2.128", "10.1.1.255",
	"2001:db8:1:2::1", "2001:db8:1:2::2", "2001:db8:1:3::1", "2001:db8:2::1", "2001:db9::1", "fe80::1", "febf::1", "fec0::1", "::1", "::", "::ffff:0:1"}

var profDsts = []string{"127.0.0.1", "::1", "127.0.0.2", "10.1.2.1", "2001:db8::1"}

func (r *Rng) ipForm(s string) net.IP {
	ip := net.ParseIP(s)
	if v4 := ip.To4(); v4 != nil && r.Chance(50) {
		return v4 // 4-byte form
	}
	return ip
}

type profEntry struct{ raw, fields, dests, final string }

func (r *Rng) genProfEntry(c *Ctx) (profEntry, bool) {
	id := profIDs[r.Intn(len(profIDs))]
	if r.Chance(60) {
		id = profIDs[r.Intn(4)]
	}
	var raw string
	k := r.Intn(100)
	override := ""
	switch {
	case k < 22:
		raw = id
		if strings.TrimSpace(id) == "" && r.Chance(50) {
			raw = "=" + id // "=id" is NOT unconditional for the parser: condition "" -> error; keep the generator honest
		}
		c.Stat("entry:unconditional")
	case k < 60:
		raw = r.ws() + profSubnets[r.Intn(len(profSubnets))] + r.ws() + "=" + r.ws() + id + r.ws()
		c.Stat("entry:subnet")
	case k < 90:
		raw = r.ws() + profMACs[r.Intn(len(profMACs))] + r.ws() + "=" + r.ws() + id
		c.Stat("entry:mac")
	default:
		raw = "lo=" + id
		c.Stat("entry:iface")
		if r.Chance(60) {
			// other destination address lists than lo's own (forms, order, several, none)
			var ds []net.IP
			for i := 0; i < r.Intn(3); i++ {
				ds = append(ds, r.ipForm(profDsts[r.Intn(len(profDsts))]))
			}
			override = destsTok(ds)
			c.Stat("entry:iface-override")
		}
	}
	fields, pd, err := profParse(raw)
	if err != nil {
		c.Stat("entry:rejected-by-parser")
		return profEntry{}, false
	}
	if strings.HasPrefix(raw, "lo=") {
		// see envGlitch: accept the interface's addresses only when two more reads agree
		for i := 0; i < 2; i++ {
			if _, pd2, err2 := profParse(raw); err2 != nil || destsTok(pd2) != destsTok(pd) {
				c.Stat("env:interface-addresses-changed-gen")
				return profEntry{}, false
			}
		}
	}
	dests := destsTok(pd)
	final := dests
	if override != "" && len(pd) > 0 {
		final = override
	}
	return profEntry{raw, fields, dests, final}, true
}

// genProfEntryRaw parses a given raw entry (interface entries: accepted only when stable).
func (r *Rng) genProfEntryRaw(c *Ctx, raw string) (profEntry, bool) {
	fields, pd, err := profParse(raw)
	if err != nil {
		return profEntry{}, false
	}
	for i := 0; i < 2; i++ {
		if _, pd2, err2 := profParse(raw); err2 != nil || destsTok(pd2) != destsTok(pd) {
			return profEntry{}, false
		}
	}
	return profEntry{raw, fields, destsTok(pd), destsTok(pd)}, true
}

func init() {
	areas["prof"] = func(c *Ctx) error {
		runLine := func(l string) string {
			f := strings.Split(l, " ")
			if len(f) >= 2 && (f[0] == "pseq" || f[0] == "pwire") {
				profWire = f[0] == "pwire"
				defer func() { profWire = false }()
				var seq [][3]string
				for _, t := range strings.Split(f[1], ",") {
					g := strings.Split(t, "/")
					if len(g) == 4 && (g[3] == "e" || g[3] == "t") {
						g = []string{g[0], g[1], g[2] + "/" + g[3]}
					}
					if len(g) != 3 {
						c.Emit(l, "bad-case")
						return ""
					}
					seq = append(seq, [3]string{g[0], g[1], g[2]})
				}
				out := runProfRetry(c, nil, nil, nil, f[2:], seq)
				if out == envGlitch {
					c.Stat("env:case-dropped")
					return out
				}
				c.Emit(l, out)
				return out
			}
			if len(f) < 4 || f[0] != "prof" {
				c.Emit(l, "bad-case")
				return ""
			}
			out := runProfRetry(c, optIP(f[1]), optIP(f[2]), net.HardwareAddr(unhx(f[3])), f[4:], nil)
			if out == envGlitch {
				c.Stat("env:case-dropped")
				return out
			}
			c.Emit(l, out)
			return out
		}
		if ls := replayLines(); ls != nil {
			for _, l := range ls {
				runLine(adaptProfLine(c, l))
			}
			return nil
		}
		r := NewRng(c.seed)
		// cases on real sockets cost ~0.2 s each: a fixed budget per shard
		pwireBudget := 30
		if c.tier == "thorough" {
			pwireBudget = 150
		}
		pwireLeft := pwireBudget
		for i := 0; i < c.n; i++ {
			n := r.Intn(7)
			if r.Chance(5) {
				n = 7 + r.Intn(8)
			}
			if r.Chance(10) {
				n = 1 // the static shortcut of run.go looks at lists of length 0 and 1
			}
			var es []profEntry
			for j := 0; j < n; j++ {
				if e, ok := r.genProfEntry(c); ok {
					es = append(es, e)
				}
			}
			// client tuple
			src, dst, mac := "nil", "nil", "-"
			switch k := r.Intn(100); {
			case k < 80:
				src = hx(r.ipForm(profSrcs[r.Intn(len(profSrcs))]))
				c.Stat("src:addr")
			case k < 83:
				src = "-"
				c.Stat("src:empty-nonnil")
			case k < 86:
				src = hx(r.Bytes([]int{1, 5, 15, 17}[r.Intn(4)]))
				c.Stat("src:bad-length")
			default:
				c.Stat("src:nil")
			}
			switch k := r.Intn(100); {
			case k < 70:
				dst = hx(r.ipForm(profDsts[r.Intn(len(profDsts))]))
				c.Stat("dst:addr")
			case k < 73:
				dst = "-"
				c.Stat("dst:empty-nonnil")
			default:
				c.Stat("dst:nil")
			}
			switch k := r.Intn(100); {
			case k < 60:
				m, _ := net.ParseMAC(profMACs[r.Intn(len(profMACs))])
				mac = hx(m)
				c.Stat("mac:known")
			case k < 65:
				mac = hx(r.Bytes(6))
				c.Stat("mac:random")
			case k < 68:
				m, _ := net.ParseMAC(profMACs[0])
				mac = hx(m[:5])
				c.Stat("mac:short")
			default:
				c.Stat("mac:absent")
			}
			if pwireLeft > 0 && r.Intn(c.n) < 4*pwireBudget {
				pwireLeft--
				c.Stat("op:pwire")
				runLine(r.genPwireLine(c))
				continue
			}
			if r.Chance(15) {
				// a sequence of queries on one resolver: the same client on several destination
				// addresses, several clients on one, interleaved (what a resolver might remember
				// about a client must not decide the profile of a later query)
				k := 2 + r.Intn(5)
				srcs := []string{src, hx(r.ipForm(profSrcs[r.Intn(len(profSrcs))]))}
				dsts := []string{dst, hx(r.ipForm(profDsts[r.Intn(len(profDsts))])), hx(r.ipForm(profDsts[r.Intn(len(profDsts))])), "nil"}
				m2, _ := net.ParseMAC(profMACs[r.Intn(len(profMACs))])
				macs := []string{mac, mac, hx(m2), "-"}
				var ts []string
				for j := 0; j < k; j++ {
					t := srcs[r.Intn(len(srcs))] + "/" + dsts[r.Intn(len(dsts))] + "/" + macs[r.Intn(len(macs))]
					if sb := strings.SplitN(t, "/", 2)[0]; (len(sb) == 8 || len(sb) == 32) && sb != "7f000001" && r.Chance(40) {
						m := strings.Split(t, "/")[2]
						if m == "-" || len(m) == 12 {
							t += "/e" // behind a forwarder: address and MAC arrive as EDNS options
							c.Stat("pseq:via-edns")
						}
					}
					ts = append(ts, t)
				}
				if r.Chance(50) && len(es) < 6 {
					if e, ok := r.genProfEntryRaw(c, "lo=p3"); ok {
						es = append([]profEntry{e}, es...)
					}
				}
				var sb strings.Builder
				fmt.Fprintf(&sb, "pseq %s", strings.Join(ts, ","))
				for _, e := range es {
					fmt.Fprintf(&sb, " %s;%s;%s;%s", hx([]byte(e.raw)), e.fields, e.dests, e.final)
				}
				c.Stat("op:pseq")
				out := runLine(sb.String())
				if strings.HasPrefix(out, "seq=") {
					d := map[string]bool{}
					for _, x := range strings.Split(out[4:], ",") {
						d[x] = true
					}
					c.Stat(fmt.Sprintf("pseq-distinct-profiles:%d", len(d)))
				}
				continue
			}
			var sb strings.Builder
			fmt.Fprintf(&sb, "prof %s %s %s", src, dst, mac)
			for _, e := range es {
				fmt.Fprintf(&sb, " %s;%s;%s;%s", hx([]byte(e.raw)), e.fields, e.dests, e.final)
			}
			out := runLine(sb.String())
			switch {
			case strings.Contains(out, " get=- "):
				c.Stat("out:none")
			case strings.HasPrefix(out, "list="):
				g := out[strings.Index(out, " get=")+5 : strings.Index(out, " nilget=")]
				if bytes.Equal([]byte(g), []byte(out[strings.Index(out, " nilget=")+8:])) {
					c.Stat("out:same-as-nil-client")
				} else {
					c.Stat("out:conditional")
				}
			default:
				c.Stat("out:" + strings.SplitN(out, " ", 2)[0])
			}
		}
		return nil
	}
}
