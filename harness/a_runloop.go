package main

import (
	"bufio"
	"errors"
	"fmt"
	"os"
	"os/exec"
	"strings"
	"sync"
	"syscall"
	"time"

	"github.com/nextdns/nextdns/host/service"
)

// runloop area (C16 / C20): the REAL run loop of the daemon (host/service.Run -> runService / runForeground) in a child
// process of this binary with a scripted Runner; the parent delivers a sequence of signals and records the calls the
// loop makes on the Runner and how the process ends.
//
//	runloop <svc|fg> <ok|err> <sig,sig,…|->   ->   calls=<start[,stop…]> end=<ret=nil|ret=err|alive|died>
//
// svc: SERVICE_RUN_MODE=1 (the service manager started us), fg: run from a terminal.

type scriptedRunner struct {
	startErr bool
	w        *bufio.Writer
	mu       sync.Mutex
}

func (r *scriptedRunner) say(s string) {
	r.mu.Lock()
	fmt.Fprintln(r.w, s)
	r.w.Flush()
	r.mu.Unlock()
}
func (r *scriptedRunner) Start() error {
	r.say("start")
	if r.startErr {
		return errors.New("scripted start error")
	}
	return nil
}
func (r *scriptedRunner) Stop() error    { r.say("stop"); return nil }
func (r *scriptedRunner) Log(msg string) {}

func init() {
	if len(os.Args) > 2 && os.Args[1] == "runloopchild" {
		r := &scriptedRunner{startErr: os.Args[2] == "err", w: bufio.NewWriter(os.Stdout)}
		err := service.Run("nvh-runloop", r)
		if err != nil {
			r.say("ret=err")
		} else {
			r.say("ret=nil")
		}
		os.Exit(0)
	}
	areas["runloop"] = areaRunLoop
}

var runloopSigs = map[string]syscall.Signal{"TERM": syscall.SIGTERM, "HUP": syscall.SIGHUP, "INT": syscall.SIGINT,
	"USR1": syscall.SIGUSR1, "USR2": syscall.SIGUSR2, "CHLD": syscall.SIGCHLD, "URG": syscall.SIGURG,
	"WINCH": syscall.SIGWINCH, "CONT": syscall.SIGCONT, "QUIT": syscall.SIGQUIT}

func runLoopOne(mode, start string, sigs []string) string {
	exe, err := os.Executable()
	if err != nil {
		return "ERR " + err.Error()
	}
	cmd := exec.Command(exe, "runloopchild", start)
	cmd.Env = append([]string{}, os.Environ()...)
	for i := 0; i < len(cmd.Env); i++ {
		if strings.HasPrefix(cmd.Env[i], service.RunModeEnv+"=") {
			cmd.Env = append(cmd.Env[:i], cmd.Env[i+1:]...)
			i--
		}
	}
	if mode == "svc" {
		cmd.Env = append(cmd.Env, service.RunModeEnv+"=1")
	}
	cmd.SysProcAttr = &syscall.SysProcAttr{Setpgid: true}
	out, err := cmd.StdoutPipe()
	if err != nil {
		return "ERR " + err.Error()
	}
	if err := cmd.Start(); err != nil {
		return "ERR " + err.Error()
	}
	var mu sync.Mutex
	var lines []string
	eof := make(chan struct{})
	go func() {
		sc := bufio.NewScanner(out)
		for sc.Scan() {
			mu.Lock()
			lines = append(lines, sc.Text())
			mu.Unlock()
		}
		close(eof)
	}()
	has := func(s string) bool {
		mu.Lock()
		defer mu.Unlock()
		for _, l := range lines {
			if l == s {
				return true
			}
		}
		return false
	}
	waitFor := func(cond func() bool, d time.Duration) bool {
		dl := time.Now().Add(d)
		for time.Now().Before(dl) {
			if cond() {
				return true
			}
			time.Sleep(2 * time.Millisecond)
		}
		return cond()
	}
	exited := func() bool {
		select {
		case <-eof:
			return true
		default:
			return false
		}
	}
	if !waitFor(func() bool { return has("start") }, 3*time.Second) {
		_ = cmd.Process.Kill()
		_ = cmd.Wait()
		return "ERR the run loop never called Start"
	}
	// the loop subscribes to its signals before (svc) or right after (fg) Start returns: give it a moment
	time.Sleep(60 * time.Millisecond)
	for _, s := range sigs {
		if exited() {
			break
		}
		_ = cmd.Process.Signal(runloopSigs[s])
		waitFor(exited, 50*time.Millisecond)
	}
	waitFor(exited, 250*time.Millisecond)
	end := ""
	if !exited() {
		end = "alive"
		_ = cmd.Process.Kill()
		<-eof
	}
	_ = cmd.Wait()
	mu.Lock()
	defer mu.Unlock()
	var calls []string
	for _, l := range lines {
		switch {
		case l == "start" || l == "stop":
			calls = append(calls, l)
		case strings.HasPrefix(l, "ret=") && end == "":
			end = l
		}
	}
	if end == "" {
		end = "died"
	}
	return "calls=" + strings.Join(calls, ",") + " end=" + end
}

func areaRunLoop(c *Ctx) error {
	run := func(l string) {
		f := strings.Fields(l)
		if len(f) != 4 || f[0] != "runloop" || (f[1] != "svc" && f[1] != "fg") || (f[2] != "ok" && f[2] != "err") {
			c.Emit(l, "bad-op")
			return
		}
		var sigs []string
		if f[3] != "-" {
			sigs = strings.Split(f[3], ",")
			for _, s := range sigs {
				if _, ok := runloopSigs[s]; !ok || (f[1] == "fg" && s == "QUIT") {
					c.Emit(l, "bad-op")
					return
				}
			}
		}
		c.Emit(l, runLoopOne(f[1], f[2], sigs))
	}
	if ls := replayLines(); ls != nil {
		for _, l := range ls {
			run(l)
		}
		return nil
	}
	r := NewRng(c.seed)
	svcMenu := []string{"TERM", "HUP", "INT", "USR1", "USR2", "CHLD", "URG", "WINCH", "CONT", "QUIT"}
	fgMenu := []string{"TERM", "HUP", "INT", "USR1", "USR2", "CHLD", "URG", "WINCH", "CONT"}
	type job struct{ line string }
	var lines []string
	for i := 0; i < c.n; i++ {
		mode, menu := "svc", svcMenu
		if r.Chance(40) {
			mode, menu = "fg", fgMenu
		}
		start := "ok"
		if r.Chance(15) {
			start = "err"
		}
		k := r.Intn(5)
		var ss []string
		for j := 0; j < k; j++ {
			s := menu[r.Intn(len(menu))]
			if r.Chance(50) {
				s = menu[3+r.Intn(len(menu)-3)] // mostly signals that must NOT stop the service, a stopping one late or never
			}
			ss = append(ss, s)
		}
		sl := "-"
		if len(ss) > 0 {
			sl = strings.Join(ss, ",")
		}
		lines = append(lines, fmt.Sprintf("runloop %s %s %s", mode, start, sl))
		c.Stat("mode:" + mode)
		c.Stat("start:" + start)
		c.Stat(fmt.Sprintf("signals:%d", len(ss)))
	}
	// the cases are independent processes: run them 8 at a time, emit in order
	outs := make([]string, len(lines))
	sem := make(chan struct{}, 8)
	var wg sync.WaitGroup
	for i, l := range lines {
		wg.Add(1)
		sem <- struct{}{}
		go func(i int, l string) {
			defer wg.Done()
			defer func() { <-sem }()
			f := strings.Fields(l)
			var sigs []string
			if f[3] != "-" {
				sigs = strings.Split(f[3], ",")
			}
			outs[i] = runLoopOne(f[1], f[2], sigs)
		}(i, l)
	}
	wg.Wait()
	for i, l := range lines {
		c.Emit(l, outs[i])
	}
	return nil
}
