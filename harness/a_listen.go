package main

import (
	"context"
	"errors"
	"fmt"
	"github.com/nextdns/nextdns/discovery"
	"net"
	"os"
	"path/filepath"
	"runtime"
	"strconv"
	"strings"
	"sync"
	"sync/atomic"
	"time"

	"github.com/nextdns/nextdns/proxy"
)

// listen area (C16): the real ListenAndServe on 1-4 loopback addresses with chosen listeners
// made to fail (the harness holds the port), and/or a stop after a delay. Observed: does it
// return within 3 s, which class of error, and can every address be bound again at once.
//
// case: listen <n> <udpFailMask> <tcpFailMask> <stopDelayMs|-1> <rep>

func classifyListenErr(err error, stopped bool) string {
	if stopped {
		return "any" // a stop races with everything else; only promptness and cleanup are checked
	}
	if err == nil {
		return "nil"
	}
	s := err.Error()
	switch {
	case strings.Contains(s, "address already in use"), strings.Contains(s, "cannot assign requested address"):
		return "bind"
	case errors.Is(err, context.Canceled):
		return "canceled"
	case strings.Contains(s, "use of closed network connection"):
		return "closed"
	}
	return "other"
}

// listenCaps: max-inflight-requests of a case, chosen by its repetition number: small capacities put fewer units in the
// shared semaphore than there are UDP read loops (each holds one while it waits for a packet)
var listenCaps = []uint{8, 1, 2, 8, 3, 1}

func runListen(n int, udpFail, tcpFail string, stopMs int, rep int) string {
	addrs := make([]string, n)
	var held []interface{ Close() error }
	for i := 0; i < n; i++ {
		host := "127.0.0.1"
		if i == 3 {
			host = "[::1]"
		}
		port := freePort()
		if udpFail[i] == '2' || tcpFail[i] == '2' {
			// an address that is not assigned to any interface of this host: both binds fail with
			// EADDRNOTAVAIL (a mistyped listen address, an interface that is gone)
			host = notAvailHost(i == 3)
		}
		if udpFail[i] == '3' || tcpFail[i] == '3' {
			// a listen address given by NAME: ListenAndServe resolves it through the hosts file
			// (here: lan-a = 127.0.0.1 and ::1, so this one entry becomes four listeners)
			host = "lan-a"
		}
		if udpFail[i] == '4' || tcpFail[i] == '4' {
			// a NAME the hosts file maps to two addresses, one of them not assigned to this host (an interface that is
			// down, IPv6 switched off): two of its four listeners cannot bind - the start must fail like any other
			host = "lan-b"
		}
		addrs[i] = host + ":" + strconv.Itoa(port)
		if udpFail[i] == '1' {
			if c, err := net.ListenPacket("udp", addrs[i]); err == nil {
				held = append(held, c)
			}
		}
		if tcpFail[i] == '1' {
			if c, err := net.Listen("tcp", addrs[i]); err == nil {
				held = append(held, c)
			}
		}
	}
	up := &scripted{pick: nil}
	if rep < 0 {
		rep = -rep
	}
	p := proxy.Proxy{Addrs: addrs, Upstream: up, MaxInflightRequests: listenCaps[rep%len(listenCaps)]}
	if rep%2 == 1 {
		// an error log that takes its time (run.go hands errors to the host logger: syslog, a file): what ListenAndServe
		// reports must not depend on how long logging takes
		p.ErrorLog = func(error) { time.Sleep(120 * time.Millisecond) }
	}
	ctx, cancel := context.WithCancel(context.Background())
	defer cancel()
	done := make(chan error, 1)
	go func() { done <- p.ListenAndServe(ctx) }()
	stopped := false
	var clients []net.Conn
	if stopMs >= 0 {
		if stopMs >= 40 && !strings.ContainsAny(udpFail+tcpFail, "1234") {
			// every listener is up by now: clients connect over TCP and STAY connected (one has had a query
			// answered, the others are idle) while the service is stopped - the normal state of a running daemon
			time.Sleep(time.Duration(stopMs-15) * time.Millisecond)
			for i, a := range addrs {
				if c, err := net.DialTimeout("tcp", a, 300*time.Millisecond); err == nil {
					clients = append(clients, c)
					if i == 0 {
						q := []byte{0x77, 0x01, 1, 0, 0, 1, 0, 0, 0, 0, 0, 0, 1, 'h', 0, 0, 1, 0, 1}
						_, _ = c.Write(append(be16(len(q)), q...))
					}
				}
			}
			time.Sleep(15 * time.Millisecond)
		} else {
			time.Sleep(time.Duration(stopMs) * time.Millisecond)
		}
		cancel()
		stopped = true
	}
	defer func() {
		for _, c := range clients {
			c.Close()
		}
	}()
	returned := 0
	cls := "-"
	select {
	case err := <-done:
		returned = 1
		cls = classifyListenErr(err, stopped)
	case <-time.After(3 * time.Second):
	}
	for _, h := range held {
		h.Close()
	}
	for _, c := range clients {
		c.Close()
	}
	clients = nil
	rebind := "ok"
	for i, a := range addrs {
		if udpFail[i] == '2' || tcpFail[i] == '2' {
			continue // cannot be bound by anybody
		}
		if udpFail[i] == '3' || tcpFail[i] == '3' || udpFail[i] == '4' || tcpFail[i] == '4' {
			port := a[strings.LastIndex(a, ":")+1:]
			ras := []string{"127.0.0.1:" + port, "[::1]:" + port}
			if udpFail[i] == '4' || tcpFail[i] == '4' {
				ras = ras[:1] // the other address of lan-b cannot be bound by anybody
			}
			for _, ra := range ras {
				if c, err := net.ListenPacket("udp", ra); err != nil {
					rebind = "busy"
				} else {
					c.Close()
				}
				if c, err := net.Listen("tcp", ra); err != nil {
					rebind = "busy"
				} else {
					c.Close()
				}
			}
			continue
		}
		if c, err := net.ListenPacket("udp", a); err != nil {
			rebind = "busy"
		} else {
			c.Close()
		}
		if c, err := net.Listen("tcp", a); err != nil {
			rebind = "busy"
		} else {
			c.Close()
		}
	}
	return fmt.Sprintf("returned=%d err=%s rebind=%s", returned, cls, rebind)
}

// runListenBurst: every listener of n addresses fails to bind (the ports are held on UDP and TCP),
// and the listener goroutines are lined up just before they bind (InfoLog is called by each right
// before binding) so that their reports race with main's own; repeated `rounds` times. Each start
// must return the bind error within 3 s. Stops at the first round that does not.
//
// case: listenburst <n> <rounds> <rep>
func runListenBurst(n, rounds int) string {
	addrs := make([]string, n)
	var held []interface{ Close() error }
	for i := 0; i < n; i++ {
		for try := 0; try < 50; try++ {
			a := "127.0.0.1:" + strconv.Itoa(freePort())
			u, err := net.ListenPacket("udp", a)
			if err != nil {
				continue
			}
			t, err := net.Listen("tcp", a)
			if err != nil {
				u.Close()
				continue
			}
			held = append(held, u, t)
			addrs[i] = a
			break
		}
		if addrs[i] == "" {
			return "harness: no port free on both UDP and TCP"
		}
	}
	returned := 0
	cls := "bind"
	for k := 0; k < rounds; k++ {
		var arrived int32
		want := int32(2 * n)
		p := proxy.Proxy{Addrs: addrs, Upstream: &scripted{pick: nil}, MaxInflightRequests: 8,
			InfoLog: func(string) {
				atomic.AddInt32(&arrived, 1)
				for dl := time.Now().Add(20 * time.Millisecond); atomic.LoadInt32(&arrived) < want && time.Now().Before(dl); {
					runtime.Gosched()
				}
			}}
		done := make(chan error, 1)
		go func() { done <- p.ListenAndServe(context.Background()) }()
		select {
		case err := <-done:
			if c := classifyListenErr(err, false); c != "bind" {
				cls = c
			} else {
				returned++
			}
		case <-time.After(3 * time.Second):
			cls = "-"
		}
		if returned != k+1 {
			break
		}
	}
	for _, h := range held {
		h.Close()
	}
	rebind := "ok"
	for _, a := range addrs {
		if c, err := net.ListenPacket("udp", a); err != nil {
			rebind = "busy"
		} else {
			c.Close()
		}
		if c, err := net.Listen("tcp", a); err != nil {
			rebind = "busy"
		} else {
			c.Close()
		}
	}
	return fmt.Sprintf("returned=%d/%d err=%s rebind=%s", returned, rounds, cls, rebind)
}

var notAvailOnce sync.Once
var notAvail4, notAvail6 string

// notAvailHost: a documentation address that is really NOT assigned to this machine (binding it
// fails with EADDRNOTAVAIL); "" when none is found. Probed, because sandboxes do use TEST-NET
// addresses on their interfaces.
func notAvailHost(v6 bool) string {
	notAvailOnce.Do(func() {
		probe := func(h string) bool {
			c, err := net.Listen("tcp", h+":0")
			if c != nil {
				c.Close()
			}
			if err == nil || !strings.Contains(err.Error(), "cannot assign requested address") {
				return false
			}
			u, err := net.ListenPacket("udp", h+":0")
			if u != nil {
				u.Close()
			}
			return err != nil && strings.Contains(err.Error(), "cannot assign requested address")
		}
		for _, h := range []string{"198.51.100.77", "203.0.113.77", "192.0.2.177", "100.64.99.77"} {
			if probe(h) {
				notAvail4 = h
				break
			}
		}
		for _, h := range []string{"[2001:db8::77]", "[2001:db8:ffff::77]"} {
			if probe(h) {
				notAvail6 = h
				break
			}
		}
	})
	if v6 && notAvail6 != "" {
		return notAvail6
	}
	return notAvail4
}

func notAvailWorks() bool { return notAvailHost(false) != "" }

func init() {
	areas["listen"] = func(c *Ctx) error {
		r := NewRng(c.seed)
		// the hosts file ListenAndServe resolves listen names through
		hf := filepath.Join(c.dir, "listen-hosts")
		hostsText := "127.0.0.1 localhost lan-a\n::1 lan-a\n"
		if notAvailWorks() {
			hostsText += "127.0.0.1 lan-b\n" + notAvailHost(false) + " lan-b\n"
		}
		_ = os.WriteFile(hf, []byte(hostsText), 0644)
		discovery.VerifSetHostsFiles([]string{hf})
		burst := func(n, rounds, rep int) {
			c.Emit(fmt.Sprintf("listenburst %d %d %d", n, rounds, rep), runListenBurst(n, rounds))
			c.Stat("kind:burst-allfail")
		}
		one := func(n int, uf, tf string, stop, rep int) {
			out := runListen(n, uf, tf, stop, rep)
			c.Stat(fmt.Sprintf("max-inflight:%d", listenCaps[rep%len(listenCaps)]))
			c.Emit(fmt.Sprintf("listen %d %s %s %d %d", n, uf, tf, stop, rep), out)
			c.Stat("n:" + strconv.Itoa(n))
			if stop >= 0 {
				c.Stat("kind:stop")
			}
			if strings.ContainsAny(uf+tf, "124") {
				c.Stat("kind:bindfail")
			}
		}
		if ls := replayLines(); ls != nil {
			for _, l := range ls {
				f := strings.Fields(l)
				if len(f) == 4 && f[0] == "listenburst" {
					n, _ := strconv.Atoi(f[1])
					rounds, _ := strconv.Atoi(f[2])
					rep, _ := strconv.Atoi(f[3])
					if n >= 1 && n <= 4 && rounds >= 1 && rounds <= 100000 {
						burst(n, rounds, rep)
					}
				}
				if len(f) == 6 && f[0] == "listen" {
					n, _ := strconv.Atoi(f[1])
					stop, _ := strconv.Atoi(f[4])
					rep, _ := strconv.Atoi(f[5])
					if n >= 1 && n <= 4 && len(f[2]) == n && len(f[3]) == n {
						one(n, f[2], f[3], stop, rep)
					}
				}
			}
			return nil
		}
		for i := 0; i < c.n; i++ {
			if i%25 == 3 {
				// all listeners fail at about the same time, many starts in a row
				burst(1+r.Intn(2)*r.Intn(2), 150, i)
				continue
			}
			n := 1 + r.Intn(4)
			uf, tf := "", ""
			for j := 0; j < n; j++ {
				uf += strconv.Itoa(r.Intn(2) * r.Intn(2))
				tf += strconv.Itoa(r.Intn(2) * r.Intn(2))
			}
			if notAvailWorks() && r.Chance(15) {
				// one address is not assigned to this host
				j := r.Intn(n)
				uf = uf[:j] + "2" + uf[j+1:]
				tf = tf[:j] + "2" + tf[j+1:]
				c.Stat("kind:addr-not-available")
			}
			if r.Chance(12) {
				// one address is a name of the hosts file
				j := r.Intn(n)
				if uf[j] == '0' && tf[j] == '0' {
					uf = uf[:j] + "3" + uf[j+1:]
					tf = tf[:j] + "3" + tf[j+1:]
					c.Stat("kind:named-address")
				}
			}
			if notAvailWorks() && r.Chance(8) {
				j := r.Intn(n)
				if uf[j] == '0' && tf[j] == '0' && j != 3 {
					uf = uf[:j] + "4" + uf[j+1:]
					tf = tf[:j] + "4" + tf[j+1:]
					c.Stat("kind:named-address-partly-unavailable")
				}
			}
			stop := -1
			if r.Chance(40) {
				stop = r.Pick([]int{0, 0, 1, 2, 5, 20, 50, 60, 80})
			}
			if stop < 0 && !strings.ContainsAny(uf+tf, "124") {
				// nothing would ever end serving: make exactly one listener fail (not one of a named address)
				j := strings.IndexByte(uf, '0')
				switch {
				case j < 0:
					stop = 20
				case r.Bool():
					uf = uf[:j] + "1" + uf[j+1:]
				default:
					tf = tf[:j] + "1" + tf[j+1:]
				}
			}
			one(n, uf, tf, stop, i)
		}
		return nil
	}
}
