package main

import (
	"context"
	"errors"
	"fmt"
	"net"
	"strconv"
	"strings"
	"sync"
	"sync/atomic"
	"time"

	"github.com/nextdns/nextdns/proxy"
	"github.com/nextdns/nextdns/resolver"
	"github.com/nextdns/nextdns/resolver/endpoint"
	"github.com/nextdns/nextdns/resolver/query"
)

// cap area (C04): storms of requests ending in every possible way against the real
// ListenAndServe with a small capacity K, then a rendezvous of K+2 slow queries measuring how
// many the proxy processes concurrently (must be exactly K) and whether all are answered.

type gateUpstream struct {
	active    int32
	maxActive int32
	gate      chan struct{}
	mu        sync.Mutex
	// d53: the REAL plain-DNS resolver (resolver.DNS -> manager -> DNS53.resolve) pointed at a
	// loopback server that answers over UDP with the TC bit set and whose TCP side accepts
	// connections and never answers (queries named d53tc.*)
	d53 resolver.Resolver
}

// startTruncatingDNS: UDP answers = the query's header with QR and TC set; TCP: accept and stall.
func startTruncatingDNS() (addr string, stop func()) {
	pc, err := net.ListenPacket("udp", "127.0.0.1:0")
	if err != nil {
		return "", func() {}
	}
	addr = pc.LocalAddr().String()
	tl, terr := net.Listen("tcp", addr)
	var held []net.Conn
	var hmu sync.Mutex
	if terr == nil {
		go func() {
			for {
				c, err := tl.Accept()
				if err != nil {
					return
				}
				hmu.Lock()
				held = append(held, c)
				hmu.Unlock()
			}
		}()
	}
	go func() {
		buf := make([]byte, 4096)
		for {
			n, from, err := pc.ReadFrom(buf)
			if err != nil {
				return
			}
			if n < 12 {
				continue
			}
			rep := append([]byte{}, buf[:n]...)
			rep[2] = 0x83 // QR, TC, RD
			rep[3] = 0x80
			_, _ = pc.WriteTo(rep, from)
		}
	}()
	return addr, func() {
		pc.Close()
		if tl != nil {
			tl.Close()
		}
		hmu.Lock()
		for _, c := range held {
			c.Close()
		}
		hmu.Unlock()
	}
}

func (g *gateUpstream) Resolve(ctx context.Context, q query.Query, buf []byte) (int, resolver.ResolveInfo, error) {
	kind := q.Name
	if i := strings.IndexByte(kind, '.'); i >= 0 {
		kind = kind[:i]
	}
	switch kind {
	case "d53tc":
		if g.d53 != nil {
			return g.d53.Resolve(ctx, q, buf)
		}
	case "slow":
		n := atomic.AddInt32(&g.active, 1)
		for {
			m := atomic.LoadInt32(&g.maxActive)
			if n <= m || atomic.CompareAndSwapInt32(&g.maxActive, m, n) {
				break
			}
		}
		g.mu.Lock()
		gate := g.gate
		g.mu.Unlock()
		<-gate
		atomic.AddInt32(&g.active, -1)
	case "err":
		return 0, resolver.ResolveInfo{}, errors.New("scripted error")
	case "panic":
		panic("scripted upstream panic")
	case "timeout":
		<-ctx.Done()
		return 0, resolver.ResolveInfo{}, ctx.Err()
	}
	return synthResp(q.ID, 40, 1, buf), resolver.ResolveInfo{}, nil
}

func kindQuery(id int, kind string) []byte {
	body := wireName(kind, "test")
	body = append(body, 0, 1, 0, 1)
	hdr := append(be16(id), 0x01, 0x00, 0, 1, 0, 0, 0, 0, 0, 0)
	return append(hdr, body...)
}

var capEvents = []string{"udp-ok", "udp-err", "udp-timeout", "udp-panic", "udp-small", "udp-malformed", "udp-d53tc", "tcp-d53tc",
	"tcp-ok", "tcp-err", "tcp-panic", "tcp-small", "tcp-midframe", "tcp-idle-close", "tcp-timeout", "tcp-pipeline", "tcp-empty", "tcp-tinyframes", "tcp-pipeline-abort"}

func fireAndForgetUDP(addr string, p []byte) {
	if c, err := net.Dial("udp", addr); err == nil {
		_, _ = c.Write(p)
		c.Close()
	}
}

func runCap(addr string, g *gateUpstream, k int, events []string) string {
	id := 1
	for _, e := range events {
		id++
		switch e {
		case "udp-ok":
			_, _ = udpExchange(addr, kindQuery(id, "ok"), 500*time.Millisecond)
		case "udp-err":
			_, _ = udpExchange(addr, kindQuery(id, "err"), 500*time.Millisecond)
		case "udp-d53tc":
			_, _ = udpExchange(addr, kindQuery(id, "d53tc"), 700*time.Millisecond)
		case "tcp-d53tc":
			t := &tcpClient{}
			_, _ = t.exchange(addr, kindQuery(id, "d53tc"), 700*time.Millisecond)
			if t.c != nil {
				t.c.Close()
			}
		case "udp-timeout":
			_, _ = udpExchange(addr, kindQuery(id, "timeout"), 700*time.Millisecond)
		case "udp-panic":
			fireAndForgetUDP(addr, kindQuery(id, "panic"))
			time.Sleep(20 * time.Millisecond)
		case "udp-small":
			fireAndForgetUDP(addr, []byte{1, 2, 3, 4, 5, 6, 7, 8, 9, 10, 11, 12, 13, 14})
		case "udp-malformed":
			_, _ = udpExchange(addr, append(be16(id), 1, 0, 0, 1, 0, 0, 0, 0, 0, 0, 0x80, 1, 2, 3, 4, 5), 500*time.Millisecond)
		case "tcp-ok", "tcp-err", "tcp-panic", "tcp-timeout":
			t := &tcpClient{}
			_, _ = t.exchange(addr, kindQuery(id, e[4:]), 700*time.Millisecond)
			if t.c != nil {
				t.c.Close()
			}
		case "tcp-small":
			t := &tcpClient{}
			_, _ = t.exchange(addr, []byte{1, 2, 3, 4, 5}, 300*time.Millisecond)
			if t.c != nil {
				t.c.Close()
			}
		case "tcp-pipeline-abort":
			// three queries pipelined on one connection whose resolution runs into the request timeout; the client is gone
			// (connection reset) long before the handlers try to write their answers
			if c, err := net.DialTimeout("tcp", addr, time.Second); err == nil {
				for j := 0; j < 3; j++ {
					q := kindQuery(id+100*j, "timeout")
					_, _ = c.Write(append(be16(len(q)), q...))
				}
				time.Sleep(20 * time.Millisecond)
				if tc, ok := c.(*net.TCPConn); ok {
					_ = tc.SetLinger(0)
				}
				c.Close()
			}
		case "tcp-empty":
			// zero-length frames (length prefix 0x0000), several on one connection, then close
			if c, err := net.DialTimeout("tcp", addr, time.Second); err == nil {
				for j := 0; j < 3; j++ {
					_, _ = c.Write([]byte{0, 0})
					time.Sleep(5 * time.Millisecond)
				}
				time.Sleep(20 * time.Millisecond)
				c.Close()
			}
		case "tcp-tinyframes":
			// frames of 1, 14 and 0 bytes back to back in one segment, then a well-formed query
			if c, err := net.DialTimeout("tcp", addr, time.Second); err == nil {
				b := []byte{0, 1, 9, 0, 14, 1, 2, 3, 4, 5, 6, 7, 8, 9, 10, 11, 12, 13, 14, 0, 0}
				q := kindQuery(id, "ok")
				b = append(b, be16(len(q))...)
				b = append(b, q...)
				_, _ = c.Write(b)
				time.Sleep(50 * time.Millisecond)
				c.Close()
			}
		case "tcp-midframe":
			if c, err := net.DialTimeout("tcp", addr, time.Second); err == nil {
				_, _ = c.Write([]byte{0, 40, 1, 2, 3})
				time.Sleep(10 * time.Millisecond)
				c.Close()
			}
		case "tcp-idle-close":
			if c, err := net.DialTimeout("tcp", addr, time.Second); err == nil {
				time.Sleep(10 * time.Millisecond)
				c.Close()
			}
		case "tcp-pipeline":
			if c, err := net.DialTimeout("tcp", addr, time.Second); err == nil {
				for j := 0; j < 3; j++ {
					q := kindQuery(id+100*j, "ok")
					_, _ = c.Write(append(be16(len(q)), q...))
				}
				time.Sleep(100 * time.Millisecond)
				c.Close()
			}
		}
	}
	// let server-side connection handlers notice closed peers and timeouts expire
	time.Sleep(450 * time.Millisecond)
	// rendezvous: K+2 slow queries
	atomic.StoreInt32(&g.maxActive, 0)
	n := k + 2
	var wg sync.WaitGroup
	var replied int32
	for j := 0; j < n; j++ {
		wg.Add(1)
		go func(j int) {
			defer wg.Done()
			if r, err := udpExchange(addr, kindQuery(1000+j, "slow"), 6*time.Second); err == nil && len(r) >= 12 {
				atomic.AddInt32(&replied, 1)
			}
		}(j)
		time.Sleep(5 * time.Millisecond)
	}
	deadline := time.Now().Add(2 * time.Second)
	for time.Now().Before(deadline) && int(atomic.LoadInt32(&g.active)) < k {
		time.Sleep(10 * time.Millisecond)
	}
	time.Sleep(150 * time.Millisecond) // would a (K+1)-th handler start?
	max := atomic.LoadInt32(&g.maxActive)
	g.mu.Lock()
	close(g.gate)
	g.mu.Unlock()
	wg.Wait()
	g.mu.Lock()
	g.gate = make(chan struct{})
	g.mu.Unlock()
	probe := "ok"
	if r, err := udpExchange(addr, kindQuery(7, "ok"), time.Second); err != nil || len(r) < 12 {
		probe = "dead"
	}
	// second rendezvous, mixed transports: K+2 slow queries alternating UDP / TCP (one connection
	// each), so that neither transport alone exceeds K but together they do: the capacity is ONE
	// pool shared by every listener
	atomic.StoreInt32(&g.maxActive, 0)
	var replied2 int32
	for j := 0; j < n; j++ {
		wg.Add(1)
		go func(j int) {
			defer wg.Done()
			q := kindQuery(2000+j, "slow")
			if j%2 == 0 {
				if r, err := udpExchange(addr, q, 6*time.Second); err == nil && len(r) >= 12 {
					atomic.AddInt32(&replied2, 1)
				}
				return
			}
			t := &tcpClient{}
			if r, err := t.exchange(addr, q, 6*time.Second); err == nil && len(r) >= 24 {
				atomic.AddInt32(&replied2, 1)
			}
			if t.c != nil {
				t.c.Close()
			}
		}(j)
		time.Sleep(5 * time.Millisecond)
	}
	deadline = time.Now().Add(2 * time.Second)
	for time.Now().Before(deadline) && int(atomic.LoadInt32(&g.active)) < k {
		time.Sleep(10 * time.Millisecond)
	}
	time.Sleep(200 * time.Millisecond)
	max2 := atomic.LoadInt32(&g.maxActive)
	g.mu.Lock()
	close(g.gate)
	g.mu.Unlock()
	wg.Wait()
	g.mu.Lock()
	g.gate = make(chan struct{})
	g.mu.Unlock()
	mix := "ok"
	if int(max2) > k {
		mix = fmt.Sprintf("over:%d", max2)
	}
	return fmt.Sprintf("max=%d replied=%d/%d probe=%s mix=%s mixreplied=%d/%d", max, replied, n, probe, mix, replied2, n)
}


// capudp <K> <n>: the real serveUDP on a socket the harness owns, K capacity units. After a few ordinary queries the
// listener's PENDING READ is made to fail n times with a transient error (an expired read deadline, cleared again at once -
// what a socket under memory pressure or with a deadline does); then K slow queries must run concurrently and be answered,
// and the listener must still return when its socket is closed.   -> max=<m> replied=<r>/<K> returned=<0|1>
func runCapUDP(k, nerr int) string {
	pc, err := net.ListenPacket("udp", "127.0.0.1:0")
	if err != nil {
		return "ERR " + err.Error()
	}
	g := &gateUpstream{gate: make(chan struct{})}
	p := proxy.Proxy{Upstream: g, Timeout: 3 * time.Second}
	done := make(chan error, 1)
	go func() { done <- p.VerifServeUDP(pc, make(chan struct{}, k)) }()
	addr := pc.LocalAddr().String()
	for i := 0; i < 3; i++ {
		_, _ = udpExchange(addr, kindQuery(10+i, "ok"), 500*time.Millisecond)
	}
	uc := pc.(*net.UDPConn)
	for i := 0; i < nerr; i++ {
		_ = uc.SetReadDeadline(time.Now().Add(-time.Second))
		time.Sleep(15 * time.Millisecond)
		_ = uc.SetReadDeadline(time.Time{})
		time.Sleep(5 * time.Millisecond)
	}
	atomic.StoreInt32(&g.maxActive, 0)
	var wg sync.WaitGroup
	var replied int32
	for j := 0; j < k; j++ {
		wg.Add(1)
		go func(j int) {
			defer wg.Done()
			if r, err := udpExchange(addr, kindQuery(1000+j, "slow"), 4*time.Second); err == nil && len(r) >= 12 {
				atomic.AddInt32(&replied, 1)
			}
		}(j)
		time.Sleep(5 * time.Millisecond)
	}
	dl := time.Now().Add(1500 * time.Millisecond)
	for time.Now().Before(dl) && int(atomic.LoadInt32(&g.active)) < k {
		time.Sleep(10 * time.Millisecond)
	}
	max := atomic.LoadInt32(&g.maxActive)
	g.mu.Lock()
	close(g.gate)
	g.mu.Unlock()
	wg.Wait()
	pc.Close()
	returned := 0
	select {
	case <-done:
		returned = 1
	case <-time.After(2 * time.Second):
	}
	return fmt.Sprintf("max=%d replied=%d/%d returned=%d", max, replied, k, returned)
}

// runCapListen: the real ListenAndServe on a addresses with capacity k (a <= k: every reader can hold its slot), k+a slow
// UDP queries spread over the addresses: how many does the proxy process at once?
func runCapListen(k, a int) string {
	g := &gateUpstream{gate: make(chan struct{})}
	var addrs []string
	for i := 0; i < a; i++ {
		addrs = append(addrs, "127.0.0.1:"+strconv.Itoa(freePort()))
	}
	ctx, cancel := context.WithCancel(context.Background())
	defer cancel()
	p := proxy.Proxy{Addrs: addrs, Upstream: g, Timeout: 3 * time.Second, MaxInflightRequests: uint(k)}
	done := make(chan error, 1)
	go func() { done <- p.ListenAndServe(ctx) }()
	for _, ad := range addrs {
		// wait until the listener answers: a probe sent before the socket is bound is refused at once (ICMP), so pause
		// between attempts and give up only after 5 s of wall time
		up := false
		for i, dl := 0, time.Now().Add(5*time.Second); !up && time.Now().Before(dl); i++ {
			if r, err := udpExchange(ad, kindQuery(10+i%200, "ok"), 200*time.Millisecond); err == nil && len(r) >= 12 {
				up = true
			} else {
				time.Sleep(20 * time.Millisecond)
			}
		}
		if !up {
			why := "still serving"
			select {
			case err := <-done:
				why = fmt.Sprintf("ListenAndServe returned %v", err)
			default:
			}
			return "ERR listener " + ad + " did not come up (" + why + ")"
		}
	}
	atomic.StoreInt32(&g.maxActive, 0)
	n := k + a
	var wg sync.WaitGroup
	var replied int32
	for j := 0; j < n; j++ {
		wg.Add(1)
		go func(j int) {
			defer wg.Done()
			if r, err := udpExchange(addrs[j%a], kindQuery(1000+j, "slow"), 4*time.Second); err == nil && len(r) >= 12 {
				atomic.AddInt32(&replied, 1)
			}
		}(j)
		time.Sleep(5 * time.Millisecond)
	}
	// settle: k handlers in the resolver, and long enough for one more to show up if the proxy lets it in
	dl := time.Now().Add(1500 * time.Millisecond)
	for time.Now().Before(dl) && int(atomic.LoadInt32(&g.active)) < k {
		time.Sleep(10 * time.Millisecond)
	}
	time.Sleep(150 * time.Millisecond)
	max := atomic.LoadInt32(&g.maxActive)
	g.mu.Lock()
	close(g.gate)
	g.mu.Unlock()
	wg.Wait()
	return fmt.Sprintf("max=%d replied=%d/%d", max, replied, n)
}

func init() {
	areas["cap"] = func(c *Ctx) error {
		r := NewRng(c.seed)
		one := func(k int, events []string) error {
			g := &gateUpstream{gate: make(chan struct{})}
			d53addr, d53stop := startTruncatingDNS()
			defer d53stop()
			if d53addr != "" {
				ep := &endpoint.DNSEndpoint{Addr: d53addr}
				g.d53 = &resolver.DNS{Manager: &endpoint.Manager{
					Providers:      []endpoint.Provider{endpoint.StaticProvider([]endpoint.Endpoint{ep})},
					InitEndpoint:   ep,
					ErrorThreshold: 1 << 30,
					EndpointTester: func(endpoint.Endpoint) endpoint.Tester {
						return func(ctx context.Context, testDomain string) error { return nil }
					},
				}}
			}
			up := &scripted{}
			_ = up
			srv, err := startServerWith(g, uint(k), 300*time.Millisecond)
			if err != nil {
				return err
			}
			out := runCap(srv.addr, g, k, events)
			srv.stop()
			c.Emit("cap "+strconv.Itoa(k)+" "+strings.Join(events, ","), out)
			for _, e := range events {
				c.Stat("event:" + e)
			}
			c.Stat("K:" + strconv.Itoa(k))
			return nil
		}
		if ls := replayLines(); ls != nil {
			for _, l := range ls {
				f := strings.Fields(l)
				if len(f) == 3 && f[0] == "capudp" {
					k, _ := strconv.Atoi(f[1])
					n, _ := strconv.Atoi(f[2])
					c.Emit(l, runCapUDP(k, n))
					continue
				}
				if len(f) == 3 && f[0] == "caplisten" {
					k, _ := strconv.Atoi(f[1])
					a, _ := strconv.Atoi(f[2])
					c.Emit(l, runCapListen(k, a))
					continue
				}
				if len(f) == 3 && f[0] == "cap" {
					k, _ := strconv.Atoi(f[1])
					if err := one(k, strings.Split(f[2], ",")); err != nil {
						return err
					}
				}
			}
			return nil
		}
		for i := 0; i < c.n; i++ {
			if i%3 == 2 {
				k, n := 2+r.Intn(3), 1+r.Intn(8)
				c.Stat("op:capudp")
				c.Emit(fmt.Sprintf("capudp %d %d", k, n), runCapUDP(k, n))
			}
			if i%3 == 1 {
				// the smallest capacities a configuration can have: as many units as listen addresses, and a few more
				a := 1 + r.Intn(3)
				k := a + []int{0, 0, 1, 2}[r.Intn(4)]
				c.Stat("op:caplisten")
				c.Stat(fmt.Sprintf("caplisten:K-A=%d", k-a))
				c.Emit(fmt.Sprintf("caplisten %d %d", k, a), runCapListen(k, a))
			}
			k := 2 + r.Intn(3)
			ne := 6 + r.Intn(14)
			evs := make([]string, ne)
			for j := range evs {
				evs[j] = capEvents[r.Intn(len(capEvents))]
			}
			// bursts of one kind exhaust a leaked capacity fastest
			if r.Chance(50) {
				e := capEvents[r.Intn(len(capEvents))]
				for j := 0; j < k+2; j++ {
					evs = append(evs, e)
				}
			}
			if err := one(k, evs); err != nil {
				return err
			}
		}
		return nil
	}
}
