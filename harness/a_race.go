package main

import (
	"bytes"
	"context"
	"crypto/x509"
	"fmt"
	"io"
	"net"
	"net/http"
	"net/http/httptest"
	"os"
	"path/filepath"
	"sync"
	"sync/atomic"
	"time"

	"github.com/nextdns/nextdns/config"
	"github.com/nextdns/nextdns/discovery"
	"github.com/nextdns/nextdns/proxy"
	"github.com/nextdns/nextdns/resolver"
	"github.com/nextdns/nextdns/resolver/endpoint"
	"github.com/nextdns/nextdns/resolver/query"
)

// race area (C15, built with -race): the whole query path under concurrent load while the hosts
// and lease files are rewritten and expired, elections run and the upstream announces profile
// changes. A report of the race detector fails the run (GORACE exitcode) and is the replay.

type mapCache struct {
	mu sync.Mutex
	m  map[interface{}]interface{}
}

func (c *mapCache) Add(k, v interface{}) { c.mu.Lock(); c.m[k] = v; c.mu.Unlock() }
func (c *mapCache) Get(k interface{}) (interface{}, bool) {
	c.mu.Lock()
	defer c.mu.Unlock()
	v, ok := c.m[k]
	return v, ok
}

const raceProxyTimeout = 250 * time.Millisecond

type fakeRT struct{ n int64 }

func (f *fakeRT) RoundTrip(req *http.Request) (*http.Response, error) {
	body, _ := io.ReadAll(req.Body)
	n := atomic.AddInt64(&f.n, 1)
	if n%17 == 0 {
		return nil, fmt.Errorf("scripted transport error")
	}
	if n%23 == 0 {
		// an upstream that answers only after the proxy's request timeout and does not look at the
		// request context: the handler must still be the only one touching its buffers
		time.Sleep(raceProxyTimeout + 150*time.Millisecond)
	}
	id := uint16(0)
	if len(body) >= 2 {
		id = uint16(body[0])<<8 | uint16(body[1])
	}
	b := make([]byte, 80)
	synthResp(id, 80, int(n), b)
	// a plausible message: header counts zero except one answer-less question is not needed here
	b[4], b[5], b[6], b[7], b[8], b[9], b[10], b[11] = 0, 0, 0, 0, 0, 0, 0, 0
	h := http.Header{}
	if n%5 == 0 {
		h.Set("X-Conf-Last-Modified", time.Now().UTC().Format(time.RFC1123))
	}
	return &http.Response{StatusCode: 200, Proto: "HTTP/2.0", Header: h, Body: io.NopCloser(bytes.NewReader(b))}, nil
}

type epRT struct {
	inner      http.RoundTripper
	host, path string
	bad        *int64
}

func (t *epRT) RoundTrip(req *http.Request) (*http.Response, error) {
	time.Sleep(300 * time.Microsecond) // "connecting"
	if req.URL.Host != t.host || req.URL.Path != t.path {
		atomic.AddInt64(t.bad, 1)
	}
	return t.inner.RoundTrip(req)
}


// dialSoak: see the call site. Returns "" or what went wrong functionally (the race detector speaks for itself).
func dialSoak(c *Ctx) string {
	ln, err := net.Listen("tcp", "0.0.0.0:0")
	if err != nil {
		return ""
	}
	ts := httptest.NewUnstartedServer(http.HandlerFunc(func(w http.ResponseWriter, r *http.Request) {
		body, _ := io.ReadAll(r.Body)
		rep := []byte{0, 0, 0x81, 0x80, 0, 0, 0, 0, 0, 0, 0, 0}
		if len(body) >= 2 {
			rep[0], rep[1] = body[0], body[1]
		}
		_, _ = w.Write(rep)
	}))
	ts.Listener.Close()
	ts.Listener = ln
	ts.EnableHTTP2 = true
	ts.StartTLS()
	defer ts.Close()
	_, port, _ := net.SplitHostPort(ln.Addr().String())
	roots := x509.NewCertPool()
	roots.AddCert(ts.Certificate())
	ep := &endpoint.DOHEndpoint{Hostname: "example.com"}
	ep.VerifUseTransportAddrs([]string{"127.0.0.1:" + port, "127.0.0.2:" + port}, roots)
	var bad int64
	rounds := 6
	if c.tier == "thorough" {
		rounds = 40
	}
	for k := 0; k < rounds; k++ {
		var wg sync.WaitGroup
		for j := 0; j < 8; j++ {
			wg.Add(1)
			go func(j int) {
				defer wg.Done()
				ctx, cancel := context.WithTimeout(context.Background(), 3*time.Second)
				defer cancel()
				buf := make([]byte, 512)
				q := []byte{byte(k), byte(j), 1, 0, 0, 1, 0, 0, 0, 0, 0, 0, 1, 'd', 0, 0, 1, 0, 1}
				n, err := ep.Exchange(ctx, q, buf)
				if err != nil || n < 12 || buf[0] != byte(k) || buf[1] != byte(j) {
					atomic.AddInt64(&bad, 1)
				}
			}(j)
		}
		wg.Wait()
		ep.VerifCloseIdle()
	}
	if bad > 0 {
		return fmt.Sprintf("dial soak: %d of %d exchanges over an endpoint with two bootstrap addresses failed or got another exchange's answer", bad, rounds*8)
	}
	return ""
}

func writeFileAtomic(path, content string) {
	tmp := path + ".tmp"
	_ = os.WriteFile(tmp, []byte(content), 0644)
	_ = os.Rename(tmp, path)
}

func init() {
	areas["race"] = func(c *Ctx) error {
		if replayLines() != nil {
			return nil
		}
		dir, err := os.MkdirTemp("", "nvrace")
		if err != nil {
			return err
		}
		defer os.RemoveAll(dir)
		hostsPath := filepath.Join(dir, "hosts")
		leasePath := filepath.Join(dir, "dnsmasq.leases")
		mkHosts := func(k int) string {
			return fmt.Sprintf("127.0.0.1 localhost\n10.1.1.%d nas.lan nas\n10.1.1.7 printer.lan\nfd00::%d nas.lan\n", k%250+1, k%250+1)
		}
		mkLease := func(k int) string {
			return fmt.Sprintf("1700000000 aa:bb:cc:dd:ee:%02x 192.168.1.%d phone *\n1700000000 aa:bb:cc:dd:ee:01 192.168.1.9 laptop *\n", k%250, k%250+1)
		}
		writeFileAtomic(hostsPath, mkHosts(0))
		writeFileAtomic(leasePath, mkLease(0))
		discovery.VerifSetHostsFiles([]string{hostsPath})
		discovery.VerifSetLeaseFile(leasePath, "dnsmasq")
		hosts := &discovery.Hosts{}
		dhcp := &discovery.DHCP{}
		rt := &fakeRT{}
		// every endpoint keeps the package's own transport wrapper (it rewrites the request URL for the endpoint);
		// behind it a per-endpoint checker that, like http.Transport, looks at the request URL only after a while:
		// a request must reach an endpoint with THAT endpoint's host and path
		var misrouted int64
		mkEp := func(host string) *endpoint.DOHEndpoint {
			e := &endpoint.DOHEndpoint{Hostname: host, Path: "/" + host[:1]}
			e.VerifWrapRoundTripper(&epRT{inner: rt, host: host + ":443", path: e.Path, bad: &misrouted})
			return e
		}
		healthy := int32(1)
		mgr := &endpoint.Manager{
			Providers: []endpoint.Provider{endpoint.ProviderFunc(func(ctx context.Context) ([]endpoint.Endpoint, error) {
				return []endpoint.Endpoint{mkEp("a.example"), mkEp("b.example")}, nil
			})},
			InitEndpoint:    mkEp("a.example"),
			ErrorThreshold:  3,
			MinTestInterval: 20 * time.Millisecond,
			EndpointTester: func(e endpoint.Endpoint) endpoint.Tester {
				return func(ctx context.Context, testDomain string) error {
					if atomic.LoadInt32(&healthy) == 0 && e.String() == "https://a.example/a" {
						return fmt.Errorf("probe failed")
					}
					return nil
				}
			},
		}
		cache := &mapCache{m: map[interface{}]interface{}{}}
		res := &resolver.DNS{Manager: mgr}
		res.DOH.Cache = cache
		res.DNS53.Cache = cache
		res.DOH.CacheMaxAge = 1
		res.DOH.GetProfileURL = func(q query.Query) (string, string) {
			if len(q.Name) > 0 && q.Name[0] == 'w' {
				return "https://dns.nextdns.io/aaa111", "aaa111"
			}
			return "https://dns.nextdns.io/bbb222", "bbb222"
		}
		// the mDNS source: the real receive loop on a loopback socket, fed by a background
		// announcer; entries are aged now and then (code that only runs for old entries)
		mconn, merr := net.ListenUDP("udp4", &net.UDPAddr{IP: net.IPv4(127, 0, 0, 1)})
		if merr != nil {
			return merr
		}
		mdns := discovery.VerifNewMDNS()
		mdone := make(chan struct{})
		go func() {
			defer func() { recover(); close(mdone) }()
			discovery.VerifMDNSRead(mdns, mconn)
		}()
		defer func() { mconn.Close(); <-mdone }()
		msnd, merr := net.DialUDP("udp4", nil, mconn.LocalAddr().(*net.UDPAddr))
		if merr != nil {
			return merr
		}
		defer msnd.Close()
		announce := func(name, addr string) {
			p := mpkt{ok: true, recs: []mrec{{sec: 0, kind: "4", name: name, addr: addr}}}
			_, _ = msnd.Write(p.wire(0))
		}
		announce("client.local.", "127.0.0.1")
		announce("Tv.local.", "192.168.1.50")
		announce("phone.local.", "192.168.1.9")
		time.Sleep(50 * time.Millisecond)
		disc := discovery.Resolver{hosts, dhcp, mdns}
		res.DOH.ClientInfo = func(q query.Query) resolver.ClientInfo {
			names := disc.LookupAddr(q.PeerIP.String())
			n := ""
			if len(names) > 0 {
				n = names[0]
			}
			return resolver.ClientInfo{ID: "ABCDE", IP: q.PeerIP.String(), Name: n}
		}
		addr := "127.0.0.1:" + fmt.Sprint(freePort())
		ctx, cancel := context.WithCancel(context.Background())
		p := proxy.Proxy{Addrs: []string{addr}, Upstream: res, LocalResolver: discovery.Resolver{hosts},
			DiscoveryResolver: disc, BogusPriv: true, Timeout: raceProxyTimeout, MaxInflightRequests: 64}
		done := make(chan error, 1)
		go func() { done <- p.ListenAndServe(ctx) }()
		time.Sleep(150 * time.Millisecond)

		dur := 4 * time.Second
		if c.tier == "thorough" {
			dur = 33 * time.Second // past every 30 s refresh interval of the daemon (neighbour tables and the like)
		}
		stop := time.Now().Add(dur)
		var wg sync.WaitGroup
		var sent, answered int64
		names := [][]string{{"nas", "lan"}, {"printer", "lan"}, {"www", "example", "com"}, {"foo", "example", "org"},
			{"9", "1", "168", "192", "in-addr", "arpa"}, {"1", "1", "1", "10", "in-addr", "arpa"}, {"phone"}, {"wiki", "corp"},
			{"tv", "local"}, {"50", "1", "168", "192", "in-addr", "arpa"}, {"h3", "local"}}
		for ci := 0; ci < 10; ci++ {
			wg.Add(1)
			go func(ci int) {
				defer wg.Done()
				r := NewRng(c.seed*100 + uint64(ci))
				tc := &tcpClient{}
				for time.Now().Before(stop) {
					nm := names[r.Intn(len(names))]
					typ := r.Pick([]int{1, 28, 12, 16})
					body := wireName(nm...)
					body = append(body, be16(typ)...)
					body = append(body, 0, 1)
					q := append(be16(r.Intn(65536)), 0x01, 0x00, 0, 1, 0, 0, 0, 0, 0, 0)
					q = append(q, body...)
					atomic.AddInt64(&sent, 1)
					if ci < 8 {
						if rep, err := udpExchange(addr, q, time.Second); err == nil && len(rep) >= 12 {
							atomic.AddInt64(&answered, 1)
						}
					} else {
						if o, err := tc.exchange(addr, q, time.Second); err == nil && len(o) > 8 {
							atomic.AddInt64(&answered, 1)
						}
					}
				}
			}(ci)
		}
		// the configuration objects run.go consults for every query, as concurrent handlers do: profile rules of every kind
		// (interface-bound, CIDR, MAC, default) and forwarder rules, looked up from several goroutines for the whole soak
		var profs config.Profiles
		for _, v := range []string{"lo=ccc333", "10.0.0.0/8=aaa111", "00:11:22:33:44:55=ddd444", "bbb222"} {
			_ = profs.Set(v)
		}
		var fwds config.Forwarders
		for _, v := range []string{"corp.=10.0.0.53", "lan.=192.168.1.1", "9.9.9.9"} {
			_ = fwds.Set(v)
		}
		var cfgBad int64
		for g := 0; g < 3; g++ {
			wg.Add(1)
			go func(g int) {
				defer wg.Done()
				mac, _ := net.ParseMAC("00:11:22:33:44:55")
				for time.Now().Before(stop) {
					if profs.Get(net.IPv4(10, 1, 2, byte(g)), net.IPv4(192, 0, 2, 1), nil) != "aaa111" ||
						profs.Get(net.IPv4(172, 16, 0, 1), net.IPv4(127, 0, 0, 1), nil) != "ccc333" ||
						profs.Get(net.IPv4(172, 16, 0, 1), net.IPv4(192, 0, 2, 1), mac) != "ddd444" ||
						profs.Get(net.IPv4(172, 16, 0, 1), net.IPv4(192, 0, 2, 1), nil) != "bbb222" ||
						fwds.Get("host.corp.") == nil {
						atomic.AddInt64(&cfgBad, 1)
					}
					time.Sleep(200 * time.Microsecond)
				}
			}(g)
		}
		// background: file rewrites + forced expiry, elections, health flips
		wg.Add(1)
		go func() {
			defer wg.Done()
			k := 0
			for time.Now().Before(stop) {
				k++
				writeFileAtomic(hostsPath, mkHosts(k))
				writeFileAtomic(leasePath, mkLease(k))
				hosts.VerifExpire()
				dhcp.VerifExpire()
				mdns.VerifMDNSAge(2 * time.Minute)
				if k%4 == 0 {
					announce(fmt.Sprintf("h%d.local.", k%40), fmt.Sprintf("192.168.2.%d", k%40+1))
					announce("client.local.", "127.0.0.1")
				}
				if k%3 == 0 {
					atomic.StoreInt32(&healthy, int32(k/3%2))
					_ = mgr.Test(context.Background())
				}
				time.Sleep(15 * time.Millisecond)
			}
		}()
		wg.Wait()
		cancel()
		select {
		case <-done:
		case <-time.After(3 * time.Second):
		}
		// the dial layer: an endpoint with TWO bootstrap addresses on its real HTTP/2 transport (the package's parallel
		// dialer), bursts of concurrent exchanges on a cold transport, idle connections dropped between bursts
		dialErr := dialSoak(c)
		c.notes["race_soak"] = map[string]int64{"queries_sent": sent, "answered": answered, "duration_ms": int64(dur / time.Millisecond)}
		out := "ok"
		if answered*10 < sent*9 {
			out = fmt.Sprintf("only %d of %d queries answered", answered, sent)
		}
		if dialErr != "" {
			out = dialErr
		}
		if m := atomic.LoadInt64(&misrouted); m > 0 {
			out = fmt.Sprintf("misrouted=%d requests reached an endpoint with another request's host or path", m)
		}
		if n := atomic.LoadInt64(&cfgBad); n > 0 {
			out = fmt.Sprintf("cfg=%d concurrent lookups in the profile / forwarder rules (rules and clients unchanged) gave an answer no sequential order gives", n)
		}
		c.Emit("racesoak", out)
		c.Stat("soak")
		return nil
	}
}

var _ = net.IPv4
