package main

import (
	"context"
	"encoding/binary"
	"errors"
	"fmt"
	"io"
	"net"
	"os"
	"strconv"
	"strings"
	"sync"
	"time"

	"github.com/nextdns/nextdns/proxy"
	"github.com/nextdns/nextdns/resolver"
	"github.com/nextdns/nextdns/resolver/query"
)

// sock areas (C01, C05, C02 liveness): the real proxy.Proxy.ListenAndServe on loopback with a
// scripted upstream; every reply is compared byte for byte with the Lean handler model.

// outcome of the scripted upstream for one query
type outcome struct {
	kind string // "E" error, "S" synthetic (len,salt), "H" literal bytes
	n    int
	salt int
	raw  []byte
}

func (o outcome) String() string {
	switch o.kind {
	case "E", "T":
		return o.kind
	case "S":
		return fmt.Sprintf("S %d %d", o.n, o.salt)
	}
	return "H " + hx(o.raw)
}

func synthResp(id uint16, n, salt int, buf []byte) int {
	for i := 0; i < n; i++ {
		switch i {
		case 0:
			buf[i] = byte(id >> 8)
		case 1:
			buf[i] = byte(id)
		case 2:
			buf[i] = byte(128 + salt%2*4)
		default:
			buf[i] = byte(i*7 + salt)
		}
	}
	return n
}

// scripted implements resolver.Resolver. The outcome is chosen by the function pick.
type scripted struct {
	pick func(q query.Query) outcome
	mu   sync.Mutex
	seen int
}

func (s *scripted) Resolve(ctx context.Context, q query.Query, buf []byte) (int, resolver.ResolveInfo, error) {
	s.mu.Lock()
	s.seen++
	s.mu.Unlock()
	o := s.pick(q)
	switch o.kind {
	case "E":
		return 0, resolver.ResolveInfo{}, errors.New("scripted upstream error")
	case "T":
		// the upstream hangs: the request context expires
		<-ctx.Done()
		return 0, resolver.ResolveInfo{}, ctx.Err()
	case "S":
		return synthResp(q.ID, o.n, o.salt, buf), resolver.ResolveInfo{}, nil
	}
	return copy(buf, o.raw), resolver.ResolveInfo{}, nil
}

type server struct {
	addr   string
	cancel context.CancelFunc
	done   chan error
	up     *scripted
}

// freePort returns a port that is free for UDP and TCP on loopback. Ports come from a range
// private to this process (below the kernel's ephemeral range, sliced by pid) so that shards
// running in parallel never hand each other's ports out, and are not reused within a run.
var nextPort int

func freePort() int {
	base := 10000 + (os.Getpid()%200)*100
	for tries := 0; tries < 1000; tries++ {
		port := base + nextPort%100
		nextPort++
		a := "127.0.0.1:" + strconv.Itoa(port)
		l, err := net.ListenPacket("udp", a)
		if err != nil {
			continue
		}
		t, err := net.Listen("tcp", a)
		l.Close()
		if err != nil {
			continue
		}
		t.Close()
		return port
	}
	panic("no free port in the private range")
}

func startServer(up *scripted, inflight uint, timeout time.Duration) (*server, error) {
	s, err := startServerWith(up, inflight, timeout)
	if s != nil {
		s.up = up
	}
	return s, err
}

func startServerWith(up resolver.Resolver, inflight uint, timeout time.Duration) (*server, error) {
	s := &server{done: make(chan error, 1)}
	s.addr = "127.0.0.1:" + strconv.Itoa(freePort())
	ctx, cancel := context.WithCancel(context.Background())
	s.cancel = cancel
	p := proxy.Proxy{Addrs: []string{s.addr}, Upstream: up, Timeout: timeout, MaxInflightRequests: inflight}
	go func() { s.done <- p.ListenAndServe(ctx) }()
	// wait until both sockets answer
	probe := []byte{0xab, 0xcd, 1, 0, 0, 1, 0, 0, 0, 0, 0, 0, 1, 'p', 0, 0, 1, 0, 1}
	deadline := time.Now().Add(5 * time.Second)
	for time.Now().Before(deadline) {
		if r, err := udpExchange(s.addr, probe, 200*time.Millisecond); err == nil && len(r) >= 12 {
			if c, err := net.DialTimeout("tcp", s.addr, 200*time.Millisecond); err == nil {
				c.Close()
				return s, nil
			}
		}
		select {
		case err := <-s.done:
			return nil, fmt.Errorf("ListenAndServe returned early: %v", err)
		default:
		}
	}
	cancel()
	return nil, errors.New("server did not come up")
}

func (s *server) stop() {
	s.cancel()
	select {
	case <-s.done:
	case <-time.After(3 * time.Second):
	}
}

func udpExchange(addr string, payload []byte, wait time.Duration) ([]byte, error) {
	c, err := net.Dial("udp", addr)
	if err != nil {
		return nil, err
	}
	defer c.Close()
	if _, err := c.Write(payload); err != nil {
		return nil, err
	}
	_ = c.SetReadDeadline(time.Now().Add(wait))
	buf := make([]byte, 70000)
	n, err := c.Read(buf)
	if err != nil {
		return nil, err
	}
	return buf[:n], nil
}

type tcpClient struct {
	c net.Conn
}

func (t *tcpClient) exchange(addr string, payload []byte, wait time.Duration) (string, error) {
	if t.c == nil {
		c, err := net.DialTimeout("tcp", addr, time.Second)
		if err != nil {
			return "", err
		}
		t.c = c
	}
	frame := append(be16(len(payload)), payload...)
	if _, err := t.c.Write(frame); err != nil {
		t.c.Close()
		t.c = nil
		return "", err
	}
	_ = t.c.SetReadDeadline(time.Now().Add(wait))
	var l uint16
	if err := binary.Read(t.c, binary.BigEndian, &l); err != nil {
		t.c.Close()
		t.c = nil
		if err == io.EOF {
			return "close", nil
		}
		if ne, ok := err.(net.Error); ok && ne.Timeout() {
			return "TIMEOUT", nil
		}
		return "close", nil
	}
	body := make([]byte, l)
	if _, err := io.ReadFull(t.c, body); err != nil {
		t.c.Close()
		t.c = nil
		return "SHORT", nil
	}
	return hx(append(be16(int(l)), body...)), nil
}

var advSizes = []int{-1, 0, 511, 512, 513, 1232, 4093, 4094, 4095, 4096, 8192, 65507}

// sockQuery builds a well-formed query advertising size adv (-1: no OPT).
func (r *Rng) sockQuery(adv int) []byte {
	k := 1 + r.Intn(3)
	ls := make([]string, k)
	for j := range ls {
		ls[j] = labelPool[r.Intn(len(labelPool))]
	}
	body := wireName(ls...)
	body = append(body, be16(r.Pick([]int{1, 28, 16, 15, 2, 255, 65}))...)
	body = append(body, be16(r.Pick([]int{1, 1, 1, 3}))...)
	ar := 0
	if adv >= 0 {
		var opts []optSpec
		if r.Chance(30) {
			opts = append(opts, r.ecsOpt())
		}
		body = append(body, packRR(rrSpec{name: []byte{0}, typ: 41, class: uint16(adv), rdata: packOpts(opts)})...)
		ar = 1
	}
	hdr := append(be16(r.Intn(65536)), be16(0x0100)...)
	hdr = append(hdr, 0, 1, 0, 0, 0, 0, 0, byte(ar))
	return append(hdr, body...)
}

func (r *Rng) respLen(adv int) int {
	lim := 512
	if adv > 512 {
		lim = adv
	}
	switch r.Intn(12) {
	case 0:
		return 15 + r.Intn(40)
	case 1:
		return 511 + r.Intn(3)
	case 2:
		return lim - 1 + r.Intn(3)
	case 3:
		return 4093 + r.Intn(3)
	case 4:
		return 65533 + r.Intn(3)
	case 5:
		return 12 + r.Intn(4)
	case 6:
		return 1 + r.Intn(11)
	case 7:
		return r.Intn(65536)
	default:
		return 15 + r.Intn(2000)
	}
}

func parseOutcomeToks(toks []string) (outcome, bool) {
	switch {
	case len(toks) == 1 && (toks[0] == "E" || toks[0] == "T"):
		return outcome{kind: toks[0]}, true
	case len(toks) == 2 && toks[0] == "H":
		return outcome{kind: "H", raw: unhx(toks[1])}, true
	case len(toks) == 3 && toks[0] == "S":
		n, e1 := strconv.Atoi(toks[1])
		s, e2 := strconv.Atoi(toks[2])
		return outcome{kind: "S", n: n, salt: s}, e1 == nil && e2 == nil
	}
	return outcome{}, false
}

func init() {
	areas["sock"] = func(c *Ctx) error {
		r := NewRng(c.seed)
		var cur outcome
		var curMu sync.Mutex
		up := &scripted{pick: func(q query.Query) outcome { curMu.Lock(); defer curMu.Unlock(); return cur }}
		srv, err := startServer(up, 64, 400*time.Millisecond)
		if err != nil {
			return err
		}
		defer srv.stop()
		tc := &tcpClient{}
		silent := 0
		run := func(proto string, payload []byte, o outcome) {
			curMu.Lock()
			cur = o
			curMu.Unlock()
			var out string
			if proto == "udp" {
				wait := 1500 * time.Millisecond
				if len(payload) <= 14 {
					wait = 30 * time.Millisecond
				}
				rep, err := udpExchange(srv.addr, payload, wait)
				if err != nil {
					if len(payload) <= 14 {
						out = "drop"
					} else {
						out = "TIMEOUT"
					}
				} else {
					out = hx(rep)
				}
			} else {
				s, err := tc.exchange(srv.addr, payload, 1500*time.Millisecond)
				if err != nil {
					out = "ERR " + err.Error()
				} else {
					out = s
				}
			}
			c.Emit(proto+" "+hx(payload)+" "+o.String(), out)
			if out == "TIMEOUT" {
				silent++
			}
			c.Stat("proto:" + proto)
			c.Stat("outcome:" + o.kind)
			if len(out) > 8 && out != "TIMEOUT" {
				c.Stat("replied")
			} else {
				if len(out) > 8 || (out != "drop" && out != "close" && out != "TIMEOUT") {
					c.Stat("result:short-reply")
				} else {
					c.Stat("result:" + out)
				}
			}
		}
		if ls := replayLines(); ls != nil {
			for _, l := range ls {
				f := strings.Fields(l)
				if len(f) >= 3 && (f[0] == "udp" || f[0] == "tcp") {
					if o, ok := parseOutcomeToks(f[2:]); ok {
						run(f[0], unhx(f[1]), o)
					}
				}
			}
			return nil
		}
		for i := 0; i < c.n; i++ {
			if silent >= 40 {
				// forty queries have gone unanswered (each cost its 1.5 s wait): every one is already a reported case; the
				// rest of the sample would only repeat them for hours
				c.Stat("aborted:too-many-unanswered")
				break
			}
			proto := "udp"
			if r.Chance(30) {
				proto = "tcp"
			}
			adv := advSizes[r.Intn(len(advSizes))]
			if r.Chance(25) {
				adv = r.Intn(65508)
			}
			var payload []byte
			switch {
			case r.Chance(8):
				// hostile / malformed payloads (C02 liveness): afterwards well-formed ones must still work
				q := r.genQuery(false)
				payload = q.payload
				if r.Chance(50) {
					payload, _ = r.mutate(payload)
				}
				if q.udpSize > 65507 && len(payload) > 14 {
					// keep the advertised size within what a UDP datagram can carry
					payload = r.sockQuery(adv)
				}
				c.Stat("gen:hostile")
			case r.Chance(3):
				payload = r.Bytes(r.Intn(15)) // undersized
				c.Stat("gen:undersized")
			default:
				payload = r.sockQuery(adv)
				c.Stat("gen:wellformed")
			}
			if proto == "udp" && advOf(payload) > 65507 {
				payload = r.sockQuery(adv)
			}
			var o outcome
			switch r.Intn(10) {
			case 0:
				o = outcome{kind: "E"}
				if r.Chance(4) {
					o = outcome{kind: "T"}
				}
			case 1:
				o = outcome{kind: "H", raw: r.Bytes(r.Intn(40))}
			default:
				o = outcome{kind: "S", n: r.respLen(adv), salt: r.Intn(256)}
			}
			run(proto, payload, o)
		}
		return nil
	}
}

// advOf returns the EDNS size the real parser sees for payload (512 when absent / unparsable).
func advOf(payload []byte) int {
	q, _ := query.New(append([]byte{}, payload...), loopback, loopback)
	return int(q.MsgSize)
}
