package main

import (
	"net"

	"bufio"
	"encoding/json"
	"flag"
	"fmt"
	"github.com/nextdns/nextdns/arp"
	"github.com/nextdns/nextdns/ndp"
	"os"
	"path/filepath"
	"sort"
	"strings"
	"sync/atomic"
	"time"
)

// Ctx carries the output files of one harness run: cases.txt (operations, also fed to the Lean
// driver), impl.txt (canonical output of the real code, one line per case) and stats.json.
type Ctx struct {
	seed  uint64
	n     int
	tier  string
	dir   string
	cases *bufio.Writer
	impl  *bufio.Writer
	stats map[string]int
	notes map[string]interface{}
	fc    *os.File
	fi    *os.File
	count int
	noted atomic.Value // the case line about to run (string), see Note
	ticks int64
}

// Note remembers, in memory, the case that is about to run on the real code.  When no case has completed for stallLimit
// the watchdog leaves the noted case in <out>/current.txt and ends the process: the engine then reports that case as the
// concrete input on which the code under test did not return (it spins, or waits for something that never comes).
func (c *Ctx) Note(caseLine string) {
	c.noted.Store(caseLine)
	atomic.AddInt64(&c.ticks, 1)
}

const stallLimit = 5 * time.Minute

func (c *Ctx) watchdog() {
	last, since := int64(-1), time.Now()
	for {
		time.Sleep(3 * time.Second)
		t := atomic.LoadInt64(&c.ticks)
		if t != last {
			last, since = t, time.Now()
			continue
		}
		if cur, _ := c.noted.Load().(string); cur != "" && time.Since(since) > stallLimit {
			_ = os.WriteFile(filepath.Join(c.dir, "current.txt"), []byte(cur+"\n"), 0644)
			fmt.Println("verif watchdog: the case in current.txt did not return within", stallLimit)
			os.Exit(3)
		}
	}
}

func (c *Ctx) Emit(caseLine, implLine string) {
	fmt.Fprintln(c.cases, caseLine)
	fmt.Fprintln(c.impl, implLine)
	c.count++
	atomic.AddInt64(&c.ticks, 1) // a completed case is progress too
}

// Begin records the case that is about to run in <out>/current.txt: when running it kills the
// process (an unrecovered panic of the daemon code = the daemon would crash), the engine reports
// this case as the concrete failing input.
func (c *Ctx) Begin(caseLine string) {
	_ = os.WriteFile(filepath.Join(c.dir, "current.txt"), []byte(caseLine+"\n"), 0644)
}

func (c *Ctx) Stat(k string) { c.stats[k]++ }

func (c *Ctx) Close() {
	c.cases.Flush()
	c.impl.Flush()
	c.fc.Close()
	c.fi.Close()
	keys := make([]string, 0, len(c.stats))
	for k := range c.stats {
		keys = append(keys, k)
	}
	sort.Strings(keys)
	out := map[string]interface{}{"cases": c.count, "distribution": c.stats, "seed": c.seed, "tier": c.tier}
	for k, v := range c.notes {
		out[k] = v
	}
	b, _ := json.MarshalIndent(out, "", " ")
	_ = os.WriteFile(filepath.Join(c.dir, "stats.json"), b, 0644)
}

var areas = map[string]func(*Ctx) error{}

func main() {
	if len(os.Args) < 2 {
		fmt.Fprintln(os.Stderr, "usage: nvh <area> [-seed N] [-n N] [-tier quick|thorough] -out DIR | nvh replay <area> <file>")
		os.Exit(2)
	}
	area := os.Args[1]
	// the host's neighbour tables, which query.New consults for every query (MAC of a LAN peer, address of a MAC sent by
	// a forwarder on loopback): a few complete entries that no generated peer or MAC option equals, so that the lookups
	// walk real entries without changing any result (the sandbox's own tables are empty)
	arp.VerifSetTable(arp.Table{
		{IP: net.IPv4(10, 250, 0, 1), MAC: net.HardwareAddr{0x02, 0x00, 0x5e, 0xaa, 0xbb, 0x01}},
		{IP: net.IPv4(10, 250, 0, 2), MAC: net.HardwareAddr{0x02, 0x00, 0x5e, 0xaa, 0xbb, 0x02}},
	})
	ndp.VerifSetTable(ndp.Table{
		{IP: net.ParseIP("fd00:250::1"), MAC: net.HardwareAddr{0x02, 0x00, 0x5e, 0xaa, 0xbb, 0x03}},
	})
	fs := flag.NewFlagSet(area, flag.ExitOnError)
	seed := fs.Uint64("seed", 1, "seed")
	n := fs.Int("n", 1000, "number of cases")
	tier := fs.String("tier", "quick", "tier")
	out := fs.String("out", "", "output directory")
	in := fs.String("in", "", "replay: read cases from this file instead of generating")
	_ = fs.Parse(os.Args[2:])
	f, ok := areas[area]
	if !ok {
		fmt.Fprintln(os.Stderr, "unknown area", area)
		os.Exit(2)
	}
	if *out == "" {
		fmt.Fprintln(os.Stderr, "-out required")
		os.Exit(2)
	}
	_ = os.MkdirAll(*out, 0755)
	fc, err := os.Create(filepath.Join(*out, "cases.txt"))
	if err != nil {
		panic(err)
	}
	fi, err := os.Create(filepath.Join(*out, "impl.txt"))
	if err != nil {
		panic(err)
	}
	c := &Ctx{seed: *seed, n: *n, tier: *tier, dir: *out, fc: fc, fi: fi,
		cases: bufio.NewWriterSize(fc, 1<<20), impl: bufio.NewWriterSize(fi, 1<<20),
		stats: map[string]int{}, notes: map[string]interface{}{}}
	go c.watchdog()
	replayFile = *in
	err = f(c)
	c.Close()
	if err != nil {
		fmt.Fprintln(os.Stderr, "harness error:", err)
		os.Exit(3)
	}
}

// replayFile, when set, makes an area read its case lines from that file (corpus / replay).
var replayFile string

func replayLines() []string {
	if replayFile == "" {
		return nil
	}
	f, err := os.Open(replayFile)
	if err != nil {
		panic(err)
	}
	defer f.Close()
	var ls []string
	sc := bufio.NewScanner(f)
	sc.Buffer(make([]byte, 1<<20), 1<<24)
	for sc.Scan() {
		if l := sc.Text(); l != "" && !strings.HasPrefix(l, "#") {
			ls = append(ls, l)
		}
	}
	return ls
}
