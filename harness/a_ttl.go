package main

import (
	"bytes"
	"fmt"
	"strconv"
	"strings"
	"time"

	"github.com/nextdns/nextdns/resolver"
)

// ttl area (C07, message level): generated upstream responses run through the real
// resolver.updateTTL / cacheValue.AdjustedResponse / skipName (overlay exports); canonical lines
// have the same format as the Lean driver's (lean/NV/Driver/TTL.lean):
//   uttl <hex> <age> <maxAge> <maxTTL>                      -> min=<m> buf=<hex>
//   adj <hex> <bufLen> <id> <deltaNanos> <maxAge> <maxTTL>  -> n=<n> min=<m> buf=<hex> stored=same|CHANGED
//   skipname <hex>                                          -> <l>

func guarded(f func() string) string {
	ch := make(chan string, 1)
	go func() {
		defer func() {
			if x := recover(); x != nil {
				ch <- "PANIC " + strings.ReplaceAll(fmt.Sprint(x), " ", "_")
			}
		}()
		ch <- f()
	}()
	select {
	case s := <-ch:
		return s
	case <-time.After(5 * time.Second):
		return "TIMEOUT"
	}
}

func runUTTL(msg []byte, age, maxAge, maxTTL uint32) string {
	return guarded(func() string {
		b := append([]byte{}, msg...)
		m := resolver.VerifUpdateTTL(b, age, maxAge, maxTTL)
		return fmt.Sprintf("min=%d buf=%s", m, hx(b))
	})
}

func runAdj(stored []byte, bufLen int, id uint16, delta int64, maxAge, maxTTL uint32) string {
	return guarded(func() string {
		keep := append([]byte{}, stored...)
		st := append([]byte{}, stored...)
		buf := make([]byte, bufLen)
		// poison the buffer so that bytes not written by the call are visible
		for i := range buf {
			buf[i] = 0xEE
		}
		n, m := resolver.VerifAdjustedResponse(st, buf, id, time.Duration(delta), maxAge, maxTTL)
		same := "same"
		if !bytes.Equal(keep, st) {
			same = "CHANGED"
		}
		if n < 0 || n > len(buf) {
			return fmt.Sprintf("n=%d min=%d buf=OUT-OF-RANGE stored=%s", n, m, same)
		}
		return fmt.Sprintf("n=%d min=%d buf=%s stored=%s", n, m, hx(buf[:n]), same)
	})
}

func runSkipName(b []byte) string {
	return guarded(func() string { return strconv.Itoa(resolver.VerifSkipName(append([]byte{}, b...))) })
}

// ---------------------------------------------------------------- generator

var ttlBoundary = []uint32{0, 1, 2, 59, 60, 300, 3600, 86400, 0x7ffffffe, 0x7fffffff, 0x80000000, 0xfffffffe, 0xffffffff}

func (r *Rng) ttl07() uint32 {
	switch r.Intn(10) {
	case 0, 1, 2:
		return ttlBoundary[r.Intn(len(ttlBoundary))]
	case 3:
		return uint32(r.U64())
	case 4:
		return uint32(r.Intn(10))
	default:
		return uint32(r.Intn(100000))
	}
}

// goodName: a valid wire name (uncompressed, pointer, or labels + pointer); off = its offset.
func (r *Rng) goodName(off int) []byte {
	switch r.Intn(10) {
	case 0:
		return []byte{0}
	case 1, 2, 3, 4:
		return []byte{0xC0, 12}
	case 5:
		n := wireName(labelPool[r.Intn(len(labelPool))])
		return append(n[:len(n)-1], 0xC0, byte(12+r.Intn(4)))
	case 6:
		return []byte{0xC0 | byte(r.Intn(64)), byte(r.Intn(256))}
	}
	k := 1 + r.Intn(4)
	ls := make([]string, k)
	for i := range ls {
		ls[i] = labelPool[r.Intn(len(labelPool))]
	}
	return wireName(ls...)
}

type respSpec struct {
	msg   []byte
	ttls  []uint32
	kinds []string
}

var rrTypes07 = []int{1, 1, 1, 28, 28, 5, 2, 6, 15, 16, 33, 46, 41, 41, 12, 255, 0, 40, 42, 0x29ff, 0xff29}

// wireResponse builds a response byte by byte: any RR mix, OPT anywhere, compressed names.
func (r *Rng) wireResponse() respSpec {
	var s respSpec
	qd := 1
	switch r.Intn(20) {
	case 0:
		qd = 0
	case 1:
		qd = 2 + r.Intn(2)
	}
	hostile := r.Chance(12) // names from the malformed pool as well
	var body []byte
	for i := 0; i < qd; i++ {
		var n []byte
		if hostile && r.Chance(30) {
			n = r.name(12 + len(body))
		} else if i == 0 {
			k := 1 + r.Intn(4)
			ls := make([]string, k)
			for j := range ls {
				ls[j] = labelPool[r.Intn(len(labelPool))]
			}
			n = wireName(ls...)
		} else {
			n = r.goodName(12 + len(body))
		}
		body = append(body, n...)
		body = append(body, be16(r.Pick(qtypes))...)
		body = append(body, be16(r.Pick(qclasses))...)
	}
	cnt := [3]int{}
	switch r.Intn(10) {
	case 0:
		// empty answer (NODATA/NXDOMAIN with SOA in authority)
		cnt = [3]int{0, 1, r.Intn(2)}
	case 1:
		cnt = [3]int{0, 0, r.Intn(2)}
	default:
		cnt = [3]int{1 + r.Intn(4), r.Intn(3), r.Intn(3)}
	}
	sameTTL := r.Chance(30)
	base := r.ttl07()
	for sec := 0; sec < 3; sec++ {
		for i := 0; i < cnt[sec]; i++ {
			t := uint16(r.Pick(rrTypes07))
			if sec == 2 && r.Chance(40) {
				t = 41
			}
			var rd []byte
			switch t {
			case 1:
				rd = r.Bytes(4)
			case 28:
				rd = r.Bytes(16)
			case 41:
				rd = packOpts([]optSpec{{code: 12, data: make([]byte, r.Intn(12))}})
				if r.Chance(50) {
					rd = nil
				}
			default:
				rd = r.Bytes(r.Intn(40))
				if r.Chance(5) {
					// RDLENGTH needs both bytes
					rd = r.Bytes(250 + r.Intn(600))
					s.kinds = append(s.kinds, "rdata>=250")
				}
			}
			var n []byte
			if hostile && r.Chance(25) {
				n = r.name(12 + len(body))
			} else if t == 41 && r.Chance(80) {
				n = []byte{0}
			} else {
				n = r.goodName(12 + len(body))
			}
			ttl := r.ttl07()
			if sameTTL {
				ttl = base
			}
			if t == 41 {
				ttl = uint32(r.Intn(2))<<15 | uint32(r.Intn(3))<<24
				s.kinds = append(s.kinds, fmt.Sprintf("opt-in-section-%d", sec))
			} else {
				s.ttls = append(s.ttls, ttl)
			}
			rr := rrSpec{name: n, typ: t, class: uint16(r.Pick(qclasses)), ttl: ttl, rdata: rd}
			if t == 41 {
				rr.class = uint16(r.Pick([]int{512, 1232, 4096}))
			}
			if r.Chance(2) {
				rr.rdlenDelta = r.Intn(7) - 3
				s.kinds = append(s.kinds, "rdlen-lie")
			}
			body = append(body, packRR(rr)...)
		}
	}
	hc := [4]int{qd, cnt[0], cnt[1], cnt[2]}
	if r.Chance(12) {
		s.kinds = append(s.kinds, "count-lie")
		switch r.Intn(8) {
		case 0:
			hc[1+r.Intn(3)]++
		case 1:
			k := 1 + r.Intn(3)
			if hc[k] > 0 {
				hc[k]--
			}
		case 2:
			// sum wraps to a small number: an + ns + ar = 65536 + real
			hc[3] += 65536 - hc[1] - hc[2] - hc[3] + (cnt[0] + cnt[1] + cnt[2])
			if hc[3] > 65535 {
				hc[3] = 65535
			}
			s.kinds = append(s.kinds, "count-wrap")
		case 3:
			// answers + authorities wraps (additionalsIdx) while the total stays small
			hc[1], hc[2] = 65535, 1+r.Intn(3)
			s.kinds = append(s.kinds, "count-wrap")
		case 4:
			hc[1], hc[2], hc[3] = 32768, 32768, r.Intn(4)
			s.kinds = append(s.kinds, "count-wrap")
		case 5:
			hc[r.Intn(4)] = 65535
		case 6:
			hc[0] += r.Intn(3) - 1
			if hc[0] < 0 {
				hc[0] = 0
			}
		default:
			hc[1+r.Intn(3)] = r.Intn(65536)
		}
	}
	flags := 0x8180
	if r.Chance(10) {
		flags = r.Intn(65536)
	}
	hdr := append(be16(r.Intn(65536)), be16(flags)...)
	for _, c := range hc {
		hdr = append(hdr, be16(c)...)
	}
	s.msg = append(hdr, body...)
	if hostile {
		s.kinds = append(s.kinds, "hostile-names")
	}
	if r.Chance(8) {
		s.kinds = append(s.kinds, "truncated-tail")
		if len(s.msg) > 12 {
			s.msg = s.msg[:12+r.Intn(len(s.msg)-12)]
		}
	} else if r.Chance(4) {
		s.kinds = append(s.kinds, "trailing-junk")
		s.msg = append(s.msg, r.Bytes(1+r.Intn(30))...)
	}
	return s
}

var hostPool = []string{"example.com.", "www.example.com.", "a.b.c.example.com.", "cdn.example.net.", "Foo.example.com.", "ns1.example.org.", "."}

// builderResponse: a well-formed response packed by the repository's own dnsmessage.Builder.
func (r *Rng) builderResponse() (respSpec, bool) {
	var s respSpec
	var rrs []resolver.VerifRR
	qname := hostPool[r.Intn(len(hostPool)-1)]
	na, nn, nr := r.Intn(5), r.Intn(3), r.Intn(3)
	sameTTL := r.Chance(40)
	base := r.ttl07()
	add := func(sec int) {
		k := r.Intn(8)
		if r.Chance(50) {
			k = r.Intn(2)
		}
		ttl := r.ttl07()
		if sameTTL {
			ttl = base
		}
		rr := resolver.VerifRR{Section: sec, Name: hostPool[r.Intn(len(hostPool))], Kind: k, Target: hostPool[r.Intn(len(hostPool))],
			TTL: ttl, Class: 1, Data: r.Bytes(16)}
		if r.Chance(60) {
			rr.Name = qname
		}
		if k == 5 {
			rr.Data = r.Bytes(r.Intn(60))
		}
		rrs = append(rrs, rr)
		s.ttls = append(s.ttls, ttl)
	}
	for i := 0; i < na; i++ {
		add(0)
	}
	if r.Chance(4) {
		// OPT typed record in the answer section
		rrs = append(rrs, resolver.VerifRR{Section: 0, Name: ".", Kind: 8, TTL: uint32(r.Intn(3)) << 24, Class: 1232})
		s.kinds = append(s.kinds, "opt-in-section-0")
	}
	for i := 0; i < nn; i++ {
		add(1)
	}
	for i := 0; i < nr; i++ {
		add(2)
	}
	if r.Chance(60) {
		rrs = append(rrs, resolver.VerifRR{Section: 2, Name: ".", Kind: 8, TTL: uint32(r.Intn(2)) << 15, Class: 1232, Data: make([]byte, r.Intn(8))})
		s.kinds = append(s.kinds, "opt-in-section-2")
		if r.Chance(20) {
			add(2) // a record after OPT
		}
	}
	compress := r.Chance(80)
	msg, err := resolver.VerifBuildResponse(uint16(r.Intn(65536)), qname, uint16(r.Pick([]int{1, 28, 5, 15, 16, 2, 6, 33})), rrs, compress)
	if err != nil {
		return s, false
	}
	s.msg = msg
	if compress {
		s.kinds = append(s.kinds, "compressed")
	}
	return s, true
}

// bigResponse: many minimal records, total length around the 65535-byte limit of a DNS message.
func (r *Rng) bigResponse() respSpec {
	var s respSpec
	body := append(wireName("big", "example"), 0, 1, 0, 1)
	n := 0
	target := 20000 + r.Intn(50000)
	if r.Chance(40) {
		target = 65535 - 12 - len(body) // as many as fit a real message
	}
	cnt := [3]int{}
	for len(body)+12+11 <= target {
		ttl := r.ttl07()
		var name []byte
		if r.Chance(50) {
			name = []byte{0}
		} else {
			name = []byte{0xC0, 12}
		}
		rr := rrSpec{name: name, typ: uint16(r.Pick([]int{1, 1, 1, 41, 16})), class: 1, ttl: ttl}
		if r.Chance(30) {
			rr.rdata = r.Bytes(r.Intn(6))
		}
		if len(body)+12+len(packRR(rr)) > target {
			rr.rdata = nil
		}
		if rr.typ != 41 {
			s.ttls = append(s.ttls, ttl)
		}
		body = append(body, packRR(rr)...)
		switch {
		case n < target/40:
			cnt[0]++
		case n < target/30:
			cnt[1]++
		default:
			cnt[2]++
		}
		n++
	}
	hdr := append(be16(r.Intn(65536)), be16(0x8180)...)
	hdr = append(hdr, be16(1)...)
	for _, c := range cnt {
		hdr = append(hdr, be16(c)...)
	}
	s.msg = append(hdr, body...)
	s.kinds = append(s.kinds, "big")
	return s
}

func (r *Rng) param(cands []uint32, zeroPct int) uint32 {
	if r.Chance(zeroPct) {
		return 0
	}
	switch r.Intn(6) {
	case 0:
		return ttlBoundary[r.Intn(len(ttlBoundary))]
	case 1, 2, 3:
		if len(cands) > 0 {
			c := cands[r.Intn(len(cands))]
			return c + uint32(r.Intn(3)) - 1 // c-1, c, c+1 (wraps at the ends on purpose)
		}
		return uint32(r.Intn(1000))
	case 4:
		return uint32(r.U64())
	}
	return uint32(r.Intn(100000))
}

// ttlSeed scrambles the seed: NewRng(seed) starts the splitmix64 counter at seed*gamma, so seeds
// s and s+k give the same stream shifted by k draws (seeds 1..5 and the shard seeds s+1000*j would
// produce almost the same cases).  A finalizer of the seed places every run far apart.
func ttlSeed(s uint64) uint64 {
	z := s + 0x9E3779B97F4A7C15
	z = (z ^ (z >> 30)) * 0xBF58476D1CE4E5B9
	z = (z ^ (z >> 27)) * 0x94D049BB133111EB
	return z ^ (z >> 31)
}

func init() {
	areas["ttl"] = func(c *Ctx) error {
		r := NewRng(ttlSeed(c.seed))
		bad := 0
		classify := func(op, impl string) {
			c.Stat("op:" + op)
			switch {
			case strings.HasPrefix(impl, "PANIC"), impl == "TIMEOUT":
				c.Stat("res:" + strings.SplitN(impl, " ", 2)[0])
				bad++
			case strings.Contains(impl, "min=0 "):
				c.Stat("res:min=0")
			case strings.Contains(impl, "min="):
				c.Stat("res:min>0")
			}
		}
		if ls := replayLines(); ls != nil {
			for _, l := range ls {
				f := strings.Fields(l)
				if len(f) == 0 || strings.HasPrefix(f[0], "#") {
					continue
				}
				u32 := func(s string) uint32 { v, _ := strconv.ParseUint(s, 10, 32); return uint32(v) }
				switch {
				case f[0] == "uttl" && len(f) == 5:
					out := runUTTL(unhx(f[1]), u32(f[2]), u32(f[3]), u32(f[4]))
					c.Emit(l, out)
					classify("uttl", out)
				case f[0] == "adj" && len(f) == 7:
					bl, _ := strconv.Atoi(f[2])
					id, _ := strconv.Atoi(f[3])
					d, _ := strconv.ParseInt(f[4], 10, 64)
					out := runAdj(unhx(f[1]), bl, uint16(id), d, u32(f[5]), u32(f[6]))
					c.Emit(l, out)
					classify("adj", out)
				case f[0] == "skipname" && len(f) == 2:
					out := runSkipName(unhx(f[1]))
					c.Emit(l, out)
					classify("skipname", out)
				}
			}
			return nil
		}
		nbig := 0
		for i := 0; i < c.n && bad < 5; i++ {
			var s respSpec
			k := r.Intn(100)
			switch {
			case k < 30:
				var ok bool
				if s, ok = r.builderResponse(); !ok {
					c.Stat("gen:builder-error")
					s = r.wireResponse()
					c.Stat("gen:wire")
				} else {
					c.Stat("gen:builder")
				}
			case k < 92:
				s = r.wireResponse()
				c.Stat("gen:wire")
			case k < 97:
				s.msg = r.Bytes(r.Intn(48))
				c.Stat("gen:noise")
			default:
				// big messages are expensive to print and diff: about 1 in 2000 cases
				if r.Intn(60) == 0 && nbig < 1+c.n/1000 {
					s = r.bigResponse()
					nbig++
					c.Stat("gen:big")
				} else {
					s = r.wireResponse()
					c.Stat("gen:wire")
				}
			}
			if len(s.msg) > 0 && len(s.msg) < 20000 && r.Chance(12) {
				var how string
				s.msg, how = r.mutate(s.msg)
				c.Stat("mut:" + how)
			}
			for _, kd := range s.kinds {
				c.Stat("kind:" + kd)
			}
			if r.Chance(4) && len(s.msg) > 12 {
				// skipName on a suffix starting somewhere in the body
				b := s.msg[12+r.Intn(len(s.msg)-12):]
				if len(b) > 80 {
					b = b[:80]
				}
				out := runSkipName(b)
				c.Emit("skipname "+hx(b), out)
				classify("skipname", out)
				continue
			}
			age := r.param(s.ttls, 15)
			var rel []uint32
			for _, t := range s.ttls {
				if t >= age {
					rel = append(rel, t-age)
				}
			}
			maxAge := r.param([]uint32{age}, 50)
			maxTTL := r.param(rel, 40)
			switch {
			case age == 0:
				c.Stat("age:0")
			case age >= 0x80000000:
				c.Stat("age:>=2^31")
			default:
				c.Stat("age:mid")
			}
			switch {
			case maxAge == 0:
				c.Stat("maxAge:0")
			case age > maxAge:
				c.Stat("maxAge:exceeded")
			default:
				c.Stat("maxAge:within")
			}
			if maxTTL == 0 {
				c.Stat("maxTTL:0")
			} else {
				c.Stat("maxTTL:set")
			}
			if r.Chance(35) {
				n := len(s.msg)
				bl := n
				switch r.Intn(8) {
				case 0:
					bl = n + 1 + r.Intn(100)
				case 1:
					bl = 65535
				case 2:
					if n > 0 {
						bl = n - 1
					}
				case 3:
					bl = r.Intn(n + 1)
				}
				delta := int64(age)*1000000000 + int64(r.Intn(1000000000))
				switch r.Intn(20) {
				case 0:
					delta = -delta // clock went backwards
					c.Stat("delta:negative")
				case 1:
					delta = int64(age) * 1000000000 // exactly on a second boundary
				case 2:
					delta = int64(r.U64() >> 2) // up to 2^62 ns: the uint32 conversion wraps
					c.Stat("delta:huge")
				case 3:
					delta = int64(r.Intn(1000000000)) - 500000000
				}
				id := r.Intn(65536)
				line := fmt.Sprintf("adj %s %d %d %d %d %d", hx(s.msg), bl, id, delta, maxAge, maxTTL)
				out := runAdj(s.msg, bl, uint16(id), delta, maxAge, maxTTL)
				c.Emit(line, out)
				classify("adj", out)
			} else {
				line := fmt.Sprintf("uttl %s %d %d %d", hx(s.msg), age, maxAge, maxTTL)
				out := runUTTL(s.msg, age, maxAge, maxTTL)
				c.Emit(line, out)
				classify("uttl", out)
			}
		}
		if bad > 0 {
			c.notes["aborted_after_panics_or_timeouts"] = bad
		}
		return nil
	}
}
