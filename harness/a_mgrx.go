package main

import (
	"context"
	"fmt"
	"strings"
	"sync"
	"time"

	"github.com/nextdns/nextdns/resolver/endpoint"
)

// mgrx area (C08, C09): two election scenarios the scripted mgr area cannot express.
//   mgrx slow    — the preferred candidate's probe only returns when its context expires (5 s of real
//                  time: the budget is a constant of the code); the healthy alternative honours its
//                  context. Expected: the alternative is elected.
//   mgrx overlap — an election is held inside its OnChange callback (m.mu released) while a second
//                  election with other provider/health results runs to completion. Expected: the
//                  outcome of the elections in sequence (the later election wins).

type xEp struct{ key int }

func (e *xEp) String() string              { return fmt.Sprint(e.key) }
func (e *xEp) Protocol() endpoint.Protocol { return endpoint.ProtocolDOH }
func (e *xEp) Equal(o endpoint.Endpoint) bool {
	f, ok := o.(*xEp)
	return ok && f.key == e.key
}
func (e *xEp) Exchange(ctx context.Context, payload, buf []byte) (int, error) { return 0, nil }

func activeOf(m *endpoint.Manager) string {
	got := "none"
	done := make(chan struct{})
	go func() {
		_ = m.Do(context.Background(), func(e endpoint.Endpoint) error {
			got = e.String()
			return nil
		})
		close(done)
	}()
	select {
	case <-done:
	case <-time.After(3 * time.Second):
		return "TIMEOUT"
	}
	return got
}

func mgrxSlow() string {
	var mu sync.Mutex
	var changes []string
	a, b := &xEp{0}, &xEp{1}
	m := &endpoint.Manager{
		Providers: []endpoint.Provider{endpoint.StaticProvider([]endpoint.Endpoint{a, b})},
		EndpointTester: func(e endpoint.Endpoint) endpoint.Tester {
			return func(ctx context.Context, testDomain string) error {
				if e.(*xEp).key == 0 {
					<-ctx.Done() // black hole: answers nothing until the probe's own deadline
					return ctx.Err()
				}
				return ctx.Err() // healthy, but like every real probe it cannot run on an expired context
			}
		},
		OnChange: func(e endpoint.Endpoint) { mu.Lock(); changes = append(changes, e.String()); mu.Unlock() },
	}
	done := make(chan error, 1)
	go func() { done <- m.Test(context.Background()) }()
	select {
	case <-done:
	case <-time.After(15 * time.Second):
		return "TIMEOUT"
	}
	act := activeOf(m)
	mu.Lock()
	defer mu.Unlock()
	return "active=" + act + " changes=" + joinOrDash(changes)
}

func mgrxOverlap() string {
	var mu sync.Mutex
	var changes []string
	a, b := &xEp{0}, &xEp{1}
	phase := 0 // 0: a,b healthy; 1: a down; 2: only a offered, healthy
	hold := make(chan struct{})
	inCallback := make(chan struct{}, 4)
	m := &endpoint.Manager{
		Providers: []endpoint.Provider{endpoint.ProviderFunc(func(ctx context.Context) ([]endpoint.Endpoint, error) {
			mu.Lock()
			defer mu.Unlock()
			if phase == 2 {
				return []endpoint.Endpoint{a}, nil
			}
			return []endpoint.Endpoint{a, b}, nil
		})},
		EndpointTester: func(e endpoint.Endpoint) endpoint.Tester {
			return func(ctx context.Context, testDomain string) error {
				mu.Lock()
				defer mu.Unlock()
				if phase == 1 && e.(*xEp).key == 0 {
					return fmt.Errorf("probe failed")
				}
				return nil
			}
		},
	}
	m.OnChange = func(e endpoint.Endpoint) {
		mu.Lock()
		changes = append(changes, e.String())
		p := phase
		mu.Unlock()
		if p == 1 {
			inCallback <- struct{}{}
			<-hold // election E1 is held here, m.mu released by testLocked
		}
	}
	if err := m.Test(context.Background()); err != nil { // E0
		return "ERR " + err.Error()
	}
	mu.Lock()
	phase = 1
	mu.Unlock()
	e1 := make(chan error, 1)
	go func() { e1 <- m.Test(context.Background()) }() // E1
	select {
	case <-inCallback:
	case <-time.After(3 * time.Second):
		return "TIMEOUT-E1"
	}
	mu.Lock()
	phase = 2
	mu.Unlock()
	e2 := make(chan error, 1)
	go func() { e2 <- m.Test(context.Background()) }() // E2 inside E1's callback window
	e2done := false
	select {
	case <-e2:
		e2done = true
	case <-time.After(3 * time.Second):
		// E2 could not run inside the window (it waits for m.mu): release E1 and let them run in sequence
	}
	close(hold)
	select {
	case <-e1:
	case <-time.After(3 * time.Second):
		return "TIMEOUT-E1-END"
	}
	if !e2done {
		select {
		case <-e2:
		case <-time.After(3 * time.Second):
			return "TIMEOUT-E2"
		}
	}
	act := activeOf(m)
	mu.Lock()
	defer mu.Unlock()
	return "active=" + act + " changes=" + joinOrDash(changes)
}

func init() {
	areas["mgrx"] = func(c *Ctx) error {
		one := func(sc string) {
			var out string
			switch sc {
			case "slow":
				out = mgrxSlow()
			case "overlap":
				out = mgrxOverlap()
			default:
				return
			}
			c.Emit("mgrx "+sc, out)
			c.Stat("scenario:" + sc)
		}
		if ls := replayLines(); ls != nil {
			for _, l := range ls {
				f := strings.Fields(l)
				if len(f) == 2 && f[0] == "mgrx" {
					one(f[1])
				}
			}
			return nil
		}
		for i := 0; i < c.n; i++ {
			one("overlap")
		}
		one("slow")
		return nil
	}
}
