package main

import (
	"bytes"
	"context"
	"fmt"
	"io"
	"net/http"
	"reflect"
	"strings"

	"github.com/nextdns/nextdns/resolver"
	"github.com/nextdns/nextdns/resolver/query"
)

// purl area (C11, URL side): for a profile id, the REAL resolver.DOH.resolve is run with
// GetProfileURL returning what run.go builds ("https://dns.nextdns.io/" + id, id), a recording
// cache and a recording RoundTripper:
//   purl <id>  -> ctx=<first field of the cache key> path=<req.URL.Path> profile=<ResolveInfo.Profile>
// The literal prefix is also re-read from run.go by extract/ (NV.Gen.Run.urlPrefix*).

const purlPrefix = "https://dns.nextdns.io/"

type recCache struct{ ctxs []string }

func (c *recCache) note(key interface{}) {
	v := reflect.ValueOf(key)
	if v.Kind() == reflect.Struct && v.NumField() > 0 && v.Field(0).Kind() == reflect.String {
		c.ctxs = append(c.ctxs, v.Field(0).String())
	} else {
		c.ctxs = append(c.ctxs, fmt.Sprintf("?%T", key))
	}
}
func (c *recCache) Add(key, value interface{})              { c.note(key) }
func (c *recCache) Get(key interface{}) (interface{}, bool) { c.note(key); return nil, false }

type recRT struct{ paths, hosts []string }

func (t *recRT) RoundTrip(req *http.Request) (*http.Response, error) {
	t.paths = append(t.paths, req.URL.Path)
	t.hosts = append(t.hosts, req.URL.Scheme+"://"+req.URL.Host)
	body := []byte{0, 1, 0x81, 0x80, 0, 0, 0, 0, 0, 0, 0, 0}
	return &http.Response{StatusCode: 200, Proto: "HTTP/2.0", Header: http.Header{},
		Body: io.NopCloser(bytes.NewReader(body))}, nil
}

func uniq(xs []string) (string, bool) {
	if len(xs) == 0 {
		return "", false
	}
	for _, x := range xs {
		if x != xs[0] {
			return "", false
		}
	}
	return xs[0], true
}

func runPurl(id string) (line string) {
	defer func() {
		if x := recover(); x != nil {
			line = fmt.Sprintf("PANIC %v", x)
		}
	}()
	cache := &recCache{}
	rt := &recRT{}
	d := &resolver.DOH{
		GetProfileURL: func(q query.Query) (string, string) { return purlPrefix + id, id },
		Cache:         cache,
	}
	buf := make([]byte, 512)
	q := query.Query{ID: 1, Class: query.ClassINET, Type: query.TypeA, Name: "example.com.", Payload: []byte{0, 1, 1, 0, 0, 1, 0, 0, 0, 0, 0, 0}}
	_, info, err := resolver.VerifC11DOHResolve(d, context.Background(), q, buf, rt)
	if err != nil {
		return "err:" + err.Error()
	}
	ctx, ok1 := uniq(cache.ctxs) // Get then Add: both must use the same context
	path, ok2 := uniq(rt.paths)
	host, _ := uniq(rt.hosts)
	if !ok1 || !ok2 || len(cache.ctxs) != 2 || len(rt.paths) != 1 {
		return fmt.Sprintf("inconsistent ctxs=%q paths=%q", cache.ctxs, rt.paths)
	}
	if host != strings.TrimSuffix(purlPrefix, "/") {
		return "other-host " + host
	}
	return fmt.Sprintf("ctx=%s path=%s profile=%s", hx([]byte(ctx)), hx([]byte(path)), hx([]byte(info.Profile)))
}

const purlChars = "abcdefghijklmnopqrstuvwxyzABCDEFGHIJKLMNOPQRSTUVWXYZ0123456789-._~"

func init() {
	areas["purl"] = func(c *Ctx) error {
		runLine := func(l string) {
			f := strings.Split(l, " ")
			if len(f) != 2 || f[0] != "purl" {
				c.Emit(l, "bad-case")
				return
			}
			c.Emit(l, runPurl(string(unhx(f[1]))))
		}
		if ls := replayLines(); ls != nil {
			for _, l := range ls {
				runLine(l)
			}
			return nil
		}
		r := NewRng(c.seed)
		for i := 0; i < c.n; i++ {
			var id []byte
			switch k := r.Intn(100); {
			case k < 5:
				c.Stat("id:empty")
			case k < 60: // the shape of real NextDNS ids: 6 hex digits
				for j := 0; j < 6; j++ {
					id = append(id, "0123456789abcdef"[r.Intn(16)])
				}
				c.Stat("id:hex6")
			default:
				n := 1 + r.Intn(12)
				for j := 0; j < n; j++ {
					id = append(id, purlChars[r.Intn(len(purlChars))])
				}
				c.Stat("id:unreserved")
			}
			runLine("purl " + hx(id))
		}
		return nil
	}
}
