package main

import (
	"context"
	"fmt"
	"os"
	"path/filepath"
	"strconv"
	"strings"
	"time"

	"github.com/nextdns/nextdns/discovery"
	"github.com/nextdns/nextdns/proxy"
	"github.com/nextdns/nextdns/resolver"
	"github.com/nextdns/nextdns/resolver/query"
)

// wedge area (C02): hostile byte strings are sent to the REAL listening sockets of a proxy with a
// small capacity K — many more of them than K — and every datagram longer than 14 bytes / every
// framed TCP message longer than 14 bytes must be answered; afterwards well-formed queries must
// still be answered ("cannot stop it answering other clients"). A handler that mishandles a
// hostile message in a way that costs a capacity unit, a buffer or a goroutine wedges the daemon
// only after enough of them accumulated, which is why the burst is a multiple of K.
//
// case:  wedge <K> udp|tcp <hex,hex,...>
// impl:  answered=<a>/<n> after=ok|dead      (n = payloads longer than 14 bytes)

func runWedge(k int, proto string, payloads [][]byte) string {
	up := &scripted{pick: func(q query.Query) outcome { return outcome{kind: "S", n: 40, salt: 1} }}
	// wired as run.go wires the daemon by default: hosts file in front of the upstream, bogus-priv,
	// lease-file and hosts discovery behind it (every hostile message also goes through the name
	// and address lookups of package discovery, with whatever name the broken parse left)
	srv, err := startServerFull(up, uint(k), 400*time.Millisecond, wedgeDir)
	if err != nil {
		return "ERR " + err.Error()
	}
	defer srv.stop()
	n, a := 0, 0
	for _, p := range payloads {
		if len(p) > 14 {
			n++
		}
		if proto == "udp" {
			if len(p) == 0 {
				continue
			}
			wait := 1200 * time.Millisecond
			if len(p) <= 14 {
				wait = 30 * time.Millisecond
			}
			if r, err := udpExchange(srv.addr, p, wait); err == nil && len(r) >= 1 && len(p) > 14 {
				a++
			}
		} else {
			t := &tcpClient{}
			r, err := t.exchange(srv.addr, p, 1200*time.Millisecond)
			if err == nil && len(r) >= 4+2 && r != "close" && r != "TIMEOUT" && r != "SHORT" && len(p) > 14 {
				a++
			}
			if t.c != nil {
				t.c.Close()
			}
		}
	}
	// let the connection handlers of closed TCP clients notice
	time.Sleep(60 * time.Millisecond)
	after := "ok"
	for j := 0; j < 3; j++ {
		q := kindQuery(900+j, "ok")
		if j%2 == 0 {
			if r, err := udpExchange(srv.addr, q, 1500*time.Millisecond); err != nil || len(r) < 12 {
				after = "dead"
			}
		} else {
			t := &tcpClient{}
			if r, err := t.exchange(srv.addr, q, 1500*time.Millisecond); err != nil || len(r) < 24+4 {
				after = "dead"
			}
			if t.c != nil {
				t.c.Close()
			}
		}
	}
	return fmt.Sprintf("answered=%d/%d after=%s", a, n, after)
}

var wedgeDir string

func startServerFull(up resolver.Resolver, inflight uint, timeout time.Duration, dir string) (*server, error) {
	hostsFile := filepath.Join(dir, "hosts")
	leaseFile := filepath.Join(dir, "dnsmasq.leases")
	_ = os.WriteFile(hostsFile, []byte("127.0.0.1 localhost\n10.9.8.7 nas.lan NAS\nfd00::7 nas.lan\n"), 0644)
	_ = os.WriteFile(leaseFile, []byte("1700000000 aa:bb:cc:dd:ee:01 10.9.8.20 printer 01:aa:bb:cc:dd:ee:01\n"), 0644)
	discovery.VerifSetHostsFiles([]string{hostsFile})
	discovery.VerifSetLeaseFile(leaseFile, "dnsmasq")
	hosts := &discovery.Hosts{}
	s := &server{done: make(chan error, 1)}
	s.addr = "127.0.0.1:" + strconv.Itoa(freePort())
	ctx, cancel := context.WithCancel(context.Background())
	s.cancel = cancel
	p := proxy.Proxy{Addrs: []string{s.addr}, Upstream: up, Timeout: timeout, MaxInflightRequests: inflight,
		BogusPriv: true, LocalResolver: discovery.Resolver{hosts}, DiscoveryResolver: discovery.Resolver{hosts, &discovery.DHCP{}}}
	go func() { s.done <- p.ListenAndServe(ctx) }()
	probe := []byte{0xab, 0xcd, 1, 0, 0, 1, 0, 0, 0, 0, 0, 0, 1, 'p', 0, 0, 1, 0, 1}
	deadline := time.Now().Add(5 * time.Second)
	for time.Now().Before(deadline) {
		if r, err := udpExchange(s.addr, probe, 200*time.Millisecond); err == nil && len(r) >= 12 {
			return s, nil
		}
		select {
		case err := <-s.done:
			return nil, fmt.Errorf("ListenAndServe returned early: %v", err)
		default:
		}
	}
	cancel()
	return nil, fmt.Errorf("server did not come up")
}

func init() {
	areas["wedge"] = func(c *Ctx) error {
		wedgeDir = c.dir
		one := func(k int, proto string, ps [][]byte) {
			var hs []string
			for _, p := range ps {
				if len(p) == 0 {
					continue
				}
				hs = append(hs, hx(p))
			}
			c.Begin("wedge " + strconv.Itoa(k) + " " + proto + " " + strings.Join(hs, ","))
			c.Emit("wedge "+strconv.Itoa(k)+" "+proto+" "+strings.Join(hs, ","), runWedge(k, proto, ps))
			c.Stat("proto:" + proto)
			c.Stat("K:" + strconv.Itoa(k))
		}
		if ls := replayLines(); ls != nil {
			for _, l := range ls {
				f := strings.Fields(l)
				if len(f) == 4 && f[0] == "wedge" {
					k, _ := strconv.Atoi(f[1])
					var ps [][]byte
					for _, h := range strings.Split(f[3], ",") {
						ps = append(ps, unhx(h))
					}
					one(k, f[2], ps)
				}
			}
			return nil
		}
		r := NewRng(c.seed)
		for i := 0; i < c.n; i++ {
			k := 2 + r.Intn(3)
			proto := "udp"
			if i%3 == 2 {
				proto = "tcp"
			}
			m := 3*k + r.Intn(2*k+1)
			var ps [][]byte
			// half of the bursts repeat ONE hostile message: a per-message loss accumulates fastest
			var fixed []byte
			if r.Chance(50) {
				q := r.genQuery(false)
				fixed, _ = r.mutate(q.payload)
			}
			for j := 0; j < m; j++ {
				var p []byte
				switch {
				case fixed != nil && r.Chance(85):
					p = fixed
				case r.Chance(20):
					p = r.genQuery(true).payload
					c.Stat("msg:wellformed")
				default:
					q := r.genQuery(false)
					p = q.payload
					if r.Chance(60) {
						var how string
						p, how = r.mutate(p)
						c.Stat("mut:" + how)
					} else {
						c.Stat("msg:structured")
					}
				}
				if len(p) == 0 {
					p = []byte{0}
				}
				if len(p) > 1400 {
					p = p[:1400]
				}
				if len(p) <= 14 {
					c.Stat("msg:tiny")
				}
				ps = append(ps, p)
			}
			one(k, proto, ps)
		}
		return nil
	}
}
