module nvharness

go 1.20

require (
	github.com/nextdns/nextdns v0.0.0
	golang.org/x/net v0.33.0
	golang.org/x/sys v0.28.0
)

require github.com/hashicorp/golang-lru v1.0.2 // indirect

replace github.com/nextdns/nextdns => /repo
