package main

import (
	"fmt"
	"strings"

	"github.com/nextdns/nextdns/resolver/endpoint"
)

// epeq area (C08/C09): the identity test the manager's election relies on. `testLocked` fires
// OnChange and installs the elected endpoint only when `Equal` says it differs from the active
// one, and `newActiveEndpointLocked` hands back the existing wrapper when `Equal` says it is the
// same: an `Equal` that takes two different servers for one freezes the manager on a dead one.
// The REAL (*DOHEndpoint).Equal / (*DNSEndpoint).Equal are run on pairs of endpoint values:
//   epeq <spec> <spec>        spec = D;<hosthex>;<pathhex>;<iphex>,<iphex>…|-   or   N;<addrhex>
//   -> ab=<0|1> ba=<0|1> aa=<0|1>
// Pairs that differ only in the ORDER of their bootstrap addresses are not generated (an
// order-insensitive comparison is as good as the positional one).

func mkEndpoint(spec string) endpoint.Endpoint {
	f := strings.Split(spec, ";")
	switch {
	case len(f) == 4 && f[0] == "D":
		e := &endpoint.DOHEndpoint{Hostname: string(unhx(f[1])), Path: string(unhx(f[2]))}
		if f[3] != "-" {
			for _, h := range strings.Split(f[3], ",") {
				e.Bootstrap = append(e.Bootstrap, string(unhx(h)))
			}
		}
		return e
	case len(f) == 2 && f[0] == "N":
		return &endpoint.DNSEndpoint{Addr: string(unhx(f[1]))}
	}
	return nil
}

func b2i(b bool) int {
	if b {
		return 1
	}
	return 0
}

func init() {
	areas["epeq"] = func(c *Ctx) error {
		one := func(l string) {
			f := strings.Fields(l)
			if len(f) != 3 || f[0] != "epeq" {
				c.Emit(l, "bad-op")
				return
			}
			a, b := mkEndpoint(f[1]), mkEndpoint(f[2])
			if a == nil || b == nil {
				c.Emit(l, "bad-op")
				return
			}
			c.Emit(l, fmt.Sprintf("ab=%d ba=%d aa=%d", b2i(a.Equal(b)), b2i(b.Equal(a)), b2i(a.Equal(mkEndpoint(f[1])))))
		}
		if ls := replayLines(); ls != nil {
			for _, l := range ls {
				one(l)
			}
			return nil
		}
		r := NewRng(c.seed)
		hosts := []string{"dns.nextdns.io", "dns1.nextdns.io", "dns2.nextdns.io", "doh.example", ""}
		paths := []string{"", "/abc123", "/dns-query"}
		ips := []string{"192.0.2.1", "192.0.2.2", "198.51.100.7", "2001:db8::1", "2001:db8::2", "45.90.28.0", "45.90.30.0"}
		doh := func() string {
			n := r.Intn(4)
			var bs []string
			for i := 0; i < n; i++ {
				bs = append(bs, hx([]byte(ips[r.Intn(len(ips))])))
			}
			b := "-"
			if len(bs) > 0 {
				b = strings.Join(bs, ",")
			}
			return "D;" + hx([]byte(hosts[r.Intn(len(hosts))])) + ";" + hx([]byte(paths[r.Intn(len(paths))])) + ";" + b
		}
		for i := 0; i < c.n; i++ {
			var a, b string
			switch k := r.Intn(10); {
			case k < 2:
				a = doh()
				b = a
				c.Stat("pair:identical")
			case k < 6:
				// same host and path, same NUMBER of bootstrap addresses, other addresses
				// (primary / secondary servers of one provider)
				a = doh()
				f := strings.Split(a, ";")
				if f[3] == "-" {
					f[3] = hx([]byte(ips[0]))
					a = strings.Join(f, ";")
				}
				bs := strings.Split(f[3], ",")
				j := r.Intn(len(bs))
				for {
					nb := hx([]byte(ips[r.Intn(len(ips))]))
					if nb != bs[j] {
						bs[j] = nb
						break
					}
				}
				g := append([]string{}, f...)
				g[3] = strings.Join(bs, ",")
				b = strings.Join(g, ";")
				// not a mere reordering
				if sortedJoin(strings.Split(f[3], ",")) == sortedJoin(bs) {
					b = a
				}
				c.Stat("pair:same-host-other-ips")
			case k < 8:
				a, b = doh(), doh()
				if a != b {
					fa, fb := strings.Split(a, ";"), strings.Split(b, ";")
					if fa[1] == fb[1] && fa[2] == fb[2] && sortedJoin(strings.Split(fa[3], ",")) == sortedJoin(strings.Split(fb[3], ",")) {
						b = a
					}
				}
				c.Stat("pair:random-doh")
			case k < 9:
				// plain-DNS servers as host:port - the same address on another port, and the same link-local address on
				// another interface (zone), are other servers
				d53 := []string{"192.0.2.1:53", "192.0.2.1:5353", "192.0.2.2:53", "[2001:db8::1]:53", "[2001:db8::2]:53",
					"[fe80::1%eth0]:53", "[fe80::1%wlan0]:53", "[fe80::1%eth0]:5353", "[fe80::2%eth0]:53", "45.90.28.0:53"}
				a = "N;" + hx([]byte(d53[r.Intn(len(d53))]))
				b = "N;" + hx([]byte(d53[r.Intn(len(d53))]))
				c.Stat("pair:dns53")
			default:
				a = doh()
				b = "N;" + hx([]byte(ips[r.Intn(3)]+":53"))
				c.Stat("pair:cross-type")
			}
			one("epeq " + a + " " + b)
		}
		return nil
	}
}

func sortedJoin(xs []string) string {
	ys := append([]string{}, xs...)
	for i := range ys {
		for j := i + 1; j < len(ys); j++ {
			if ys[j] < ys[i] {
				ys[i], ys[j] = ys[j], ys[i]
			}
		}
	}
	return strings.Join(ys, ",")
}
