package main

import (
	"context"
	"fmt"
	"os"
	"path/filepath"
	"strings"
	"sync"
	"syscall"
	"time"

	"github.com/nextdns/nextdns/discovery"
	"github.com/nextdns/nextdns/proxy"
	"github.com/nextdns/nextdns/resolver"
	"github.com/nextdns/nextdns/resolver/query"
)

// slowrefresh area (C15, "every reply is one that some sequential order of the same queries could
// have produced"): a lease-file refresh that is SLOW (the file is a named pipe whose writer comes
// late) overlaps a second lookup that is due for a refresh of its own; meanwhile a preferred lease
// file with newer content appears.
//
//   A  LookupAddr(ip)      starts a refresh that blocks on the pipe (old content arrives at +150 ms)
//   +50 ms                 the preferred lease file is created with the NEW content
//   B  expire; LookupAddr  a lookup that is due for a refresh, issued while A is still reading
//   C  LookupAddr          after A and B have returned
//
// Refreshes are serialised by the source's lock: A answers from the old file, B and C from the
// new one. If B's refresh can overtake A's, A installs the OLD table last and C — issued after B
// had already been answered from the new file — is answered from the old one: no sequential order
// of (A, file change, B, C) gives new-then-old.
//
// case: slowrefresh <format> <iphex> <oldnamehex> <newnamehex>     impl: A=<hex> B=<hex> C=<hex>

func leaseLine(format, ip, name string) string {
	if format == "isc-dhcpd" {
		return fmt.Sprintf("lease %s {\n  hardware ethernet aa:bb:cc:dd:ee:01;\n  client-hostname \"%s\";\n}\n", ip, name)
	}
	return fmt.Sprintf("1700000000 aa:bb:cc:dd:ee:01 %s %s 01:aa:bb:cc:dd:ee:01\n", ip, name)
}

func runSlowRefresh(dir, format, ip, oldName, newName string) string {
	pref := filepath.Join(dir, "preferred.leases")
	pipe := filepath.Join(dir, "pipe.leases")
	_ = os.Remove(pref)
	_ = os.Remove(pipe)
	if err := syscall.Mkfifo(pipe, 0644); err != nil {
		return "ERR mkfifo " + err.Error()
	}
	discovery.VerifSetLeaseFileList([]string{pref, pipe}, format)
	d := &discovery.DHCP{}
	res := func(ns []string) string {
		if len(ns) == 0 {
			return "-"
		}
		return hx([]byte(strings.Join(ns, ",")))
	}
	aCh := make(chan string, 1)
	bCh := make(chan string, 1)
	go func() { aCh <- res(d.LookupAddr(ip)) }()
	time.Sleep(50 * time.Millisecond)
	tmp := pref + ".tmp"
	_ = os.WriteFile(tmp, []byte(leaseLine(format, ip, newName)), 0644)
	_ = os.Rename(tmp, pref)
	go func() {
		d.VerifExpire()
		bCh <- res(d.LookupAddr(ip))
	}()
	time.Sleep(100 * time.Millisecond)
	// the late writer of the pipe: old content
	if w, err := os.OpenFile(pipe, os.O_WRONLY|syscall.O_NONBLOCK, 0); err == nil {
		_, _ = w.Write([]byte(leaseLine(format, ip, oldName)))
		w.Close()
	} else {
		return "ERR pipe " + err.Error()
	}
	var a, b string
	for i := 0; i < 2; i++ {
		select {
		case a = <-aCh:
		case b = <-bCh:
		case <-time.After(3 * time.Second):
			return "TIMEOUT"
		}
	}
	c := res(d.LookupAddr(ip))
	return fmt.Sprintf("A=%s B=%s C=%s", a, b, c)
}

// slowhosts (C12): the first load of the hosts file is slow (named pipe); a second query for a
// listed name, in another spelling, arrives while it is in progress. Both must be answered
// locally: a lookup that overtakes the load finds empty tables and the name goes upstream.
//
//	case: slowhosts <namehex> <ip>      impl: A=<L|U> B=<L|U>   (L answered locally, U asked the upstream)
func runSlowHosts(dir, name, ip string) string {
	pipe := filepath.Join(dir, "hosts.pipe")
	_ = os.Remove(pipe)
	if err := syscall.Mkfifo(pipe, 0644); err != nil {
		return "ERR mkfifo " + err.Error()
	}
	discovery.VerifSetHostsFiles([]string{pipe})
	up := &fakeUp{bytes: []byte{0, 0, 0x81, 0x83, 0, 0, 0, 0, 0, 0, 0, 0}, n: 12}
	var upMu sync.Mutex
	p := proxy.Proxy{Upstream: lockedUp{up, &upMu}, LocalResolver: discovery.Resolver{&discovery.Hosts{}}}
	ask := func(id int, nm string) string {
		payload := append(be16(id), 1, 0, 0, 1, 0, 0, 0, 0, 0, 0)
		payload = append(payload, nameToWire(nm)...)
		payload = append(payload, 0, 1, 0, 1)
		q, err := query.New(payload, loopback, loopback)
		if err != nil {
			return "E"
		}
		upMu.Lock()
		before := up.calls
		upMu.Unlock()
		buf := make([]byte, 4096)
		ctx, cancel := context.WithTimeout(context.Background(), 3*time.Second)
		defer cancel()
		n, _, _ := p.Resolve(ctx, q, buf)
		upMu.Lock()
		after := up.calls
		upMu.Unlock()
		if after != before || n <= 0 {
			return "U"
		}
		return "L"
	}
	aCh, bCh := make(chan string, 1), make(chan string, 1)
	go func() { aCh <- ask(1, name) }()
	time.Sleep(60 * time.Millisecond)
	go func() { bCh <- ask(2, strings.ToUpper(name)) }()
	time.Sleep(90 * time.Millisecond)
	if w, err := os.OpenFile(pipe, os.O_WRONLY|syscall.O_NONBLOCK, 0); err == nil {
		_, _ = w.Write([]byte("# hosts\n" + ip + " " + strings.TrimSuffix(name, ".") + "\n"))
		w.Close()
	} else {
		return "ERR pipe " + err.Error()
	}
	var a, b string
	for i := 0; i < 2; i++ {
		select {
		case a = <-aCh:
		case b = <-bCh:
		case <-time.After(4 * time.Second):
			return "TIMEOUT"
		}
	}
	return fmt.Sprintf("A=%s B=%s", a, b)
}

type lockedUp struct {
	u  *fakeUp
	mu *sync.Mutex
}

func (l lockedUp) Resolve(ctx context.Context, q query.Query, buf []byte) (int, resolver.ResolveInfo, error) {
	l.mu.Lock()
	defer l.mu.Unlock()
	return l.u.Resolve(ctx, q, buf)
}

func init() {
	areas["slowrefresh"] = func(c *Ctx) error {
		dir, err := os.MkdirTemp("", "nvslow")
		if err != nil {
			return err
		}
		defer os.RemoveAll(dir)
		one := func(l string) {
			f := strings.Fields(l)
			if len(f) == 3 && f[0] == "slowhosts" {
				c.Emit(l, runSlowHosts(dir, string(unhx(f[1])), f[2]))
				c.Stat("source:hosts")
				return
			}
			if len(f) != 5 || f[0] != "slowrefresh" {
				c.Emit(l, "bad-op")
				return
			}
			c.Emit(l, runSlowRefresh(dir, f[1], string(unhx(f[2])), string(unhx(f[3])), string(unhx(f[4]))))
			c.Stat("format:" + f[1])
		}
		if ls := replayLines(); ls != nil {
			for _, l := range ls {
				one(l)
			}
			return nil
		}
		r := NewRng(c.seed)
		for i := 0; i < c.n; i++ {
			format := "dnsmasq"
			if i%2 == 1 {
				format = "isc-dhcpd"
			}
			ip := fmt.Sprintf("10.%d.%d.%d", r.Intn(256), r.Intn(256), 1+r.Intn(254))
			if i%3 == 2 {
				one(fmt.Sprintf("slowhosts %s %s", hx([]byte(fmt.Sprintf("nas%d.lan.", r.Intn(1000)))), ip))
				continue
			}
			one(fmt.Sprintf("slowrefresh %s %s %s %s", format, hx([]byte(ip)), hx([]byte(fmt.Sprintf("host-old%d", r.Intn(1000)))), hx([]byte(fmt.Sprintf("Host-New%d", r.Intn(1000))))))
		}
		return nil
	}
}
