package main

import (
	"fmt"
	"net"
	"strings"
	"time"

	"github.com/nextdns/nextdns/resolver/query"
)

// parse area (C02, C13): every generated payload runs through the real query.New with a
// deadline; the canonical line has the same format as the Lean driver's `parse` output.

func stageOf(err error) string {
	if err == nil {
		return "ok"
	}
	s := err.Error()
	switch {
	case strings.HasPrefix(s, "parse query"):
		return "query"
	case strings.HasPrefix(s, "parse question"):
		return "question"
	case strings.HasPrefix(s, "parse additional"):
		return "additional"
	case strings.HasPrefix(s, "parse OPT"):
		return "opt"
	case strings.HasPrefix(s, "skip additional"):
		return "skipadd"
	}
	return "err:" + s
}

var loopback = net.IPv4(127, 0, 0, 1)

// transportPeer: the address the query "arrived from", a deterministic function of the payload (so that a
// case replays alone): the host itself, LAN clients, and clients that are neither - a public IPv4 address, a CGNAT /
// tailnet one, a global IPv6 one - and no address at all. What query.New does with the EDNS options must not depend
// on it (C13: the ECS address never leaves the host, whoever sent the query).
var transportPeers = []net.IP{net.IPv4(127, 0, 0, 1), net.IPv4(192, 168, 1, 2), net.IPv4(203, 0, 113, 7), net.IPv4(100, 64, 3, 9),
	net.ParseIP("2a01:e0a::123"), net.ParseIP("::1"), net.ParseIP("fd00::5"), net.IPv4(10, 9, 8, 7).To4(), nil, net.IPv4(8, 8, 4, 4).To4()}

func transportPeer(payload []byte) net.IP {
	h := uint32(2166136261)
	for _, b := range payload {
		h = (h ^ uint32(b)) * 16777619
	}
	return transportPeers[int(h>>8)%len(transportPeers)]
}

func samePeer(a, b net.IP) bool { return len(a) == len(b) && (len(a) == 0 || a.Equal(b)) }

type parseRes struct {
	q     query.Query
	err   error
	panic interface{}
}

// runParse calls the real parser on a private copy of payload, guarded by recover and a deadline.
func runParse(payload []byte, deadline time.Duration) (line string, q query.Query, ok bool) {
	p := append([]byte{}, payload...)
	ch := make(chan parseRes, 1)
	go func() {
		var r parseRes
		defer func() {
			if x := recover(); x != nil {
				r.panic = x
			}
			ch <- r
		}()
		r.q, r.err = query.New(p, transportPeer(payload), loopback)
	}()
	select {
	case r := <-ch:
		if r.panic != nil {
			return fmt.Sprintf("PANIC %v", r.panic), r.q, false
		}
		q := r.q
		peer := "none"
		if !samePeer(q.PeerIP, transportPeer(payload)) {
			peer = hx(q.PeerIP)
		}
		mac := "none"
		if q.MAC != nil {
			mac = hx(q.MAC)
		}
		rd := 0
		if q.RecursionDesired {
			rd = 1
		}
		return fmt.Sprintf("%s id=%d cls=%d type=%d rd=%d size=%d name=%s peer=%s mac=%s payload=%s",
			stageOf(r.err), q.ID, q.Class, q.Type, rd, q.MsgSize, hx([]byte(q.Name)), peer, mac, hx(q.Payload)), q, true
	case <-time.After(deadline):
		return "TIMEOUT", query.Query{}, false
	}
}

func init() {
	areas["parse"] = func(c *Ctx) error {
		r := NewRng(c.seed)
		timeouts := 0
		emit := func(p []byte) {
			line, _, ok := runParse(p, 2*time.Second)
			c.Emit("parse "+hx(p), line)
			if !ok {
				c.Stat("impl:" + strings.SplitN(line, " ", 2)[0])
				if line == "TIMEOUT" {
					timeouts++
				}
			} else {
				c.Stat("stage:" + strings.SplitN(line, " ", 2)[0])
			}
		}
		if ls := replayLines(); ls != nil {
			for _, l := range ls {
				f := strings.Fields(l)
				if len(f) == 2 && f[0] == "parse" {
					emit(unhx(f[1]))
				}
			}
			return nil
		}
		for i := 0; i < c.n && timeouts < 3; i++ {
			wf := r.Chance(30)
			q := r.genQuery(wf)
			p := q.payload
			if wf {
				c.Stat("gen:wellformed")
			} else {
				c.Stat("gen:structured")
			}
			for _, k := range q.kinds {
				c.Stat("kind:" + k)
			}
			if r.Chance(25) {
				var how string
				p, how = r.mutate(p)
				c.Stat("mut:" + how)
			}
			emit(p)
		}
		if timeouts > 0 {
			c.notes["aborted_after_timeouts"] = timeouts
		}
		return nil
	}
}
