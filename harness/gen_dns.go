package main

// Structured generator of DNS messages (queries and responses) built byte by byte, so that
// arbitrary, also ill-formed, structures can be produced: counts that lie, compression pointers,
// labels containing dots, EDNS options of any kind at any position.

type rrSpec struct {
	name  []byte // wire name
	typ   uint16
	class uint16
	ttl   uint32
	rdata []byte
	// rdlenDelta is added to the true rdata length (to make RDLENGTH lie)
	rdlenDelta int
}

func be16(n int) []byte { return []byte{byte(n >> 8), byte(n)} }
func be32(n uint32) []byte {
	return []byte{byte(n >> 24), byte(n >> 16), byte(n >> 8), byte(n)}
}

func wireName(labels ...string) []byte {
	var b []byte
	for _, l := range labels {
		b = append(b, byte(len(l)))
		b = append(b, l...)
	}
	return append(b, 0)
}

var labelPool = []string{"www", "example", "com", "a", "corp", "host", "local", "Foo", "foo", "xn--caf-dma", "in-addr", "arpa", "ip6", "1", "10", "168", "192", "_tcp", "b-1"}

func (r *Rng) label() string {
	switch r.Intn(20) {
	case 0:
		// label with an embedded dot
		return "fo.o"
	case 1:
		// long label
		n := 1 + r.Intn(63)
		b := make([]byte, n)
		for i := range b {
			b[i] = byte('a' + r.Intn(26))
		}
		return string(b)
	case 2:
		// arbitrary bytes
		return string(r.Bytes(1 + r.Intn(8)))
	}
	return labelPool[r.Intn(len(labelPool))]
}

// name returns a wire-format name; off is the offset at which it will be placed (for pointers).
func (r *Rng) name(off int) []byte {
	switch r.Intn(30) {
	case 0:
		return []byte{0} // root
	case 1:
		return []byte{0xC0, 12} // pointer to the question name
	case 2:
		return []byte{0xC0, byte(off)} // pointer to itself (loop) when off < 256
	case 3:
		return []byte{0x80, 1, 0} // reserved prefix
	case 4:
		// label cut short: the length byte promises more than what follows
		n := wireName(r.label())
		return n[:1+r.Intn(len(n)-1)]
	case 5:
		// label followed by a pointer
		n := wireName(r.label())
		n = n[:len(n)-1]
		return append(n, 0xC0, 12)
	case 6:
		// very long name (may exceed 255)
		var ls []string
		for i := 0; i < 3+r.Intn(6); i++ {
			b := make([]byte, 40+r.Intn(24))
			for j := range b {
				b[j] = byte('a' + r.Intn(26))
			}
			ls = append(ls, string(b))
		}
		return wireName(ls...)
	}
	n := 1 + r.Intn(4)
	ls := make([]string, n)
	for i := range ls {
		ls[i] = r.label()
	}
	return wireName(ls...)
}

func packRR(rr rrSpec) []byte {
	b := append([]byte{}, rr.name...)
	b = append(b, be16(int(rr.typ))...)
	b = append(b, be16(int(rr.class))...)
	b = append(b, be32(rr.ttl)...)
	b = append(b, be16(len(rr.rdata)+rr.rdlenDelta)...)
	return append(b, rr.rdata...)
}

var qtypes = []int{1, 1, 1, 28, 28, 12, 12, 5, 15, 16, 2, 6, 33, 41, 255, 65, 64, 99, 0, 256, 257, 32768, 65535}
var qclasses = []int{1, 1, 1, 1, 3, 255, 0, 2}

type optSpec struct {
	code int
	data []byte
	// lenDelta is added to the true length in the option header
	lenDelta int
}

func (r *Rng) ecsOpt() optSpec {
	switch r.Intn(10) {
	case 0: // v4 /32
		return optSpec{code: 8, data: append([]byte{0, 1, 32, 0}, r.Bytes(4)...)}
	case 1: // v4 /24 padded to 8 bytes
		return optSpec{code: 8, data: append([]byte{0, 1, 24, 0}, r.Bytes(4)...)}
	case 2: // v6 /128
		return optSpec{code: 8, data: append([]byte{0, 2, 128, 0}, r.Bytes(16)...)}
	case 3: // v6 /56
		return optSpec{code: 8, data: append([]byte{0, 2, 56, 0}, r.Bytes(7)...)}
	case 4: // v6 /128 but short data (>=8, <20)
		return optSpec{code: 8, data: append([]byte{0, 2, 128, 0}, r.Bytes(4+r.Intn(12))...)}
	case 5: // short ecs: random bytes, or a well-formed family/prefix header with a truncated address
		if r.Bool() {
			return optSpec{code: 8, data: append([]byte{0, byte(1 + r.Intn(2)), byte(r.Pick([]int{32, 128, 24, 0})), 0}, r.Bytes(r.Intn(4))...)}
		}
		return optSpec{code: 8, data: r.Bytes(r.Intn(8))}
	case 6: // unknown family
		return optSpec{code: 8, data: append([]byte{0, byte(r.Intn(5)), 32, 0}, r.Bytes(4+r.Intn(20))...)}
	case 8: // OPTION-LENGTH around 256: only the low length byte is read by nutterECSOption (C13 finding)
		n := r.Pick([]int{247, 248, 249, 252, 260, 300, 504})
		return optSpec{code: 8, data: append([]byte{0, 1, 32, 0}, r.Bytes(4+n)...)}
	case 9: // v6 /128 with boundary lengths
		n := r.Pick([]int{15, 16, 17, 251, 252, 253})
		return optSpec{code: 8, data: append([]byte{0, 2, 128, 0}, r.Bytes(n)...)}
	default: // v4/32 with trailing bytes
		return optSpec{code: 8, data: append([]byte{0, 1, 32, 0}, r.Bytes(4+r.Intn(30))...)}
	}
}

func (r *Rng) opt() optSpec {
	switch r.Intn(10) {
	case 0, 1, 2, 3:
		return r.ecsOpt()
	case 4:
		return optSpec{code: 0xfde9, data: r.Bytes(6)}
	case 5:
		return optSpec{code: 0xfde9, data: r.Bytes(r.Intn(9))}
	case 6:
		return optSpec{code: 10, data: r.Bytes(8)} // cookie
	case 7:
		return optSpec{code: r.Intn(65536), data: r.Bytes(r.Intn(40))}
	case 8:
		o := r.opt()
		o.lenDelta = r.Intn(5) - 2
		return o
	default:
		return optSpec{code: 12, data: make([]byte, r.Intn(300))} // padding, may be >255 long
	}
}

func packOpts(opts []optSpec) []byte {
	var b []byte
	for _, o := range opts {
		b = append(b, be16(o.code)...)
		b = append(b, be16(len(o.data)+o.lenDelta)...)
		b = append(b, o.data...)
	}
	return b
}

func (r *Rng) randRR(off int) rrSpec {
	t := uint16(r.Pick(qtypes))
	if t == 41 || t == 0 {
		t = 1
	}
	var rd []byte
	switch t {
	case 1:
		rd = r.Bytes(4)
	case 28:
		rd = r.Bytes(16)
	default:
		rd = r.Bytes(r.Intn(24))
	}
	rr := rrSpec{name: r.name(off), typ: t, class: 1, ttl: r.ttl(), rdata: rd}
	if r.Chance(3) {
		rr.rdlenDelta = r.Intn(7) - 3
	}
	return rr
}

func (r *Rng) ttl() uint32 {
	switch r.Intn(8) {
	case 0:
		return 0
	case 1:
		return 1
	case 2:
		return 0x7fffffff
	case 3:
		return 0xffffffff
	case 4:
		return uint32(r.Intn(10))
	default:
		return uint32(r.Intn(100000))
	}
}

type querySpec struct {
	id      int
	flags   int
	qd      int // number of questions actually written
	qdDelta int // header lie
	payload []byte
	hasOPT  bool
	udpSize int
	kinds   []string
}

// genQuery builds a (mostly well-formed) query. wf=true restricts to well-formed single-question
// queries with ordinary labels.
func (r *Rng) genQuery(wf bool) querySpec {
	var q querySpec
	q.id = r.Intn(65536)
	q.flags = 0x0100
	if r.Chance(15) {
		q.flags = r.Intn(65536) & 0x7fff
	}
	q.qd = 1
	if !wf {
		switch r.Intn(20) {
		case 0:
			q.qd = 0
		case 1:
			q.qd = 2
		}
	}
	var body []byte
	for i := 0; i < q.qd; i++ {
		var n []byte
		if wf {
			k := 1 + r.Intn(4)
			ls := make([]string, k)
			for j := range ls {
				ls[j] = labelPool[r.Intn(len(labelPool))]
			}
			n = wireName(ls...)
		} else {
			n = r.name(12 + len(body))
		}
		body = append(body, n...)
		body = append(body, be16(r.Pick(qtypes))...)
		body = append(body, be16(r.Pick(qclasses))...)
	}
	an, ns, ar := 0, 0, 0
	if !wf && r.Chance(15) {
		an = r.Intn(3)
		for i := 0; i < an; i++ {
			body = append(body, packRR(r.randRR(12+len(body)))...)
		}
		q.kinds = append(q.kinds, "answers")
	}
	if !wf && r.Chance(10) {
		ns = r.Intn(3)
		for i := 0; i < ns; i++ {
			body = append(body, packRR(r.randRR(12+len(body)))...)
		}
		q.kinds = append(q.kinds, "authorities")
	}
	// additionals
	if !wf && r.Chance(25) {
		k := 1 + r.Intn(3)
		for i := 0; i < k; i++ {
			body = append(body, packRR(r.randRR(12+len(body)))...)
			ar++
		}
		q.kinds = append(q.kinds, "pre-opt-additional")
	}
	if r.Chance(70) {
		q.hasOPT = true
		sizes := []int{0, 511, 512, 513, 1232, 4093, 4094, 4095, 4096, 8192, 65507, 65535}
		q.udpSize = sizes[r.Intn(len(sizes))]
		if r.Chance(30) {
			q.udpSize = r.Intn(65536)
		}
		var opts []optSpec
		if r.Chance(60) {
			for i := 0; i < 1+r.Intn(4); i++ {
				opts = append(opts, r.opt())
			}
			q.kinds = append(q.kinds, "options")
		}
		name := []byte{0}
		if !wf && r.Chance(5) {
			name = r.name(12 + len(body))
		}
		rr := rrSpec{name: name, typ: 41, class: uint16(q.udpSize), ttl: uint32(r.Intn(2)) << 15, rdata: packOpts(opts)}
		if !wf && r.Chance(5) {
			rr.rdlenDelta = r.Intn(9) - 4
		}
		body = append(body, packRR(rr)...)
		ar++
		if !wf && r.Chance(10) {
			body = append(body, packRR(r.randRR(12+len(body)))...)
			ar++
			q.kinds = append(q.kinds, "post-opt-additional")
		} else if r.Chance(8) {
			// a signed query: the TSIG record closes the message, AFTER the OPT record (RFC 8945, 5.1)
			key := wireName(labelPool[r.Intn(len(labelPool))], "key")
			body = append(body, packRR(rrSpec{name: key, typ: 250, class: 255, ttl: 0, rdata: r.Bytes(16 + r.Intn(40))})...)
			ar++
			q.kinds = append(q.kinds, "tsig-after-opt")
		}
	}
	if !wf && r.Chance(5) {
		q.qdDelta = r.Intn(3) - 1
	}
	arHdr := ar
	if !wf && r.Chance(5) {
		arHdr = ar + r.Intn(4) - 1
		if arHdr < 0 {
			arHdr = 0
		}
		q.kinds = append(q.kinds, "arcount-lie")
	}
	hdr := append(be16(q.id), be16(q.flags)...)
	hdr = append(hdr, be16(q.qd+q.qdDelta)...)
	hdr = append(hdr, be16(an)...)
	hdr = append(hdr, be16(ns)...)
	hdr = append(hdr, be16(arHdr)...)
	q.payload = append(hdr, body...)
	return q
}

// mutate produces the malformed stream: truncations, bit flips, count lies, raw noise.
func (r *Rng) mutate(p []byte) ([]byte, string) {
	p = append([]byte{}, p...)
	switch r.Intn(6) {
	case 0:
		if len(p) > 1 {
			return p[:r.Intn(len(p))], "truncate"
		}
	case 1:
		for i := 0; i < 1+r.Intn(4); i++ {
			p[r.Intn(len(p))] ^= 1 << uint(r.Intn(8))
		}
		return p, "bitflip"
	case 2:
		if len(p) >= 12 {
			k := 4 + 2*r.Intn(4)
			v := r.Pick([]int{0, 1, 2, 255, 65535, 3})
			p[k], p[k+1] = byte(v>>8), byte(v)
		}
		return p, "countlie"
	case 3:
		return r.Bytes(r.Intn(64)), "noise"
	case 4:
		return append(p, r.Bytes(1+r.Intn(20))...), "trailing"
	}
	if len(p) > 13 {
		i := 12 + r.Intn(len(p)-12)
		p[i] = 0xC0
	}
	return p, "pointer"
}
