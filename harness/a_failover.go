package main

import (
	"context"
	"crypto/x509"
	"fmt"
	"io"
	"net/http"
	"net/http/httptest"
	"strconv"
	"strings"
	"sync"
	"sync/atomic"
	"time"

	"github.com/nextdns/nextdns/resolver"
	"github.com/nextdns/nextdns/resolver/endpoint"
	"github.com/nextdns/nextdns/resolver/query"
)

// failover area (C09), the resolver-to-manager joint: the REAL resolver.DNS (DOH.resolve with a
// response cache) on top of the REAL endpoint.Manager with its default probe, two DoH endpoints A
// (preferred) and B served by loopback TLS servers through the endpoints' own transports.
//   1. A is healthy: name X is resolved; its answer has TTL 0, so the cache holds an entry for X
//      that is never fresh again
//   2. A goes down (HTTP 500 for queries and probes; mode `hang`: queries get no answer before their own 150 ms
//      deadline, probes fail at once), B stays healthy
//   3. n queries alternating X and Y: every exchange with A fails; after error-threshold
//      consecutive failures the manager must elect B
//   4. a last query for a new name Z
// Whatever the resolver does with the expired entry for X, the failures on A must reach the
// manager: Z has to be answered by B.
//
// case: failover <threshold> <n> [hang]      impl: final=<A|B|fail> changed=<0|1>

type foCache struct {
	mu sync.Mutex
	m  map[interface{}]interface{}
}

func (c *foCache) Add(k, v interface{}) { c.mu.Lock(); c.m[k] = v; c.mu.Unlock() }
func (c *foCache) Get(k interface{}) (interface{}, bool) {
	c.mu.Lock()
	defer c.mu.Unlock()
	v, ok := c.m[k]
	return v, ok
}

type foServer struct {
	ts   *httptest.Server
	down int32
	mark byte
}

func (s *foServer) handler(w http.ResponseWriter, r *http.Request) {
	body, _ := io.ReadAll(r.Body)
	switch atomic.LoadInt32(&s.down) {
	case 1:
		w.WriteHeader(500)
		return
	case 2:
		// black hole for queries: nothing comes back before the query's own deadline; the manager's probe fails at once
		if len(body) >= 12 {
			select {
			case <-r.Context().Done():
			case <-time.After(3 * time.Second):
			}
		}
		w.WriteHeader(500)
		return
	}
	if len(body) < 12 {
		// the manager's probe: any 200 will do
		_, _ = w.Write([]byte{0, 0, 0x81, 0x80, 0, 0, 0, 0, 0, 0, 0, 0})
		return
	}
	// answer: the question echoed, one A record 10.0.0.<mark> with TTL 0
	rep := append([]byte{}, body...)
	rep[2], rep[3] = 0x81, 0x80
	rep[7] = 1
	rep = append(rep, 0xc0, 12, 0, 1, 0, 1, 0, 0, 0, 0, 0, 4, 10, 0, 0, s.mark)
	_, _ = w.Write(rep)
}

func foQuery(id int, name string) query.Query {
	p := append(be16(id), 1, 0, 0, 1, 0, 0, 0, 0, 0, 0)
	p = append(p, wireName(name, "test")...)
	p = append(p, 0, 1, 0, 1)
	q, _ := query.New(p, loopback, loopback)
	return q
}

func runFailover(threshold, n int, hang bool) string {
	mk := func(mark byte) *foServer {
		s := &foServer{mark: mark}
		ts := httptest.NewUnstartedServer(http.HandlerFunc(s.handler))
		ts.EnableHTTP2 = true
		ts.StartTLS()
		s.ts = ts
		return s
	}
	a, b := mk(1), mk(2)
	defer a.ts.Close()
	defer b.ts.Close()
	ep := func(s *foServer, host string) *endpoint.DOHEndpoint {
		roots := x509.NewCertPool()
		roots.AddCert(s.ts.Certificate())
		e := &endpoint.DOHEndpoint{Hostname: host}
		e.VerifUseTransport(s.ts.Listener.Addr().String(), roots)
		return e
	}
	ea, eb := ep(a, "a.example.com"), ep(b, "b.example.com")
	var changed int32
	mgr := &endpoint.Manager{
		Providers:      []endpoint.Provider{endpoint.StaticProvider([]endpoint.Endpoint{ea, eb})},
		InitEndpoint:   ea,
		ErrorThreshold: threshold,
		OnChange:       func(e endpoint.Endpoint) { atomic.StoreInt32(&changed, 1) },
	}
	res := &resolver.DNS{Manager: mgr}
	res.DOH.Cache = &foCache{m: map[interface{}]interface{}{}}
	ask := func(id int, name string) string {
		buf := make([]byte, 4096)
		// every query carries its own deadline, as the proxy's handlers give it (proxy/udp.go, tcp.go: p.Timeout)
		to := 2 * time.Second
		if hang {
			to = 150 * time.Millisecond
		}
		ctx, cancel := context.WithTimeout(context.Background(), to)
		defer cancel()
		k, _, err := res.Resolve(ctx, foQuery(id, name), buf)
		if err != nil || k < 16 {
			return "fail"
		}
		switch buf[k-1] {
		case 1:
			return "A"
		case 2:
			return "B"
		}
		return "fail"
	}
	if ask(1, "x") != "A" {
		return "ERR warmup"
	}
	if hang {
		atomic.StoreInt32(&a.down, 2)
	} else {
		atomic.StoreInt32(&a.down, 1)
	}
	for i := 0; i < n; i++ {
		name := "x"
		if i%2 == 1 {
			name = "y"
		}
		ask(10+i, name)
		time.Sleep(20 * time.Millisecond)
	}
	// the election runs in the background: give it time WITHOUT sending further queries (more
	// failing queries would reach the threshold by themselves), then ask once
	for i := 0; i < 40 && atomic.LoadInt32(&changed) == 0; i++ {
		time.Sleep(50 * time.Millisecond)
	}
	final := ask(100, "z")
	return fmt.Sprintf("final=%s changed=%d", final, atomic.LoadInt32(&changed))
}

func init() {
	areas["failover"] = func(c *Ctx) error {
		one := func(l string) {
			f := strings.Fields(l)
			if (len(f) != 3 && !(len(f) == 4 && f[3] == "hang")) || f[0] != "failover" {
				c.Emit(l, "bad-op")
				return
			}
			th, _ := strconv.Atoi(f[1])
			n, _ := strconv.Atoi(f[2])
			if th < 1 || th > 20 || n < 0 || n > 200 {
				c.Emit(l, "bad-op")
				return
			}
			c.Begin(l)
			c.Emit(l, runFailover(th, n, len(f) == 4))
			c.Stat("threshold:" + f[1])
			if len(f) == 4 {
				c.Stat("mode:hang")
			}
		}
		if ls := replayLines(); ls != nil {
			for _, l := range ls {
				one(l)
			}
			return nil
		}
		r := NewRng(c.seed)
		for i := 0; i < c.n; i++ {
			th := 2 + r.Intn(4)
			if i%2 == 1 {
				// the active endpoint is a black hole: every query fails by running into its OWN deadline
				one(fmt.Sprintf("failover %d %d hang", th, 2*th+r.Intn(3)))
				continue
			}
			one(fmt.Sprintf("failover %d %d", th, 3*th+r.Intn(6)))
		}
		return nil
	}
}
