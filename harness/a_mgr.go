package main

import (
	"bufio"
	"bytes"
	"context"
	"errors"
	"fmt"
	"io"
	"net"
	"os"
	"os/exec"
	"strconv"
	"strings"
	"sync"
	"sync/atomic"
	"syscall"
	"time"

	"github.com/nextdns/nextdns/resolver/endpoint"
)

// mgr area (C08, C09): scripts against the real endpoint.Manager.
//
// case: mgr T<thr> M<minTest> I<ep|-> G<k:iv,…|-> N<providers> <op>…   (ops: see NV/Driver/Manager.lean)
//
// The real Manager runs with fake providers/endpoints (scripted GetEndpoints / Equal / Exchange),
// a virtual clock (testNow) and a gate in DebugLog("Finding best endpoint"), the first statement
// of an election: a background election goroutine gives m.mu back and parks there until the
// script runs it (then it re-locks and continues) - the schedule in which the goroutine started by
// test() is slow to reach Manager.Test's Lock - so that Do calls interleave with started
// elections deterministically.
// Every wait has a deadline (liveness oracle): a Do or election that does not get through within
// 2 s yields TIMEOUT.  Scripts run in a child process: a panic in a background goroutine of the
// manager kills the child only and is reported as `PANIC …` for that script.

type mgrEp struct {
	key, tag int
	r        *mgrRun
}

func (e *mgrEp) String() string              { return fmt.Sprintf("%d.%d", e.key, e.tag) }
func (e *mgrEp) Protocol() endpoint.Protocol { return endpoint.ProtocolDOH }
func (e *mgrEp) Equal(o endpoint.Endpoint) bool {
	f, ok := o.(*mgrEp)
	return ok && f != nil && f.key == e.key
}

// Exchange is what the default tester (endpointTester) calls for endpoints with an even key.
func (e *mgrEp) Exchange(ctx context.Context, payload, buf []byte) (int, error) {
	return 0, e.r.probe(e)
}

func epName(e endpoint.Endpoint) string {
	if e == nil {
		return "nil"
	}
	return e.String()
}

type mgrProv struct {
	i int
	r *mgrRun
}

func (p *mgrProv) String() string { return "prov" + strconv.Itoa(p.i) }

type provRes struct {
	kind byte // 'L' list, 'E', 'U'
	eps  [][2]int
}

var errShapeCtr uint32

func unreachErr() error {
	sys := &os.SyscallError{Syscall: "connect", Err: syscall.ENETUNREACH}
	switch atomic.AddUint32(&errShapeCtr, 1) % 3 {
	case 0:
		return sys
	case 1:
		return fmt.Errorf("exchange: %w", &net.OpError{Op: "dial", Net: "udp", Err: sys})
	}
	return &net.OpError{Op: "dial", Net: "tcp", Err: sys}
}

func plainErr() error {
	switch atomic.AddUint32(&errShapeCtr, 1) % 5 {
	case 3:
		// errors about ONE destination or one link, not "the network is unreachable": the election goes on to the next candidate
		return &net.OpError{Op: "dial", Net: "tcp", Err: &os.SyscallError{Syscall: "connect", Err: syscall.EHOSTUNREACH}}
	case 4:
		return fmt.Errorf("exchange: %w", &net.OpError{Op: "dial", Net: "udp", Err: &os.SyscallError{Syscall: "connect", Err: syscall.ENETDOWN}})
	case 0:
		return errors.New("down")
	case 1:
		// a syscall error that is NOT network-unreachable
		return fmt.Errorf("roundtrip: %w", &net.OpError{Op: "dial", Net: "tcp", Err: &os.SyscallError{Syscall: "connect", Err: syscall.ECONNREFUSED}})
	}
	return context.DeadlineExceeded
}

func (p *mgrProv) GetEndpoints(ctx context.Context) ([]endpoint.Endpoint, error) {
	r := p.r
	if n := atomic.AddInt32(&r.inElection, 1); n > 1 {
		atomic.StoreInt32(&r.overlap, 1)
	}
	defer atomic.AddInt32(&r.inElection, -1)
	r.mu.Lock()
	r.evs = append(r.evs, "g"+strconv.Itoa(p.i))
	pr := r.provs[p.i]
	r.mu.Unlock()
	switch pr.kind {
	case 'E':
		return nil, plainErr()
	case 'U':
		return nil, unreachErr()
	}
	out := make([]endpoint.Endpoint, 0, len(pr.eps))
	for _, kt := range pr.eps {
		out = append(out, &mgrEp{key: kt[0], tag: kt[1], r: r})
	}
	return out, nil
}

type mgrDo struct {
	ae      *endpoint.VerifAE
	entered chan struct{}
	result  chan error
	done    chan error
}

type mgrRun struct {
	m        *endpoint.Manager
	mu       sync.Mutex
	evs      []string
	provs    []provRes
	health   map[int]byte
	clock    int64
	getMin   map[int]int
	sync     int32 // >0: elections pass the gate (bootstrap inside Do, direct Test)
	gateHit  chan chan struct{}
	pending  []*endpoint.VerifAE
	parked   []chan struct{}
	inflight []*mgrDo
	ids      map[*endpoint.VerifAE]int
	deadline time.Duration
	out      []string
	// soak observations
	inElection int32
	overlap    int32
}

func (r *mgrRun) log(s string) {
	r.mu.Lock()
	r.evs = append(r.evs, s)
	r.mu.Unlock()
}

func (r *mgrRun) take() string {
	r.mu.Lock()
	s := strings.Join(r.evs, ",")
	r.evs = r.evs[:0]
	r.mu.Unlock()
	return s
}

func (r *mgrRun) probe(e *mgrEp) error {
	r.mu.Lock()
	h := r.health[e.key]
	if h == 0 {
		h = 'O'
	}
	r.evs = append(r.evs, fmt.Sprintf("p%s=%c", e, h))
	r.mu.Unlock()
	switch h {
	case 'E':
		return plainErr()
	case 'U':
		return unreachErr()
	}
	return nil
}

const mgrEpoch = 1000000000

func newMgrRun(thr, minTest int, init *[2]int, getMin map[int]int, nprov int, gated bool) *mgrRun {
	r := &mgrRun{health: map[int]byte{}, clock: mgrEpoch, getMin: getMin, ids: map[*endpoint.VerifAE]int{},
		gateHit: make(chan chan struct{}), deadline: 2 * time.Second}
	m := &endpoint.Manager{ErrorThreshold: thr, MinTestInterval: time.Duration(minTest) * time.Second}
	for i := 0; i < nprov; i++ {
		m.Providers = append(m.Providers, &mgrProv{i: i, r: r})
		r.provs = append(r.provs, provRes{kind: 'L'})
	}
	if init != nil {
		m.InitEndpoint = &mgrEp{key: init[0], tag: init[1], r: r}
	}
	m.GetMinTestInterval = func(e endpoint.Endpoint) time.Duration {
		if f, ok := e.(*mgrEp); ok && f != nil {
			return time.Duration(r.getMin[f.key]) * time.Second
		}
		return 0
	}
	m.EndpointTester = func(e endpoint.Endpoint) endpoint.Tester {
		f, ok := e.(*mgrEp)
		if !ok || f == nil || f.key%2 == 0 {
			return nil // default tester: goes through Exchange
		}
		return func(ctx context.Context, testDomain string) error { return r.probe(f) }
	}
	m.OnChange = func(e endpoint.Endpoint) { r.log("oc" + epName(e)) }
	m.OnError = func(e endpoint.Endpoint, err error) { r.log("oe" + epName(e)) }
	m.OnProviderError = func(p endpoint.Provider, err error) { r.log("pe" + strings.TrimPrefix(p.String(), "prov")) }
	if gated {
		m.DebugLog = func(msg string) {
			if msg == "Finding best endpoint" && atomic.LoadInt32(&r.sync) == 0 {
				ch := make(chan struct{})
				endpoint.VerifUnlock(m)
				r.gateHit <- ch
				<-ch
				endpoint.VerifLock(m)
			}
		}
	}
	endpoint.VerifSetNow(m, func() time.Time {
		return time.Unix(atomic.LoadInt64(&r.clock), 0)
	})
	r.m = m
	return r
}

func (r *mgrRun) objStr(ae *endpoint.VerifAE) string {
	if ae == nil {
		return "#-"
	}
	id, ok := r.ids[ae]
	if !ok {
		id = len(r.ids)
		r.ids[ae] = id
	}
	ep, lt, iv, testing, errs := ae.VerifState()
	l := int64(0)
	if !lt.IsZero() {
		l = lt.Unix()
	}
	t := 0
	if testing {
		t = 1
	}
	return fmt.Sprintf("#%d:%s:%d:%d:%d:%d", id, epName(ep), l, int64(iv/time.Second), t, errs)
}

func (r *mgrRun) activeStr() string { return r.objStr(endpoint.VerifActiveNoLock(r.m)) }

var errMgrTimeout = errors.New("TIMEOUT")

func (r *mgrRun) waitGate() error {
	select {
	case ch := <-r.gateHit:
		r.parked = append(r.parked, ch)
		return nil
	case <-time.After(r.deadline):
		return errMgrTimeout
	}
}

// notePending registers a newly started background election of object ae.
func (r *mgrRun) notePending(ae *endpoint.VerifAE) error {
	if ae == nil || !ae.VerifTesting() {
		return nil
	}
	for _, p := range r.pending {
		if p == ae {
			return nil
		}
	}
	r.pending = append(r.pending, ae)
	return r.waitGate() // the goroutine parks at the gate
}

// runOne lets the oldest started election run to completion.
func (r *mgrRun) runOne() error {
	ae := r.pending[0]
	close(r.parked[0])
	r.parked = r.parked[1:]
	t0 := time.Now()
	for i := 0; ae.VerifTesting(); i++ {
		if time.Since(t0) > r.deadline {
			return errMgrTimeout
		}
		if i < 200 {
			time.Sleep(5 * time.Microsecond)
		} else {
			time.Sleep(200 * time.Microsecond)
		}
	}
	r.pending = r.pending[1:]
	evs := r.take()
	r.out = append(r.out, "R["+evs+"]@"+r.activeStr())
	return nil
}

func (r *mgrRun) drain() error {
	for len(r.pending) > 0 {
		if err := r.runOne(); err != nil {
			return err
		}
	}
	return nil
}

func parseEpTok(s string) ([2]int, bool) {
	f := strings.Split(s, ".")
	if len(f) != 2 {
		return [2]int{}, false
	}
	k, e1 := strconv.Atoi(f[0])
	t, e2 := strconv.Atoi(f[1])
	return [2]int{k, t}, e1 == nil && e2 == nil && k >= 0 && t >= 0
}

func (r *mgrRun) op(t string) error {
	switch {
	case t == "S":
		boot := endpoint.VerifActiveNoLock(r.m) == nil && r.m.InitEndpoint == nil
		if boot {
			atomic.StoreInt32(&r.sync, 1)
		}
		d := &mgrDo{entered: make(chan struct{}, 1), result: make(chan error, 1), done: make(chan error, 1)}
		go func() {
			d.done <- r.m.Do(context.Background(), func(e endpoint.Endpoint) error {
				r.log("a" + epName(e))
				d.entered <- struct{}{}
				return <-d.result
			})
		}()
		select {
		case <-d.entered:
			atomic.StoreInt32(&r.sync, 0)
			d.ae = endpoint.VerifActiveNoLock(r.m)
			r.inflight = append(r.inflight, d)
			if err := r.notePending(d.ae); err != nil {
				return err
			}
			r.out = append(r.out, "S["+r.take()+"]@"+r.activeStr())
		case err := <-d.done:
			atomic.StoreInt32(&r.sync, 0)
			if err != nil {
				r.log("r0")
			} else {
				r.log("r1")
			}
			r.out = append(r.out, "S["+r.take()+"]@"+r.activeStr())
		case <-time.After(r.deadline):
			return errMgrTimeout
		}
	case t == "X":
		atomic.StoreInt32(&r.sync, 1)
		done := make(chan error, 1)
		go func() { done <- r.m.Test(context.Background()) }()
		select {
		case err := <-done:
			atomic.StoreInt32(&r.sync, 0)
			if err != nil {
				r.log("r0")
			} else {
				r.log("r1")
			}
			r.out = append(r.out, "X["+r.take()+"]@"+r.activeStr())
		case <-time.After(r.deadline):
			return errMgrTimeout
		}
	case t == "R":
		if len(r.pending) == 0 {
			r.out = append(r.out, "R[none]")
			return nil
		}
		return r.runOne()
	case strings.HasPrefix(t, "A"):
		d, err := strconv.Atoi(t[1:])
		if err != nil || d < 0 {
			return errors.New("bad-op")
		}
		atomic.AddInt64(&r.clock, int64(d))
	case strings.HasPrefix(t, "F"):
		if len(t) < 3 || (t[len(t)-1] != 'o' && t[len(t)-1] != 'e') {
			return errors.New("bad-op")
		}
		j, err := strconv.Atoi(t[1 : len(t)-1])
		if err != nil || j < 0 {
			return errors.New("bad-op")
		}
		if len(r.inflight) == 0 {
			r.out = append(r.out, "F[skip]")
			return nil
		}
		j %= len(r.inflight)
		d := r.inflight[j]
		r.inflight = append(r.inflight[:j:j], r.inflight[j+1:]...)
		if t[len(t)-1] == 'o' {
			d.result <- nil
		} else {
			d.result <- errors.New("query failed")
		}
		select {
		case <-d.done:
		case <-time.After(r.deadline):
			return errMgrTimeout
		}
		if err := r.notePending(d.ae); err != nil {
			return err
		}
		r.out = append(r.out, "F["+r.take()+"]@"+r.activeStr()+"~"+r.objStr(d.ae))
	case strings.HasPrefix(t, "P"):
		f := strings.SplitN(t[1:], "=", 2)
		if len(f) != 2 {
			return errors.New("bad-op")
		}
		i, err := strconv.Atoi(f[0])
		if err != nil || i < 0 || i >= len(r.provs) {
			return errors.New("bad-op")
		}
		var pr provRes
		switch f[1] {
		case "E":
			pr.kind = 'E'
		case "U":
			pr.kind = 'U'
		case "-":
			pr.kind = 'L'
		default:
			pr.kind = 'L'
			for _, s := range strings.Split(f[1], ",") {
				kt, ok := parseEpTok(s)
				if !ok {
					return errors.New("bad-op")
				}
				pr.eps = append(pr.eps, kt)
			}
		}
		r.mu.Lock()
		r.provs[i] = pr
		r.mu.Unlock()
	case strings.HasPrefix(t, "H"):
		f := strings.SplitN(t[1:], "=", 2)
		if len(f) != 2 || len(f[1]) != 1 || !strings.Contains("OEU", f[1]) {
			return errors.New("bad-op")
		}
		k, err := strconv.Atoi(f[0])
		if err != nil || k < 0 {
			return errors.New("bad-op")
		}
		r.mu.Lock()
		r.health[k] = f[1][0]
		r.mu.Unlock()
	default:
		return errors.New("bad-op")
	}
	return nil
}

var mgrTimeouts int

// runMgrScript executes one case line on a fresh real Manager.
func runMgrScript(line string) string {
	f := strings.Split(line, " ")
	if len(f) < 6 || f[0] != "mgr" || f[1][0] != 'T' || f[2][0] != 'M' || f[3][0] != 'I' || f[4][0] != 'G' || f[5][0] != 'N' {
		return "bad-op"
	}
	thr, e1 := strconv.Atoi(f[1][1:])
	minTest, e2 := strconv.Atoi(f[2][1:])
	nprov, e3 := strconv.Atoi(f[5][1:])
	if e1 != nil || e2 != nil || e3 != nil || nprov < 1 || nprov > 8 || thr < 0 || minTest < 0 {
		return "bad-op"
	}
	var init *[2]int
	if f[3] != "I-" {
		kt, ok := parseEpTok(f[3][1:])
		if !ok {
			return "bad-op"
		}
		init = &kt
	}
	getMin := map[int]int{}
	if f[4] != "G-" {
		for _, kv := range strings.Split(f[4][1:], ",") {
			p := strings.Split(kv, ":")
			if len(p) != 2 {
				return "bad-op"
			}
			k, e1 := strconv.Atoi(p[0])
			v, e2 := strconv.Atoi(p[1])
			if e1 != nil || e2 != nil || k < 0 || v < 0 {
				return "bad-op"
			}
			if _, dup := getMin[k]; !dup { // first binding wins (List.lookup)
				getMin[k] = v
			}
		}
	}
	r := newMgrRun(thr, minTest, init, getMin, nprov, true)
	if mgrTimeouts >= 10 {
		r.deadline = 300 * time.Millisecond
	}
	finish := func(tail string) string {
		// cleanup: let every parked goroutine go
		for _, d := range r.inflight {
			select {
			case d.result <- nil:
			default:
			}
		}
		for _, ch := range r.parked {
			close(ch)
		}
		r.parked = nil
		if tail != "" {
			r.out = append(r.out, tail)
		}
		return strings.Join(r.out, " ")
	}
	for _, t := range f[6:] {
		if err := r.op(t); err != nil {
			if err == errMgrTimeout {
				mgrTimeouts++
				return finish("TIMEOUT")
			}
			return "bad-op"
		}
	}
	if err := r.drain(); err != nil {
		mgrTimeouts++
		return finish("TIMEOUT")
	}
	// an election goroutine nobody accounted for (two started for one object)?
	for i := 0; i < 3; i++ {
		select {
		case ch := <-r.gateHit:
			close(ch)
			return finish("end:stray-election")
		default:
			time.Sleep(20 * time.Microsecond)
		}
	}
	if endpoint.VerifTryLock(r.m) {
		return finish("end:free")
	}
	return finish("end:held")
}

// ---------------------------------------------------------------- child process pool

type mgrChild struct {
	cmd    *exec.Cmd
	in     io.WriteCloser
	out    *bufio.Reader
	stderr *bytes.Buffer
}

func startMgrChild(dir string) (*mgrChild, error) {
	cmd := exec.Command(os.Args[0], "mgr", "-out", dir)
	cmd.Env = append(os.Environ(), "NVH_MGR_CHILD=1")
	in, err := cmd.StdinPipe()
	if err != nil {
		return nil, err
	}
	out, err := cmd.StdoutPipe()
	if err != nil {
		return nil, err
	}
	eb := &bytes.Buffer{}
	cmd.Stderr = eb
	if err := cmd.Start(); err != nil {
		return nil, err
	}
	return &mgrChild{cmd: cmd, in: in, out: bufio.NewReaderSize(out, 1<<20), stderr: eb}, nil
}

func canonPanic(stderr string) string {
	for _, l := range strings.Split(stderr, "\n") {
		if strings.HasPrefix(l, "panic:") || strings.HasPrefix(l, "fatal error:") {
			l = strings.ReplaceAll(l, " ", "_")
			if i := strings.Index(l, "[recovered]"); i > 0 {
				l = l[:i]
			}
			return "PANIC " + l
		}
	}
	return "PANIC child-died"
}

func mgrChildMain() error {
	in := bufio.NewReaderSize(os.Stdin, 1<<20)
	out := bufio.NewWriter(os.Stdout)
	for {
		line, err := in.ReadString('\n')
		if line = strings.TrimRight(line, "\n"); line != "" {
			var res string
			if strings.HasPrefix(line, "mgrc ") {
				res = runMgrSoak(line)
			} else {
				res = runMgrScript(line)
			}
			fmt.Fprintln(out, res)
			out.Flush()
		}
		if err != nil {
			return nil
		}
	}
}

// runIsolated runs every line in a child process, restarting it when it dies.
func runIsolated(c *Ctx, lines []string, each func(line, res string)) error {
	var ch *mgrChild
	var err error
	for _, line := range lines {
		if ch == nil {
			if ch, err = startMgrChild(c.dir + "/child"); err != nil {
				return err
			}
		}
		res := ""
		if _, werr := io.WriteString(ch.in, line+"\n"); werr == nil {
			res, _ = ch.out.ReadString('\n')
		}
		if !strings.HasSuffix(res, "\n") {
			ch.in.Close()
			_ = ch.cmd.Wait()
			res = canonPanic(ch.stderr.String())
			ch = nil
		}
		res = strings.TrimRight(res, "\n")
		c.Emit(line, res)
		each(line, res)
	}
	if ch != nil {
		ch.in.Close()
		_ = ch.cmd.Wait()
	}
	return nil
}

// ---------------------------------------------------------------- generator

func genEp(r *Rng) string { return fmt.Sprintf("%d.%d", 1+r.Intn(5), r.Intn(2)) }

func genProvSpec(r *Rng) string {
	switch x := r.Intn(100); {
	case x < 10:
		return "E"
	case x < 16:
		return "U"
	case x < 26:
		return "-"
	}
	n := 1 + r.Intn(3)
	s := make([]string, n)
	for i := range s {
		s[i] = genEp(r)
	}
	return strings.Join(s, ",")
}

func genMgrCase(r *Rng) string {
	var t []string
	t = append(t, "mgr", "T"+strconv.Itoa(r.Pick([]int{0, 1, 1, 2, 2, 3})), "M"+strconv.Itoa(r.Pick([]int{0, 0, 30, 100})))
	if r.Chance(45) {
		t = append(t, "I"+fmt.Sprintf("%d.%d", 1+r.Intn(6), 9))
	} else {
		t = append(t, "I-")
	}
	var g []string
	for k := 1; k <= 6; k++ {
		if r.Chance(35) {
			g = append(g, fmt.Sprintf("%d:%d", k, r.Pick([]int{5, 5, 20, 0})))
		}
	}
	if len(g) == 0 {
		t = append(t, "G-")
	} else {
		t = append(t, "G"+strings.Join(g, ","))
	}
	np := 1 + r.Intn(3)
	t = append(t, "N"+strconv.Itoa(np))
	for i := 0; i < np; i++ {
		if r.Chance(90) {
			t = append(t, fmt.Sprintf("P%d=%s", i, genProvSpec(r)))
		}
	}
	for k := 1; k <= 5; k++ {
		switch x := r.Intn(100); {
		case x < 30:
			t = append(t, fmt.Sprintf("H%d=E", k))
		case x < 35:
			t = append(t, fmt.Sprintf("H%d=U", k))
		}
	}
	n := 5 + r.Intn(24)
	for i := 0; i < n; i++ {
		switch x := r.Intn(100); {
		case x < 30:
			t = append(t, "S")
		case x < 56:
			res := "e"
			if r.Chance(35) {
				res = "o"
			}
			t = append(t, fmt.Sprintf("F%d%s", r.Intn(4), res))
		case x < 68:
			t = append(t, "A"+strconv.Itoa(r.Pick([]int{1, 4, 5, 6, 9, 10, 11, 19, 20, 21, 29, 30, 31, 100, 101, 7199, 7200, 7201})))
		case x < 76:
			t = append(t, "R")
		case x < 80:
			t = append(t, "X")
		case x < 91:
			t = append(t, fmt.Sprintf("H%d=%c", 1+r.Intn(5), "OOEEEU"[r.Intn(6)]))
		default:
			t = append(t, fmt.Sprintf("P%d=%s", r.Intn(np), genProvSpec(r)))
		}
	}
	return strings.Join(t, " ")
}

// started elections that are pending at the same time / a Do that starts while one is pending
func mgrInterleaveStats(c *Ctx, res string) {
	pending, maxp := 0, 0
	testing := map[string]bool{}
	for _, t := range strings.Split(res, " ") {
		if strings.HasPrefix(t, "R[") && t != "R[none]" {
			pending--
		}
		if strings.HasPrefix(t, "S[") && pending > 0 {
			c.Stat("interleave:do-start-while-election-pending")
		}
		if strings.HasPrefix(t, "F[") && t != "F[skip]" && pending > 0 {
			c.Stat("interleave:do-finish-while-election-pending")
		}
		// digests: #id:ep:lastTest:interval:testing:errs after '@' and '~'
		for _, part := range strings.FieldsFunc(t, func(r rune) bool { return r == '@' || r == '~' }) {
			f := strings.Split(part, ":")
			if len(f) != 6 || !strings.HasPrefix(f[0], "#") {
				continue
			}
			now := f[4] == "1"
			if now && !testing[f[0]] {
				pending++
			}
			testing[f[0]] = now
		}
		if pending > maxp {
			maxp = pending
		}
	}
	if maxp >= 2 {
		c.Stat("interleave:two-or-more-elections-pending")
	}
}

func mgrStats(c *Ctx, line, res string) {
	mgrInterleaveStats(c, res)
	if strings.Contains(line, " I- ") {
		c.Stat("cfg:bootstrap")
	} else {
		c.Stat("cfg:init-endpoint")
	}
	for _, k := range []struct{ sub, name string }{
		{"oc", "ev:onChange"}, {"oe", "ev:onError"}, {"pe", "ev:providerError"}, {"=U", "ev:probe-unreachable"},
		{":10:", "ev:short-interval"}, {"r0]", "ev:test-or-do-error"}, {"R[g", "ev:background-election"},
		{"X[", "ev:forced-test"}, {":1:", "ev:testing-flag-seen"}, {"TIMEOUT", "out:TIMEOUT"}, {"PANIC", "out:PANIC"},
		{"end:held", "out:lock-held"}, {"end:stray", "out:stray-election"},
	} {
		if strings.Contains(res, k.sub) {
			c.Stat(k.name)
		}
	}
}

func init() {
	areas["mgr"] = func(c *Ctx) error {
		if os.Getenv("NVH_MGR_CHILD") == "1" {
			return mgrChildMain()
		}
		lines := replayLines()
		if lines == nil {
			r := NewRng(c.seed)
			for i := 0; i < c.n; i++ {
				lines = append(lines, genMgrCase(r))
			}
		} else {
			var keep []string
			for _, l := range lines {
				if strings.HasPrefix(l, "mgr ") {
					keep = append(keep, l)
				}
			}
			lines = keep
		}
		return runIsolated(c, lines, func(line, res string) { mgrStats(c, line, res) })
	}
}

// ---------------------------------------------------------------- concurrent soak (mgrc)
//
// case: mgrc <seed> <providers> <workers> <iters> <init 0|1>
// Elections are NOT gated: workers call Do concurrently while a flipper changes endpoint health,
// provider results and the clock.  Observed: every Do returns, each action runs exactly once on a
// non-nil endpoint that a provider offered (or the InitEndpoint), GetEndpoints calls never overlap
// (elections are serialised), and the manager quiesces with m.mu free.

func runMgrSoak(line string) string {
	f := strings.Split(line, " ")
	if len(f) != 6 {
		return "bad-op"
	}
	var v [5]int
	for i := range v {
		x, err := strconv.Atoi(f[1+i])
		if err != nil || x < 0 {
			return "bad-op"
		}
		v[i] = x
	}
	seed, nprov, workers, iters, withInit := uint64(v[0]), v[1], v[2], v[3], v[4] == 1
	if nprov < 1 || nprov > 4 || workers < 1 || workers > 64 || iters < 1 || iters > 100000 {
		return "bad-op"
	}
	var init *[2]int
	if withInit {
		init = &[2]int{6, 9}
	}
	r := newMgrRun(2, 0, init, map[int]int{1: 5, 3: 20}, nprov, false)
	rng := NewRng(seed)
	setup := func() {
		r.mu.Lock()
		for i := 0; i < nprov; i++ {
			var pr provRes
			switch x := rng.Intn(10); {
			case x == 0:
				pr.kind = 'E'
			case x == 1 && withInit:
				pr.kind = 'U'
			default:
				pr.kind = 'L'
				for n := rng.Intn(4); n > 0; n-- {
					pr.eps = append(pr.eps, [2]int{1 + rng.Intn(5), rng.Intn(2)})
				}
			}
			r.provs[i] = pr
		}
		for k := 1; k <= 5; k++ {
			r.health[k] = "OOEEU"[rng.Intn(5)]
			if !withInit && r.health[k] == 'U' {
				r.health[k] = 'E'
			}
		}
		r.mu.Unlock()
	}
	setup()
	stop := make(chan struct{})
	var flips sync.WaitGroup
	flips.Add(1)
	go func() {
		defer flips.Done()
		for {
			select {
			case <-stop:
				return
			default:
			}
			setup()
			atomic.AddInt64(&r.clock, int64(rng.Pick([]int{0, 1, 6, 11, 21, 7201})))
			time.Sleep(time.Duration(20+rng.Intn(200)) * time.Microsecond)
		}
	}()
	var badOnce, badOffered int32
	var wg sync.WaitGroup
	for w := 0; w < workers; w++ {
		wg.Add(1)
		wr := NewRng(seed*1000 + uint64(w) + 1)
		go func() {
			defer wg.Done()
			for i := 0; i < iters; i++ {
				calls := 0
				actErr := errors.New("query failed")
				fail := wr.Chance(60)
				err := r.m.Do(context.Background(), func(e endpoint.Endpoint) error {
					calls++
					g, ok := e.(*mgrEp)
					if !ok || g == nil || g.key < 1 || g.key > 6 {
						atomic.StoreInt32(&badOffered, 1)
					}
					if wr.Chance(10) {
						time.Sleep(time.Duration(wr.Intn(50)) * time.Microsecond)
					}
					if fail {
						return actErr
					}
					return nil
				})
				if calls > 1 || (calls == 0 && (err == nil || err == actErr)) || (calls == 1 && fail != (err == actErr)) {
					atomic.StoreInt32(&badOnce, 1)
				}
			}
		}()
	}
	done := make(chan struct{})
	go func() { wg.Wait(); close(done) }()
	returned := "all"
	select {
	case <-done:
	case <-time.After(10 * time.Second):
		returned = "blocked"
	}
	close(stop)
	flips.Wait()
	quiesce := 0
	t0 := time.Now()
	for time.Since(t0) < 2*time.Second {
		if !endpoint.VerifTryLock(r.m) {
			time.Sleep(200 * time.Microsecond)
			continue
		}
		ae := endpoint.VerifActive(r.m)
		if (ae == nil || !ae.VerifTesting()) && endpoint.VerifTryLock(r.m) && atomic.LoadInt32(&r.inElection) == 0 {
			quiesce = 1
			break
		}
		time.Sleep(200 * time.Microsecond)
	}
	// "held" means STUCK: a late election goroutine of an abandoned endpoint object may take m.mu for a moment after the
	// manager was seen quiet (thorough sweep, seed 41, under load: one sample of TryLock hit such a moment - a false alarm
	// of this harness), so the lock is given a second to be seen free
	lock := "held"
	for t1 := time.Now(); time.Since(t1) < time.Second; time.Sleep(500 * time.Microsecond) {
		if endpoint.VerifTryLock(r.m) {
			lock = "free"
			break
		}
	}
	return fmt.Sprintf("returned=%s once=%d offered=%d overlap=%d quiesce=%d lock=%s", returned, 1-badOnce, 1-badOffered, atomic.LoadInt32(&r.overlap), quiesce, lock)
}

func init() {
	areas["mgrc"] = func(c *Ctx) error {
		if os.Getenv("NVH_MGR_CHILD") == "1" {
			return mgrChildMain()
		}
		lines := replayLines()
		if lines == nil {
			r := NewRng(c.seed)
			for i := 0; i < c.n; i++ {
				lines = append(lines, fmt.Sprintf("mgrc %d %d %d %d %d", r.Intn(1000000), 1+r.Intn(3), 2+r.Intn(7), 50+r.Intn(150), r.Intn(2)))
			}
		}
		return runIsolated(c, lines, func(line, res string) {
			c.Stat("init:" + line[len(line)-1:])
			if res != "returned=all once=1 offered=1 overlap=0 quiesce=1 lock=free" {
				c.Stat("out:anomaly")
			}
		})
	}
}
