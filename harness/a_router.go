package main

// C20 areas.
//
//   tmpl    the real internal.WriteTemplate (text/template) against the Lean mini-interpreter on
//           generated templates of the subset the repository uses plus known-malformed ones.
//   router  the REAL New/Configure/Setup/Restore of every firmware package and router.New(), run
//           in-process inside a chroot jail.  The jail holds a copy of this binary under the names
//           of the router tools (uci, nvram, service, /etc/init.d/dnsmasq, sudo, stopservice,
//           startservice, /etc/rc.network, kill, systemctl, ubus, uname, ubnt-device-info): invoked
//           under such a name it acts as that tool on stores kept in /.nv inside the jail
//           (argv[0] dispatch in init()).  Nothing outside the jail directory is ever written:
//           the child process chroots before it touches anything and aborts when that fails.
//
// Line formats: see lean/NV/Driver/Router.lean.

import (
	"bufio"
	"bytes"
	"fmt"
	"io"
	"net"
	"os"
	"os/exec"
	"path/filepath"
	"sort"
	"strings"
	"syscall"
	"time"

	"github.com/nextdns/nextdns/config"
	"github.com/nextdns/nextdns/router"
	"github.com/nextdns/nextdns/router/ddwrt"
	"github.com/nextdns/nextdns/router/edgeos"
	"github.com/nextdns/nextdns/router/firewalla"
	"github.com/nextdns/nextdns/router/generic"
	"github.com/nextdns/nextdns/router/merlin"
	"github.com/nextdns/nextdns/router/openwrt"
	"github.com/nextdns/nextdns/router/synology"
	"github.com/nextdns/nextdns/router/ubios"
)

func init() {
	areas["tmpl"] = areaTmpl
	areas["router"] = areaRouter
	base := filepath.Base(os.Args[0])
	if shimNames[base] {
		os.Exit(shimMain(os.Args))
	}
	if len(os.Args) >= 3 && os.Args[1] == "__c20jail" {
		os.Exit(jailChild(os.Args[2]))
	}
}

// ---------------------------------------------------------------------------------------------
// shim (runs inside the jail, as a separate process started by the real code through os/exec)

var shimNames = map[string]bool{"uci": true, "nvram": true, "service": true, "dnsmasq": true, "sudo": true,
	"stopservice": true, "startservice": true, "rc.network": true, "kill": true, "killall": true, "systemctl": true,
	"ubus": true, "uname": true, "ubnt-device-info": true, "pidof": true}

const nvDir = "/.nv"

type kvs struct {
	k string
	v []string
}

func readUci(name string) []kvs {
	b, _ := os.ReadFile(nvDir + "/" + name)
	var out []kvs
	for _, l := range strings.Split(string(b), "\n") {
		if l == "" {
			continue
		}
		i := strings.IndexByte(l, '\t')
		var vs []string
		for _, h := range strings.Split(l[i+1:], ",") {
			vs = append(vs, string(unhx(h)))
		}
		out = append(out, kvs{l[:i], vs})
	}
	return out
}

func writeUci(name string, st []kvs) {
	var b strings.Builder
	for _, e := range st {
		hs := make([]string, len(e.v))
		for i, v := range e.v {
			hs[i] = hx([]byte(v))
		}
		fmt.Fprintf(&b, "%s\t%s\n", e.k, strings.Join(hs, ","))
	}
	must(os.WriteFile(nvDir+"/"+name, []byte(b.String()), 0644))
}

func readNv(name string) []kvs {
	b, _ := os.ReadFile(nvDir + "/" + name)
	var out []kvs
	for _, l := range strings.Split(string(b), "\n") {
		if l == "" {
			continue
		}
		f := strings.Split(l, " ")
		out = append(out, kvs{string(unhx(f[0])), []string{string(unhx(f[1]))}})
	}
	return out
}

func writeNv(name string, st []kvs) {
	var b strings.Builder
	for _, e := range st {
		fmt.Fprintf(&b, "%s %s\n", hx([]byte(e.k)), hx([]byte(e.v[0])))
	}
	must(os.WriteFile(nvDir+"/"+name, []byte(b.String()), 0644))
}

func must(err error) {
	if err != nil {
		fmt.Fprintln(os.Stderr, "shim:", err)
		os.Exit(99)
	}
}

func kvGet(st []kvs, k string) ([]string, bool) {
	for _, e := range st {
		if e.k == k {
			return e.v, true
		}
	}
	return nil, false
}

func kvSet(st []kvs, k string, v []string) []kvs {
	for i, e := range st {
		if e.k == k {
			st[i].v = v
			return st
		}
	}
	return append(st, kvs{k, v})
}

func kvDel(st []kvs, k string) []kvs {
	var out []kvs
	for _, e := range st {
		if e.k != k {
			out = append(out, e)
		}
	}
	return out
}

// skipTop: top-level entries of the jail that are not router state
var skipTop = map[string]bool{"bin": true, "dev": true, "lib": true, "lib64": true, "usr": true, ".nv": true, ".nvjail-marker": true}

func dumpFiles() []string {
	var out []string
	type fe struct{ p, c string }
	var fs []fe
	_ = filepath.Walk("/", func(p string, info os.FileInfo, err error) error {
		if err != nil {
			return nil
		}
		if p == "/" {
			return nil
		}
		top := strings.SplitN(p[1:], "/", 2)[0]
		if skipTop[top] {
			if info.IsDir() {
				return filepath.SkipDir
			}
			return nil
		}
		if info.Mode().IsRegular() {
			b, _ := os.ReadFile(p)
			fs = append(fs, fe{p, string(b)})
		}
		return nil
	})
	sort.Slice(fs, func(i, j int) bool { return fs[i].p < fs[j].p })
	for _, f := range fs {
		out = append(out, "F:"+f.p+"="+hx([]byte(f.c)))
	}
	return out
}

func dumpUci(tag string, st []kvs) []string {
	var out []string
	for _, e := range st {
		hs := make([]string, len(e.v))
		for i, v := range e.v {
			hs[i] = hx([]byte(v))
		}
		out = append(out, tag+":"+e.k+"="+strings.Join(hs, ","))
	}
	return out
}

func dumpNv(tag string, st []kvs) []string {
	var out []string
	for _, e := range st {
		out = append(out, tag+":"+hx([]byte(e.k))+"="+hx([]byte(e.v[0])))
	}
	return out
}

// canonSnap: what dnsmasq reads when it (re)starts: visible files, committed uci, live nvram
func canonSnap() string {
	parts := dumpFiles()
	parts = append(parts, dumpUci("U", readUci("uci.committed"))...)
	parts = append(parts, dumpNv("N", readNv("nvram.live"))...)
	return strings.Join(parts, " ")
}

func shimRestart() {
	n := 0
	if b, err := os.ReadFile(nvDir + "/restarts"); err == nil {
		fmt.Sscan(string(b), &n)
	}
	must(os.WriteFile(nvDir+"/restarts", []byte(fmt.Sprint(n+1)), 0644))
	must(os.WriteFile(nvDir+"/view", []byte("S "+canonSnap()), 0644))
}

func eqArgv(a []string, b ...string) bool {
	if len(a) != len(b) {
		return false
	}
	for i := range a {
		if a[i] != b[i] {
			return false
		}
	}
	return true
}

// shimFault: fault injection for the service commands. /.nv/failat holds a count k (armed by the
// harness just before one Setup/Configure call): the k-th service command from now exits 1 without
// any effect, once (mirrors NV.Router.faultConsts).
func shimFault() bool {
	b, err := os.ReadFile(nvDir + "/failat")
	if err != nil {
		return false
	}
	k := 0
	fmt.Sscan(string(b), &k)
	if k <= 1 {
		os.Remove(nvDir + "/failat")
		return k == 1
	}
	must(os.WriteFile(nvDir+"/failat", []byte(fmt.Sprint(k-1)), 0644))
	return false
}

// svcCmds: number of service commands in the restart sequence of each firmware (what
// NV.Gen.Router.<fw>.cmds holds); a fault position beyond it is not armed.
var svcCmds = map[string]int{"openwrt": 1, "merlin": 1, "ddwrt": 2, "edgeos": 1, "synology": 1, "firewalla": 1}

func armFault(fw string, k int) {
	if k >= 1 && k <= svcCmds[fw] {
		must(os.WriteFile(nvDir+"/failat", []byte(fmt.Sprint(k)), 0644))
	}
}

// shimExecBase mirrors NV.Router.execBase.
func shimExecBase(argv []string) int {
	if shimFault() {
		fmt.Fprintln(os.Stderr, "shim: injected failure of", argv)
		return 1
	}
	switch {
	case eqArgv(argv, "/etc/init.d/dnsmasq", "restart"), eqArgv(argv, "service", "restart_dnsmasq"),
		eqArgv(argv, "startservice", "dnsmasq"), eqArgv(argv, "/etc/rc.network", "nat-restart-dhcp"),
		eqArgv(argv, "systemctl", "restart", "firerouter_dns.service"):
		shimRestart()
		return 0
	case eqArgv(argv, "stopservice", "dnsmasq"):
		must(os.WriteFile(nvDir+"/view", []byte("none"), 0644))
		return 0
	case len(argv) == 2 && argv[0] == "kill":
		b, err := os.ReadFile("/run/dnsmasq.pid")
		if err == nil && argv[1] != "" && string(bytes.TrimSpace(b)) == argv[1] {
			shimRestart()
			return 0
		}
		fmt.Fprintln(os.Stderr, "kill: no such process")
		return 1
	}
	fmt.Fprintln(os.Stderr, "shim: unsupported command", argv)
	return 1
}

func shimMain(argv []string) int {
	switch filepath.Base(argv[0]) {
	case "uci":
		return shimUci(argv[1:])
	case "nvram":
		return shimNvram(argv[1:])
	case "sudo":
		if len(argv) < 2 {
			return 1
		}
		return shimExecBase(argv[1:])
	case "uname":
		if eqArgv(argv[1:], "-o") {
			if b, err := os.ReadFile(nvDir + "/uname-o"); err == nil {
				os.Stdout.Write(b)
			} else {
				fmt.Println("GNU/Linux")
			}
			return 0
		}
		if eqArgv(argv[1:], "-u") {
			if b, err := os.ReadFile(nvDir + "/uname-u"); err == nil {
				os.Stdout.Write(b)
				return 0
			}
		}
		fmt.Fprintln(os.Stderr, "uname: invalid option")
		return 1
	case "ubus":
		if eqArgv(argv[1:], "call", "service", "list") {
			if b, err := os.ReadFile(nvDir + "/ubusdir"); err == nil {
				fmt.Printf(`{"dnsmasq":{"instances":{"cfg01411c":{"running":true,"mount":{"/etc/passwd":"0",%q:"1","/var/run/dnsmasq/":"1"}}}},"log":{"instances":{"instance1":{"running":true}}}}`+"\n", string(b))
				return 0
			}
		}
		return 1
	case "ubnt-device-info":
		if _, err := os.Stat(nvDir + "/ubnt"); err == nil {
			fmt.Println("1.0.0")
			return 0
		}
		return 1
	case "killall", "pidof":
		return 1
	}
	return shimExecBase(argv)
}

func shimUci(a []string) int {
	notFound := func() int {
		fmt.Fprintln(os.Stderr, "uci: Entry not found")
		return 1
	}
	st := readUci("uci.staged")
	switch {
	case len(a) == 2 && a[0] == "get":
		v, ok := kvGet(st, a[1])
		if !ok {
			return notFound()
		}
		fmt.Println(strings.Join(v, " "))
		return 0
	case len(a) == 2 && a[0] == "delete":
		if _, ok := kvGet(st, a[1]); !ok {
			return notFound()
		}
		writeUci("uci.staged", kvDel(st, a[1]))
		return 0
	case len(a) == 2 && (a[0] == "add_list" || a[0] == "del_list"):
		i := strings.IndexByte(a[1], '=')
		if i < 0 {
			fmt.Fprintln(os.Stderr, "uci: Invalid argument")
			return 1
		}
		k, v := a[1][:i], a[1][i+1:]
		cur, ok := kvGet(st, k)
		if a[0] == "add_list" {
			writeUci("uci.staged", kvSet(st, k, append(append([]string{}, cur...), v)))
			return 0
		}
		if !ok {
			return 0
		}
		var nv []string
		for _, x := range cur {
			if x != v {
				nv = append(nv, x)
			}
		}
		if len(nv) == 0 {
			writeUci("uci.staged", kvDel(st, k))
		} else {
			writeUci("uci.staged", kvSet(st, k, nv))
		}
		return 0
	case len(a) >= 1 && a[0] == "commit":
		writeUci("uci.committed", st)
		return 0
	}
	fmt.Fprintln(os.Stderr, "uci: unsupported", a)
	return 1
}

func shimNvram(a []string) int {
	st := readNv("nvram.live")
	setArg := func(arg string) bool {
		i := strings.IndexByte(arg, '=')
		if i < 0 {
			return false
		}
		writeNv("nvram.live", kvSet(st, arg[:i], []string{arg[i+1:]}))
		return true
	}
	switch {
	case len(a) == 1 && a[0] == "show":
		for _, e := range st {
			fmt.Printf("%s=%s\n", e.k, e.v[0])
		}
		fmt.Fprintln(os.Stderr, "size: 31337 bytes (34199 left)")
		return 0
	case len(a) == 2 && a[0] == "get":
		if v, ok := kvGet(st, a[1]); ok {
			fmt.Println(v[0])
		}
		return 0
	case len(a) == 2 && a[0] == "set":
		if !setArg(a[1]) {
			fmt.Fprintln(os.Stderr, "usage: nvram set name=value")
			return 1
		}
		return 0
	case len(a) == 2 && a[0] == "unset":
		// Broadcom driver: the written string is split at '='; with a '=' it is a set
		if !setArg(a[1]) {
			writeNv("nvram.live", kvDel(st, a[1]))
		}
		return 0
	case len(a) == 1 && a[0] == "commit":
		writeNv("nvram.committed", st)
		return 0
	}
	fmt.Fprintln(os.Stderr, "nvram: unsupported", a)
	return 1
}

// ---------------------------------------------------------------------------------------------
// jail child: chroot, then run case lines from stdin through the real code

type routerI interface {
	Configure(c *config.Config) error
	Setup() error
	Restore() error
}

var stdDirs = []string{"/tmp/dnsmasq.d", "/jffs/scripts", "/etc/dnsmasq.d", "/etc/dhcpd", "/etc/init.d", "/run/dnsmasq.conf.d",
	"/home/pi/.firewalla/config/dnsmasq_local", nvDir}

var binShims = []string{"uci", "nvram", "service", "sudo", "stopservice", "startservice", "kill", "killall", "systemctl",
	"ubus", "uname", "ubnt-device-info", "pidof"}

func jailReset() error {
	ents, err := os.ReadDir("/")
	if err != nil {
		return err
	}
	for _, e := range ents {
		if e.Name() == ".nv" || !skipTop[e.Name()] {
			if err := os.RemoveAll("/" + e.Name()); err != nil {
				return err
			}
		}
	}
	for _, d := range stdDirs {
		if err := os.MkdirAll(d, 0755); err != nil {
			return err
		}
	}
	if err := os.Symlink("/bin/nvh", "/etc/init.d/dnsmasq"); err != nil {
		return err
	}
	if err := os.Symlink("/bin/nvh", "/etc/rc.network"); err != nil {
		return err
	}
	return os.WriteFile("/dev/null", nil, 0666)
}

func okS(err error) string {
	if err == nil {
		return "ok"
	}
	return "err"
}

func dumpSys() string {
	restarts := "0"
	if b, err := os.ReadFile(nvDir + "/restarts"); err == nil {
		restarts = strings.TrimSpace(string(b))
	}
	view := "none"
	if b, err := os.ReadFile(nvDir + "/view"); err == nil && strings.HasPrefix(string(b), "S ") {
		if string(b) == "S "+canonSnap() {
			view = "sync"
		} else {
			view = "stale"
		}
	}
	parts := []string{"restarts=" + restarts, "view=" + view}
	parts = append(parts, dumpFiles()...)
	uc, us := readUci("uci.committed"), readUci("uci.staged")
	parts = append(parts, dumpUci("U", uc)...)
	if fmt.Sprint(uc) != fmt.Sprint(us) {
		parts = append(parts, "ustaged")
		parts = append(parts, dumpUci("u", us)...)
	}
	nl, nc := readNv("nvram.live"), readNv("nvram.committed")
	parts = append(parts, dumpNv("N", nl)...)
	if fmt.Sprint(nl) != fmt.Sprint(nc) {
		parts = append(parts, "nvcommitted")
		parts = append(parts, dumpNv("n", nc)...)
	}
	return strings.Join(parts, " ")
}

func runRouterCase(line string) (out string) {
	defer func() {
		if x := recover(); x != nil {
			out = fmt.Sprintf("PANIC %v", x)
		}
	}()
	f := strings.Split(line, " ")
	if len(f) < 7 || f[0] != "router" {
		return "bad-case"
	}
	fw, ops := f[1], f[2]
	if err := jailReset(); err != nil {
		return "JAIL-ERROR " + err.Error()
	}
	var uci, nv []kvs
	for _, t := range f[7:] {
		i := strings.IndexByte(t, '=')
		k, v := t[:i], t[i+1:]
		switch {
		case strings.HasPrefix(k, "F:"):
			p := k[2:]
			if !strings.HasPrefix(p, "/") || strings.Contains(p, "..") {
				return "bad-case"
			}
			if err := os.MkdirAll(filepath.Dir(p), 0755); err != nil {
				return "JAIL-ERROR " + err.Error()
			}
			if err := os.WriteFile(p, unhx(v), 0644); err != nil {
				return "JAIL-ERROR " + err.Error()
			}
			if p == nvDir+"/ubusdir" {
				_ = os.MkdirAll(string(unhx(v)), 0755)
			}
		case strings.HasPrefix(k, "U:"):
			var vs []string
			for _, h := range strings.Split(v, ",") {
				vs = append(vs, string(unhx(h)))
			}
			uci = append(uci, kvs{k[2:], vs})
		case strings.HasPrefix(k, "N:"):
			nv = append(nv, kvs{string(unhx(k[2:])), []string{string(unhx(v))}})
		case strings.HasPrefix(k, "B:"):
			// loopback port held (TCP and UDP) for the duration of the case
			if l, err := net.Listen("tcp", "127.0.0.1:"+k[2:]); err == nil {
				defer l.Close()
			}
			if u, err := net.ListenPacket("udp", "127.0.0.1:"+k[2:]); err == nil {
				defer u.Close()
			}
		default:
			return "bad-case"
		}
	}
	writeUci("uci.staged", uci)
	writeUci("uci.committed", uci)
	writeNv("nvram.live", nv)
	writeNv("nvram.committed", nv)
	must(os.WriteFile(nvDir+"/view", []byte("S "+canonSnap()), 0644))

	cfg := config.Config{Listens: []string{string(unhx(f[6]))}, CacheSize: string(unhx(f[4])), ReportClientInfo: f[3] == "1"}
	var r routerI
	var segs []string
	for _, op := range ops {
		var s string
		switch op {
		case 'N':
			r = nil
			var ok bool
			switch fw {
			case "openwrt":
				var x *openwrt.Router
				if x, ok = openwrt.New(); ok {
					r = x
				}
			case "merlin":
				var x *merlin.Router
				if x, ok = merlin.New(); ok {
					r = x
				}
			case "ddwrt":
				var x *ddwrt.Router
				if x, ok = ddwrt.New(); ok {
					r = x
				}
			case "edgeos":
				var x *edgeos.Router
				if x, ok = edgeos.New(); ok {
					r = x
				}
			case "synology":
				var x *synology.Router
				if x, ok = synology.New(); ok {
					r = x
				}
			case "ubios":
				var x *ubios.Router
				if x, ok = ubios.New(); ok {
					r = x
				}
			case "firewalla":
				var x *firewalla.Router
				if x, ok = firewalla.New(); ok {
					r = x
				}
			case "generic":
				r, ok = generic.New(), true
			default:
				return "bad-case"
			}
			if ok {
				s = "N:ok"
			} else {
				s = "N:no"
			}
		case 'D':
			s = "D:" + router.New().String()
		case 'C':
			if r == nil {
				s = "C:-"
			} else {
				err := r.Configure(&cfg)
				ls := make([]string, len(cfg.Listens))
				for i, l := range cfg.Listens {
					ls[i] = hx([]byte(l))
				}
				s = fmt.Sprintf("C:%s listens=%s cs=%s", okS(err), strings.Join(ls, ","), hx([]byte(cfg.CacheSize)))
			}
		case 'S':
			if r == nil {
				s = "S:-"
			} else {
				s = "S:" + okS(r.Setup())
			}
		case 'x', 'y':
			if r == nil {
				s = string(op) + ":-"
			} else {
				armFault(fw, int(op-'x')+1)
				s = string(op) + ":" + okS(r.Setup())
				os.Remove(nvDir + "/failat")
			}
		case 'v', 'w':
			if r == nil {
				s = string(op) + ":-"
			} else {
				armFault(fw, int(op-'v')+1)
				err := r.Configure(&cfg)
				os.Remove(nvDir + "/failat")
				ls := make([]string, len(cfg.Listens))
				for i, l := range cfg.Listens {
					ls[i] = hx([]byte(l))
				}
				s = fmt.Sprintf("%c:%s listens=%s cs=%s", op, okS(err), strings.Join(ls, ","), hx([]byte(cfg.CacheSize)))
			}
		case 'e':
			if fw == "synology" {
				const info = "/etc/dhcpd/dhcpd.info"
				b, _ := os.ReadFile(info)
				nc := "enable=\"yes\"\nif=\"lbr0\"\n"
				if bytes.HasPrefix(b, []byte("enable=\"yes\"")) {
					nc = "enable=\"no\"\n"
				}
				_ = os.MkdirAll("/etc/dhcpd", 0755)
				_ = os.WriteFile(info, []byte(nc), 0644)
				// SRM applies its own change: the running dnsmasq sees the files as they are now
				if _, err := os.Stat(nvDir + "/view"); err == nil {
					_ = os.WriteFile(nvDir+"/view", []byte("S "+canonSnap()), 0644)
				}
				s = "e:ok"
			} else {
				s = "e:-"
			}
		case 'R':
			if r == nil {
				s = "R:-"
			} else {
				s = "R:" + okS(r.Restore())
			}
		default:
			return "bad-case"
		}
		segs = append(segs, s+" "+dumpSys())
	}
	return strings.Join(segs, " | ")
}

func jailChild(root string) int {
	if _, err := os.Stat(filepath.Join(root, ".nvjail-marker")); err != nil {
		fmt.Fprintln(os.Stderr, "jail: not a prepared jail:", root)
		return 90
	}
	if err := syscall.Chroot(root); err != nil {
		fmt.Fprintln(os.Stderr, "jail: chroot failed:", err)
		return 91
	}
	if err := os.Chdir("/"); err != nil {
		return 92
	}
	if _, err := os.Stat("/.nvjail-marker"); err != nil {
		fmt.Fprintln(os.Stderr, "jail: marker not visible after chroot")
		return 93
	}
	os.Setenv("PATH", "/bin")
	in := bufio.NewReaderSize(os.Stdin, 1<<20)
	out := bufio.NewWriter(os.Stdout)
	defer out.Flush()
	for {
		line, err := in.ReadString('\n')
		line = strings.TrimRight(line, "\n")
		if line != "" {
			fmt.Fprintln(out, runRouterCase(line))
			out.Flush()
		}
		if err != nil {
			return 0
		}
	}
}

// ---------------------------------------------------------------------------------------------
// parent side

func copyFile(src, dst string, mode os.FileMode) error {
	if err := os.MkdirAll(filepath.Dir(dst), 0755); err != nil {
		return err
	}
	in, err := os.Open(src)
	if err != nil {
		return err
	}
	defer in.Close()
	out, err := os.OpenFile(dst, os.O_WRONLY|os.O_CREATE|os.O_TRUNC, mode)
	if err != nil {
		return err
	}
	defer out.Close()
	_, err = io.Copy(out, in)
	return err
}

// prepareJail builds the jail tree: /bin/nvh (this binary) with the tool names linked to it, the
// shared libraries it needs (when it is dynamically linked) at their absolute paths, /dev/null.
func prepareJail(root string) error {
	self, err := os.Executable()
	if err != nil {
		return err
	}
	if err := os.RemoveAll(root); err != nil {
		return err
	}
	if err := copyFile(self, filepath.Join(root, "bin/nvh"), 0755); err != nil {
		return err
	}
	for _, n := range binShims {
		if err := os.Symlink("/bin/nvh", filepath.Join(root, "bin", n)); err != nil {
			return err
		}
	}
	if out, err := exec.Command("ldd", self).Output(); err == nil {
		for _, l := range strings.Split(string(out), "\n") {
			for _, w := range strings.Fields(l) {
				if strings.HasPrefix(w, "/") {
					real, err := filepath.EvalSymlinks(w)
					if err != nil {
						continue
					}
					if err := copyFile(real, filepath.Join(root, w), 0755); err != nil {
						return err
					}
				}
			}
		}
	}
	if err := os.MkdirAll(filepath.Join(root, "dev"), 0755); err != nil {
		return err
	}
	return os.WriteFile(filepath.Join(root, ".nvjail-marker"), []byte("c20\n"), 0644)
}

// runInJail feeds the case lines to a chrooted child and returns one implementation line per case.
func runInJail(root string, cases []string) []string {
	res := make([]string, 0, len(cases))
	i := 0
	for i < len(cases) {
		cmd := exec.Command(os.Args[0], "__c20jail", root)
		cmd.Stderr = os.Stderr
		stdin, _ := cmd.StdinPipe()
		stdout, _ := cmd.StdoutPipe()
		if err := cmd.Start(); err != nil {
			for ; i < len(cases); i++ {
				res = append(res, "JAIL-ERROR "+err.Error())
			}
			break
		}
		rd := bufio.NewReaderSize(stdout, 1<<20)
		dead := false
		for i < len(cases) && !dead {
			if _, err := io.WriteString(stdin, cases[i]+"\n"); err != nil {
				dead = true
				break
			}
			ch := make(chan string, 1)
			go func() {
				l, err := rd.ReadString('\n')
				if err != nil {
					ch <- "CHILD-EXIT"
				} else {
					ch <- strings.TrimRight(l, "\n")
				}
			}()
			select {
			case l := <-ch:
				if l == "CHILD-EXIT" {
					res = append(res, "PANIC jail child exited")
					dead = true
				} else {
					res = append(res, l)
				}
			case <-time.After(20 * time.Second):
				res = append(res, "TIMEOUT")
				dead = true
			}
			i++
		}
		stdin.Close()
		if dead {
			_ = cmd.Process.Kill()
		}
		_ = cmd.Wait()
	}
	return res
}

// ---------------------------------------------------------------------------------------------
// generators

func hxs(s string) string { return hx([]byte(s)) }

type stateB struct {
	toks []string
	seen map[string]bool
}

func (b *stateB) file(p, c string) {
	if b.seen["F:"+p] {
		return
	}
	b.seen["F:"+p] = true
	b.toks = append(b.toks, "F:"+p+"="+hxs(c))
}
func (b *stateB) uci(k string, vs ...string) {
	if b.seen["U:"+k] || len(vs) == 0 {
		return
	}
	b.seen["U:"+k] = true
	hs := make([]string, len(vs))
	for i, v := range vs {
		hs[i] = hxs(v)
	}
	b.toks = append(b.toks, "U:"+k+"="+strings.Join(hs, ","))
}
func (b *stateB) nv(k, v string) {
	if b.seen["N:"+k] {
		return
	}
	b.seen["N:"+k] = true
	b.toks = append(b.toks, "N:"+hxs(k)+"="+hxs(v))
}

var firmwares = []string{"openwrt", "merlin", "ddwrt", "edgeos", "synology", "ubios", "firewalla", "generic"}

func pickS(r *Rng, xs ...string) string { return xs[r.Intn(len(xs))] }

func genToken(r *Rng) string {
	const al = "abcdefghijklmnopqrstuvwxyz0123456789.-_/#=,"
	n := 1 + r.Intn(12)
	b := make([]byte, n)
	for i := range b {
		b[i] = al[r.Intn(len(al))]
	}
	return string(b)
}

func genScript(r *Rng) string {
	lines := []string{"#!/bin/sh", "CONFIG=$1", ". /usr/sbin/helper.sh", "pc_append \"log-queries\" $CONFIG", "pc_replace \"cache-size=1500\" \"cache-size=9999\" $CONFIG",
		"", "# custom", "exit 0", "pc_append \"address=/foo/1.2.3.4\" $CONFIG"}
	n := 1 + r.Intn(5)
	var b strings.Builder
	for i := 0; i < n; i++ {
		b.WriteString(lines[r.Intn(len(lines))])
		b.WriteString("\n")
	}
	return b.String()
}

func genNvValue(r *Rng, c *Ctx, multiOK bool) string {
	switch k := r.Intn(10); {
	case k < 2:
		c.Stat("nvval:empty")
		return ""
	case k < 6 || !multiOK:
		c.Stat("nvval:single")
		return pickS(r, "0", "1", "cache-size=500", "interface=br0", genToken(r))
	case k < 9:
		c.Stat("nvval:multiline")
		v := pickS(r, "cache-size=500", "log-queries", "dhcp-option=6,10.0.0.1") + "\n" + pickS(r, "dnssec=1", "no-negcache", "server=/lan/10.0.0.1", "dns_crypt=1", genToken(r))
		if r.Chance(30) {
			v += "\n"
		}
		if r.Chance(20) {
			v = strings.ReplaceAll(v, "\n", "\r\n")
		}
		return v
	default:
		c.Stat("nvval:edge")
		return pickS(r, " lead", "trail ", "a=b=", "x=", "\nlead-nl", "tab\tin", "=")
	}
}

func plantMarkers(r *Rng, b *stateB, fw string) {
	switch fw {
	case "openwrt":
		b.file("/etc/os-release", "NAME=\"OpenWrt\"\nVERSION=\"23.05.2\"\nID=\"openwrt\"\nID_LIKE=\"lede openwrt\"\nPRETTY_NAME=\"OpenWrt 23.05.2\"\n")
	case "merlin":
		b.file(nvDir+"/uname-o", pickS(r, "ASUSWRT-Merlin\n", "ASUSWRT-Merlin-LTS\n"))
	case "ddwrt":
		b.file(nvDir+"/uname-o", "DD-WRT\n")
	case "edgeos":
		if r.Bool() {
			b.file("/config/scripts/post-config.d/.keep", "")
		} else {
			b.file("/etc/ubnt/init/vyatta-router", "#!/bin/sh\n")
		}
	case "synology":
		b.file(nvDir+"/uname-u", "synology_ipq806x_rt2600ac\n")
	case "ubios":
		if r.Chance(70) {
			b.file("/data/unifi/.keep", "")
		} else {
			b.file(nvDir+"/ubnt", "1")
		}
	case "firewalla":
		b.file("/etc/firewalla_release", "MODEL=gold\n")
	}
}

var ddNames = []string{"dns_dnsmasq", "dnsmasq_options", "dns_crypt", "dnssec", "dnsmasq_no_dns_rebind", "dnsmasq_add_mac"}

func genRouterCase(r *Rng, c *Ctx) string {
	fw := firmwares[r.Intn(len(firmwares))]
	if fw == "generic" && r.Chance(60) {
		fw = firmwares[r.Intn(7)]
	}
	b := &stateB{seen: map[string]bool{}}
	var ops string
	switch k := r.Intn(100); {
	case k < 38:
		ops = "NCSR"
	case k < 58:
		ops = "NCSNCSR"
	case k < 64:
		ops = "NCSRNCSR"
	case k < 70:
		ops = "DNCSR"
	case k < 76:
		ops = "D"
	case k < 79:
		ops = "NCSRR"
	case k < 82:
		ops = "NCR"
	case k < 84:
		ops = "NCSNCSNCSR"
	case k < 90:
		// a service command fails once during start; the daemon keeps running and is stopped later
		ops = pickS(r, "NCxR", "NCyR", "NvSR", "NwSR", "NCxRNCSR", "NCyNCSR")
		if r.Chance(70) {
			fw = pickS(r, "ddwrt", "ddwrt", "openwrt", "merlin", "edgeos", "synology", "firewalla")
		}
	default:
		n := 1 + r.Intn(7)
		ops = "N"
		for i := 0; i < n; i++ {
			ops += string("NCSRCSR"[r.Intn(7)])
		}
	}
	if r.Chance(6) {
		// the environment changes under the running daemon (between the start and the stop): SRM's DHCP server is toggled
		fw = "synology"
		ops = pickS(r, "NCSeR", "NCSeR", "NCSeRNCSR", "NCSeeR", "NCeSR")
	}
	c.Stat("fw:" + fw)
	switch {
	case strings.Contains(ops, "e"):
		c.Stat("ops:environment-change")
	case ops == "NCSR", ops == "NCSNCSR", ops == "NCSRNCSR", ops == "D":
		c.Stat("ops:" + ops)
	case strings.ContainsAny(ops, "xyvw"):
		c.Stat("ops:service-command-fault")
	case strings.Contains(ops, "D"):
		c.Stat("ops:detect+cycle")
	default:
		c.Stat("ops:other")
	}
	rep := r.Intn(2)
	cs := pickS(r, "", "0", "0", "10MB", "10MB", "1", "0KB", "abc", "1,000", "0.4", "5mb")
	n, _ := config.ParseBytes(cs)
	on := 0
	if n > 0 {
		on = 1
		c.Stat("cache:on")
	} else {
		c.Stat("cache:off")
	}
	c.Stat(fmt.Sprintf("report:%d", rep))
	if ops == "D" {
		// detection: markers of 0, 1 or 2 firmwares
		k := r.Intn(10)
		switch {
		case k == 0:
			c.Stat("detect:none")
		case k < 8:
			plantMarkers(r, b, fw)
			c.Stat("detect:one")
		default:
			plantMarkers(r, b, fw)
			plantMarkers(r, b, firmwares[r.Intn(7)])
			c.Stat("detect:two")
		}
	} else if r.Chance(96) {
		plantMarkers(r, b, fw)
	} else {
		c.Stat("markers:absent")
	}
	switch fw {
	case "openwrt":
		ip := pickS(r, "192.168.1.1", "10.0.0.1", "192.168.8.1")
		if r.Chance(94) {
			b.uci("network.lan.ipaddr", ip)
		} else {
			c.Stat("openwrt:no-lan-ip")
		}
		switch k := r.Intn(10); {
		case k < 4:
			c.Stat("openwrt:port-absent")
		case k < 7:
			b.uci("dhcp.@dnsmasq[0].port", "53")
			c.Stat("openwrt:port-53")
		default:
			b.uci("dhcp.@dnsmasq[0].port", pickS(r, "5353", "0", "1053"))
			c.Stat("openwrt:port-custom")
		}
		switch k := r.Intn(10); {
		case k < 4:
			c.Stat("openwrt:fwd-absent")
		case k < 9:
			n := 1 + r.Intn(3)
			var vs []string
			for i := 0; i < n; i++ {
				vs = append(vs, pickS(r, "1.1.1.1", "8.8.8.8", "/corp.lan/10.0.0.53", "9.9.9.9#5353", "2606:4700::1111", genToken(r)))
			}
			b.uci("dhcp.@dnsmasq[0].server", vs...)
			c.Stat("openwrt:fwd-list")
		default:
			b.uci("dhcp.@dnsmasq[0].server", pickS(r, "a b", "", " x", "1.1.1.1 "), "8.8.4.4")
			c.Stat("openwrt:fwd-odd")
		}
		switch k := r.Intn(10); {
		case k < 5:
			c.Stat("openwrt:dhcpopt-absent")
		case k < 8:
			b.uci("dhcp.lan.dhcp_option", pickS(r, "3,"+ip, "42,10.0.0.5", "15,lan"))
			c.Stat("openwrt:dhcpopt-other")
		case k < 9:
			b.uci("dhcp.lan.dhcp_option", "3,"+ip, "6,"+ip)
			c.Stat("openwrt:dhcpopt-has-6")
		default:
			b.uci("dhcp.lan.dhcp_option", pickS(r, "6,"+ip+"0", "26,"+ip, "6,"+ip+",8.8.8.8"))
			c.Stat("openwrt:dhcpopt-substring")
		}
		if r.Chance(30) {
			b.uci("dhcp.@dnsmasq[0].domain", "lan")
		}
		owDir := "/tmp/dnsmasq.d"
		switch k := r.Intn(10); {
		case k < 7:
		case k < 9:
			owDir = pickS(r, "/tmp/dnsmasq.cfg01411c.d", "/tmp/dnsmasq.d")
			b.file(nvDir+"/ubusdir", owDir)
			c.Stat("openwrt:ubus-dir")
		default:
			b.file(nvDir+"/ubusdir", pickS(r, "/tmp/other.d", "/tmp/dnsmasq.conf"))
			c.Stat("openwrt:ubus-nomatch")
		}
		if r.Chance(10) {
			b.file(owDir+"/nextdns.conf", "# Configuration generated by NextDNS\nno-resolv\nserver=127.0.0.1#5342\nadd-subnet=32,128\n")
			c.Stat("stale-dropin")
		}
	case "merlin":
		switch k := r.Intn(20); {
		case k < 6:
			c.Stat("merlin:postconf-absent")
		case k < 13:
			b.file("/jffs/scripts/dnsmasq.postconf", genScript(r))
			c.Stat("merlin:postconf-canonical")
		case k < 15:
			b.file("/jffs/scripts/dnsmasq.postconf", "#!/bin/sh\n# Configuration generated by NextDNS\nexit 0\n\n## NextDNS END\n"+genScript(r))
			c.Stat("merlin:postconf-stale-head")
		default:
			b.file("/jffs/scripts/dnsmasq.postconf", pickS(r, "#!/bin/sh\necho hi", "#!/bin/sh\r\necho hi\r\n", "\n\n#!/bin/sh\nexit 0\n", "", "\n\n", "a\r\r\nb\n",
				"keep\n## NextDNS END", "x\n## NextDNS END \ny\n", "## NextDNS END\n"))
			c.Stat("merlin:postconf-odd")
		}
	case "ddwrt":
		perm := r.Intn(6)
		for i := 0; i < 6; i++ {
			n := ddNames[(i+perm)%6]
			if r.Chance(22) {
				c.Stat("ddwrt:name-absent")
				continue
			}
			b.nv(n, genNvValue(r, c, n == "dnsmasq_options"))
			if r.Chance(25) {
				b.nv(pickS(r, "lan_ipaddr", "wl0_ssid", "router_name"), genToken(r))
			}
		}
		if r.Chance(15) {
			b.nv("rc_startup", "echo start\ndnssec=1\ndns_crypt=1\n")
			c.Stat("ddwrt:spoof-lines")
		}
	case "edgeos":
		if r.Chance(10) {
			b.file("/etc/dnsmasq.d/nextdns.conf", "# Configuration generated by NextDNS\n# DNS is handled by NextDNS\nport=0\n")
			c.Stat("stale-dropin")
		}
		if r.Chance(30) {
			b.file("/etc/dnsmasq.d/custom.conf", "cache-size=1000\n")
		}
	case "synology":
		switch k := r.Intn(10); {
		case k < 7:
			b.file("/etc/dhcpd/dhcpd.info", "enable=\"yes\"\nif=\"lbr0\"\n")
			c.Stat("synology:dhcp-on")
		case k < 9:
			b.file("/etc/dhcpd/dhcpd.info", pickS(r, "enable=\"no\"\n", "", "# enable=\"yes\"\n"))
			c.Stat("synology:dhcp-off")
		default:
			c.Stat("synology:dhcp-info-absent")
		}
	case "ubios":
		switch k := r.Intn(10); {
		case k < 8:
			b.file("/run/dnsmasq.pid", pickS(r, "1234\n", "77", " 4242 \n"))
		case k < 9:
			c.Stat("ubios:pid-absent")
		default:
			b.file("/run/dnsmasq.pid", pickS(r, "", "\n"))
			c.Stat("ubios:pid-empty")
		}
		if r.Chance(10) {
			b.file("/run/dnsfilter/dnsfilter", "x")
			c.Stat("ubios:dnsfilter")
		}
		if r.Chance(10) {
			b.file("/run/dnsmasq.conf.d/nextdns.conf", "stale\n")
			c.Stat("stale-dropin")
		}
	case "firewalla":
		if r.Chance(10) {
			b.file("/home/pi/.firewalla/config/dnsmasq_local/nextdns.conf", "stale\n")
			c.Stat("stale-dropin")
		}
	}
	if r.Chance(30) {
		b.file("/etc/unrelated.conf", genToken(r)+"\n")
	}
	if r.Chance(8) {
		// the port the integration makes the proxy listen on is taken while the router is configured
		// (an instance still exiting after an unclean stop, another local resolver): whatever the
		// integration does about it, dnsmasq must forward to what it put into c.Listens
		b.toks = append(b.toks, "B:5342=31")
		c.Stat("listen-port-busy")
	}
	line := fmt.Sprintf("router %s %s %d %s %d %s", fw, ops, rep, hxs(cs), on, hxs("localhost:53"))
	if len(b.toks) > 0 {
		line += " " + strings.Join(b.toks, " ")
	}
	return line
}

func areaRouter(c *Ctx) error {
	var cases []string
	if ls := replayLines(); ls != nil {
		cases = ls
	} else {
		r := NewRng(c.seed)
		for _, fw := range firmwares[:7] {
			cases = append(cases, "gentmpl "+fw)
		}
		for i := 0; i < c.n; i++ {
			cases = append(cases, genRouterCase(r, c))
		}
	}
	var jailCases []string
	for _, l := range cases {
		if strings.HasPrefix(l, "router ") {
			jailCases = append(jailCases, l)
		}
	}
	var jailRes []string
	if len(jailCases) > 0 {
		root, err := filepath.Abs(filepath.Join(c.dir, "jail"))
		if err != nil {
			return err
		}
		if err := prepareJail(root); err != nil {
			return fmt.Errorf("prepare jail: %v", err)
		}
		jailRes = runInJail(root, jailCases)
		_ = os.RemoveAll(root)
	}
	j := 0
	for _, l := range cases {
		switch {
		case strings.HasPrefix(l, "router "):
			c.Emit(l, jailRes[j])
			j++
		case strings.HasPrefix(l, "gentmpl "):
			c.Emit(l, hx([]byte(runtimeTmpl(strings.TrimPrefix(l, "gentmpl ")))))
		default:
			c.Emit(l, "bad-case")
		}
	}
	return nil
}

func runtimeTmpl(fw string) string {
	switch fw {
	case "openwrt":
		return openwrt.VerifTmpl()
	case "merlin":
		return merlin.VerifTmpl()
	case "ddwrt":
		return ddwrt.VerifTmpl()
	case "edgeos":
		return edgeos.VerifTmpl()
	case "synology":
		return synology.VerifTmpl()
	case "ubios":
		return ubios.VerifTmpl()
	case "firewalla":
		return firewalla.VerifTmpl()
	}
	return ""
}

// ---------------------------------------------------------------------------------------------
// tmpl area

type tmplData struct {
	A, B, ListenPort, CurrentPostConf       string
	X, Y                                    bool
	CacheEnabled, ClientReporting, SetPort0 bool
	hidden                                  string
}

var tmplFieldsS = []string{"A", "B", "ListenPort", "CurrentPostConf"}
var tmplFieldsB = []string{"X", "Y", "CacheEnabled", "ClientReporting", "SetPort0"}

func genText(r *Rng) string {
	const al = "abc xyz=#01\n\n\t {}-.\"$/"
	n := r.Intn(14)
	b := make([]byte, n)
	for i := range b {
		b[i] = al[r.Intn(len(al))]
	}
	s := string(b)
	for strings.Contains(s, "{{") {
		s = strings.ReplaceAll(s, "{{", "{ {")
	}
	if r.Chance(30) {
		s = pickS(r, "\n", " \n", "\n\t", "  ", "\r\n") + s
	}
	if r.Chance(30) {
		s += pickS(r, "\n", " \n", "\n\t", "  ", "\r\n")
	}
	if strings.HasSuffix(s, "{") {
		s += " "
	}
	return s
}

func genAction(r *Rng, body string) string {
	l, rt := "", ""
	if r.Chance(45) {
		l = "-" + pickS(r, " ", " ", "\n", "\t", "  ")
	} else if r.Chance(20) {
		l = pickS(r, " ", "\n", "  ")
	}
	if r.Chance(30) {
		rt = pickS(r, " ", "\n", "\t", "  ") + "-"
	} else if r.Chance(20) {
		rt = pickS(r, " ", "\n", "  ")
	}
	return "{{" + l + body + rt + "}}"
}

func genField(r *Rng, c *Ctx) string {
	switch k := r.Intn(20); {
	case k < 9:
		return "." + tmplFieldsS[r.Intn(4)]
	case k < 18:
		return "." + tmplFieldsB[r.Intn(5)]
	case k < 19:
		c.Stat("tmpl:unknown-field")
		return pickS(r, ".Nope", ".a", ".hidden", "._x", ".A1")
	default:
		return "." + tmplFieldsS[r.Intn(4)]
	}
}

func genBlock(r *Rng, c *Ctx, depth int) string {
	var b strings.Builder
	n := 1 + r.Intn(4)
	for i := 0; i < n; i++ {
		switch k := r.Intn(10); {
		case k < 4:
			b.WriteString(genText(r))
		case k < 7:
			b.WriteString(genAction(r, genField(r, c)))
		default:
			if depth >= 3 {
				b.WriteString(genText(r))
				continue
			}
			b.WriteString(genAction(r, "if"+pickS(r, " ", "  ", "\n")+genField(r, c)))
			b.WriteString(genBlock(r, c, depth+1))
			if r.Chance(50) {
				b.WriteString(genAction(r, "else"))
				b.WriteString(genBlock(r, c, depth+1))
			}
			b.WriteString(genAction(r, "end"))
		}
	}
	return b.String()
}

func genTmplCase(r *Rng, c *Ctx) string {
	t := genBlock(r, c, 0)
	if r.Chance(18) {
		// known-malformed stream
		switch k := r.Intn(8); k {
		case 0:
			t += genAction(r, "end")
			c.Stat("tmpl:bad-extra-end")
		case 1:
			t = genAction(r, "if .X") + t
			c.Stat("tmpl:bad-missing-end")
		case 2:
			t += genAction(r, "else")
			c.Stat("tmpl:bad-stray-else")
		case 3:
			t = genAction(r, "if .Y") + "a" + genAction(r, "else") + "b" + genAction(r, "else") + "c" + genAction(r, "end") + t
			c.Stat("tmpl:bad-double-else")
		case 4:
			t += pickS(r, "{{", "{{ .A", "{{- if .X", "{{.A }", "{{.A -}")
			c.Stat("tmpl:bad-unclosed")
		case 5:
			t += pickS(r, "{{}}", "{{ }}", "{{- }}", "{{ -}}", "{{-\n}}")
			c.Stat("tmpl:bad-empty-action")
		case 6:
			t = genAction(r, "if .X") + genAction(r, ".Nope") + genAction(r, "end") + t
			c.Stat("tmpl:unknown-field-maybe-skipped")
		default:
			t = genAction(r, "if .Nope") + "z" + genAction(r, "end") + t
			c.Stat("tmpl:bad-unknown-cond")
		}
	} else {
		c.Stat("tmpl:wellformed")
	}
	strs := make([]string, 4)
	for i := range strs {
		strs[i] = pickS(r, "", "", "5342", "x\ny\n", "{{.A}}", " v ", genToken(r))
	}
	bits := ""
	for i := 0; i < 5; i++ {
		bits += fmt.Sprint(r.Intn(2))
	}
	return fmt.Sprintf("tmpl %s %s %s %s %s %s", hxs(t), hxs(strs[0]), hxs(strs[1]), hxs(strs[2]), hxs(strs[3]), bits)
}

func runTmplCase(c *Ctx, line string) string {
	f := strings.Split(line, " ")
	if len(f) != 7 || len(f[6]) != 5 {
		return "bad-case"
	}
	d := tmplData{A: string(unhx(f[2])), B: string(unhx(f[3])), ListenPort: string(unhx(f[4])), CurrentPostConf: string(unhx(f[5])),
		X: f[6][0] == '1', Y: f[6][1] == '1', CacheEnabled: f[6][2] == '1', ClientReporting: f[6][3] == '1', SetPort0: f[6][4] == '1'}
	p := filepath.Join(c.dir, "tmpl.out")
	_ = os.Remove(p)
	var err error
	func() {
		defer func() {
			if x := recover(); x != nil {
				err = fmt.Errorf("PANIC %v", x)
			}
		}()
		err = router.VerifWriteTemplate(p, string(unhx(f[1])), d, 0644)
	}()
	if err != nil {
		if strings.HasPrefix(err.Error(), "PANIC") {
			return err.Error()
		}
		return "err"
	}
	b, rerr := os.ReadFile(p)
	if rerr != nil {
		return "ERR-READ"
	}
	return "ok " + hx(b)
}

func areaTmpl(c *Ctx) error {
	if ls := replayLines(); ls != nil {
		for _, l := range ls {
			c.Emit(l, runTmplCase(c, l))
		}
		return nil
	}
	r := NewRng(c.seed)
	// the repository's own templates with every flag combination first
	for _, fw := range firmwares[:7] {
		t := runtimeTmpl(fw)
		for bits := 0; bits < 32; bits++ {
			bs := ""
			for i := 0; i < 5; i++ {
				bs += fmt.Sprint((bits >> i) & 1)
			}
			l := fmt.Sprintf("tmpl %s - - %s %s %s", hxs(t), hxs("5342"), hxs(pickS(r, "", "#!/bin/sh\nexit 0\n")), bs)
			c.Stat("tmpl:repository-template")
			c.Emit(l, runTmplCase(c, l))
		}
	}
	for i := 0; i < c.n; i++ {
		l := genTmplCase(r, c)
		c.Emit(l, runTmplCase(c, l))
	}
	return nil
}
