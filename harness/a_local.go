package main

import (
	"context"
	"errors"
	"fmt"
	"net"
	"os"
	"path/filepath"
	"sort"
	"strconv"
	"strings"
	"time"

	"github.com/nextdns/nextdns/discovery"
	"github.com/nextdns/nextdns/proxy"
	"github.com/nextdns/nextdns/resolver"
	"github.com/nextdns/nextdns/resolver/query"
)

// local area (C12): the real Proxy.Resolve with LocalResolver = discovery.Resolver{&discovery.Hosts{}}
// reading a generated hosts file, DiscoveryResolver = discovery.Resolver{table source}, and a
// counting, scripted upstream; plus direct runs of ptrIP / isPrivateReverse / IP.String and of the
// hosts-file reader.  Case-line grammar: see lean/NV/Driver/Local.lean.

type tabSource struct{ names, addrs map[string][]string }

func (t *tabSource) Name() string                    { return "table" }
func (t *tabSource) Visit(func(string, []string))    {}
func (t *tabSource) LookupAddr(addr string) []string { return t.addrs[addr] }
func (t *tabSource) LookupHost(name string) []string { return t.names[name] }

type fakeUp struct {
	calls int
	bytes []byte
	n     int
	err   error
	asked []string
}

func (u *fakeUp) Resolve(ctx context.Context, q query.Query, buf []byte) (int, resolver.ResolveInfo, error) {
	u.calls++
	u.asked = append(u.asked, q.Name)
	copy(buf, u.bytes)
	return u.n, resolver.ResolveInfo{}, u.err
}

type addrTok struct {
	ip   net.IP // nil for junk
	junk string
}

func parseAddrTok(s string) (addrTok, bool) {
	if len(s) < 1 {
		return addrTok{}, false
	}
	b := unhx(s[1:])
	switch s[0] {
	case 'i':
		if len(b) != 4 && len(b) != 16 {
			return addrTok{}, false
		}
		return addrTok{ip: net.IP(b)}, true
	case 'j':
		return addrTok{junk: string(b)}, true
	}
	return addrTok{}, false
}

func (a addrTok) canon() string {
	if a.ip != nil {
		return a.ip.String()
	}
	return a.junk
}

// spelling: how the address is written in the hosts file; net.ParseIP canonicalises all of them.
func (a addrTok) spelling(variant int) string {
	if a.ip == nil {
		return a.junk
	}
	if len(a.ip) == 4 || a.ip.To4() != nil {
		if len(a.ip) == 16 {
			return "::ffff:" + a.ip.To4().String()
		}
		return a.ip.String()
	}
	switch variant % 3 {
	case 1:
		return strings.ToUpper(a.ip.String())
	case 2:
		var gs []string
		for i := 0; i < 16; i += 2 {
			gs = append(gs, fmt.Sprintf("%04x", int(a.ip[i])<<8|int(a.ip[i+1])))
		}
		return strings.Join(gs, ":")
	}
	return a.ip.String()
}

type hostLine struct {
	addr  addrTok
	names []string
}

func parseLocalTok(s string) (lines []hostLine, present, ok bool) {
	if !strings.HasPrefix(s, "L=") {
		return nil, false, false
	}
	s = s[2:]
	if s == "nil" {
		return nil, false, true
	}
	if s == "-" {
		return nil, true, true
	}
	for _, e := range strings.Split(s, ";") {
		kv := strings.Split(e, "@")
		if len(kv) != 2 {
			return nil, false, false
		}
		a, ok := parseAddrTok(kv[0])
		if !ok {
			return nil, false, false
		}
		var ns []string
		for _, n := range strings.Split(kv[1], ",") {
			if n == "" {
				return nil, false, false
			}
			ns = append(ns, string(unhx(n)))
		}
		lines = append(lines, hostLine{a, ns})
	}
	return lines, true, true
}

// renderHosts writes the accepted lines plus noise the reader must skip.
func renderHosts(lines []hostLine) string {
	var b strings.Builder
	b.WriteString("# generated\n\n")
	for i, l := range lines {
		v := len(l.names) + i
		for _, n := range l.names {
			v += len(n)
		}
		switch v % 5 {
		case 0:
			b.WriteString("not.an.address somename\n")
		case 1:
			b.WriteString("   # 10.9.8.7 commented.out\n")
		case 2:
			b.WriteString("10.1.2.3\n") // a single field
		}
		sep := "\t"
		if v%2 == 0 {
			sep = "   "
		}
		b.WriteString(l.addr.spelling(v) + sep + strings.Join(l.names, " "))
		if v%3 == 0 {
			b.WriteString(" # trailing comment 10.0.0.99 ghost")
		}
		b.WriteString("\n")
	}
	return b.String()
}

func parseMapTok(s, pre string, isAddr bool) (m map[string][]string, present, ok bool) {
	if !strings.HasPrefix(s, pre) {
		return nil, false, false
	}
	s = s[len(pre):]
	if s == "nil" {
		return nil, false, true
	}
	m = map[string][]string{}
	if s == "-" {
		return m, true, true
	}
	for _, e := range strings.Split(s, ";") {
		kv := strings.Split(e, "@")
		if len(kv) != 2 {
			return nil, false, false
		}
		k := string(unhx(kv[0]))
		if _, dup := m[k]; dup {
			return nil, false, false // keys must be unique (the model takes the first match)
		}
		m[k] = []string{}
		for _, v := range strings.Split(kv[1], ",") {
			if isAddr {
				a, ok := parseAddrTok(v)
				if !ok {
					return nil, false, false
				}
				m[k] = append(m[k], a.canon())
			} else {
				if v == "" {
					return nil, false, false
				}
				m[k] = append(m[k], string(unhx(v)))
			}
		}
	}
	return m, true, true
}

var hostsPath string

func setupHostsFile(c *Ctx) {
	if hostsPath == "" {
		hostsPath = filepath.Join(c.dir, "hosts")
		discovery.VerifSetHostsFiles([]string{hostsPath})
	}
}

// writeHostsFile puts content where the daemon looks for the hosts file: for every other content (by its length) the
// path is a SYMBOLIC LINK to the real file, as /etc/hosts is on firmwares whose /etc lives on a read-only image
// (Asuswrt-Merlin: /etc/hosts -> /tmp/etc/hosts); otherwise a regular file.
func writeHostsFile(content []byte) error {
	real := hostsPath + ".real"
	_ = os.Remove(hostsPath)
	_ = os.Remove(real)
	if len(content)%2 == 1 {
		if err := os.WriteFile(real, content, 0644); err != nil {
			return err
		}
		return os.Symlink(real, hostsPath)
	}
	return os.WriteFile(hostsPath, content, 0644)
}

// runResolve: `resolve …` = one query on a fresh Proxy; `resolveseq … <p1>,<p2>,…` = the queries
// in order on ONE Proxy with ONE discovery.Hosts (tables read once, then reused: a lookup must not
// disturb what a later lookup of the same table returns); results joined by '|', up = upstream
// calls made by that query.
func runResolve(c *Ctx, f []string) string {
	if len(f) != 7 || (f[1] != "b=0" && f[1] != "b=1") {
		return "bad-op"
	}
	var payloads [][]byte
	for _, h := range strings.Split(f[6], ",") {
		payloads = append(payloads, unhx(h))
	}
	if f[0] == "resolve" && len(payloads) != 1 {
		return "bad-op"
	}
	lines, lpresent, ok := parseLocalTok(f[2])
	if !ok {
		return "bad-op"
	}
	dn, dnp, ok1 := parseMapTok(f[3], "DN=", true)
	da, dap, ok2 := parseMapTok(f[4], "DA=", false)
	if !ok1 || !ok2 || dnp != dap {
		return "bad-op"
	}
	if !strings.HasPrefix(f[5], "U=") {
		return "bad-op"
	}
	us := strings.Split(f[5][2:], ":")
	if len(us) != 2 || (us[0] != "0" && us[0] != "1") || len(us[1]) < 1 {
		return "bad-op"
	}
	up := &fakeUp{}
	if us[0] == "1" {
		up.err = errors.New("upstream failure")
	}
	switch us[1][0] {
	case 'H':
		up.bytes = unhx(us[1][1:])
		up.n = len(up.bytes)
	case 'N':
		n, err := strconv.Atoi(us[1][1:])
		if err != nil || n > 0 {
			return "bad-op"
		}
		up.n = n
	default:
		return "bad-op"
	}
	p := proxy.Proxy{Upstream: up, BogusPriv: f[1] == "b=1"}
	if lpresent {
		setupHostsFile(c)
		if err := writeHostsFile([]byte(renderHosts(lines))); err != nil {
			return "ERR " + err.Error()
		}
		p.LocalResolver = discovery.Resolver{&discovery.Hosts{}}
	}
	if dnp {
		p.DiscoveryResolver = discovery.Resolver{&tabSource{names: dn, addrs: da}}
	}
	var outs []string
	for _, payload := range payloads {
		payload := payload
		before := up.calls
		done := make(chan string, 1)
		go func() {
			defer func() {
				if x := recover(); x != nil {
					done <- fmt.Sprintf("PANIC %v", x)
				}
			}()
			// proxy/udp.go, tcp.go: a parse error is logged and the query resolved anyway
			q, _ := query.New(append([]byte{}, payload...), loopback, loopback)
			buf := make([]byte, 65535)
			ctx, cancel := context.WithTimeout(context.Background(), 2*time.Second)
			defer cancel()
			n, _, err := p.Resolve(ctx, q, buf)
			e := 0
			if err != nil {
				e = 1
			}
			out := "-"
			if n > 0 && n <= len(buf) {
				out = hx(buf[:n])
			}
			done <- fmt.Sprintf("n=%d err=%d up=%d buf=%s", n, e, up.calls-before, out)
		}()
		select {
		case s := <-done:
			outs = append(outs, s)
			if strings.HasPrefix(s, "PANIC") {
				return s
			}
		case <-time.After(3 * time.Second):
			return "TIMEOUT"
		}
	}
	return strings.Join(outs, "|")
}

func runPtrIP(name []byte) (s string) {
	defer func() {
		if x := recover(); x != nil {
			s = fmt.Sprintf("PANIC %v", x)
		}
	}()
	ip := proxy.VerifPtrIP(string(name))
	ips := "none"
	if ip != nil {
		ips = hx(ip)
	}
	priv := 0
	if proxy.VerifIsPrivateReverse(string(name)) {
		priv = 1
	}
	return fmt.Sprintf("ip=%s priv=%d str=%s", ips, priv, hx([]byte(ip.String())))
}

func dumpMap(m map[string][]string) string {
	var es []string
	for k, vs := range m {
		hv := make([]string, len(vs))
		for i, v := range vs {
			hv[i] = hx([]byte(v))
		}
		es = append(es, hx([]byte(k))+"="+strings.Join(hv, ","))
	}
	sort.Strings(es)
	return strings.Join(es, ";")
}

func runHostsTab(c *Ctx, tok string) string {
	lines, present, ok := parseLocalTok(tok)
	if !ok || !present {
		return "bad-op"
	}
	setupHostsFile(c)
	if err := os.WriteFile(hostsPath, []byte(renderHosts(lines)), 0644); err != nil {
		return "ERR " + err.Error()
	}
	names, addrs, err := discovery.VerifReadHostsFile(hostsPath)
	if err != nil {
		return "ERR " + err.Error()
	}
	return "names " + dumpMap(names) + " addrs " + dumpMap(addrs)
}

// ---------------------------------------------------------------- generators

type addrClass struct {
	name string
	gen  func(r *Rng) net.IP
}

func v4(a, b, c, d int) net.IP { return net.IP{byte(a), byte(b), byte(c), byte(d)} }

func (r *Rng) v6(prefix ...byte) net.IP {
	ip := net.IP(r.Bytes(16))
	copy(ip, prefix)
	switch r.Intn(4) {
	case 0: // a zero run in the middle
		for i := 4 + 2*r.Intn(3); i < 12; i++ {
			ip[i] = 0
		}
	case 1: // mostly zeros
		for i := len(prefix); i < 15; i++ {
			ip[i] = 0
		}
	case 2: // groups with leading zeros
		for i := len(prefix) &^ 1; i < 16; i += 2 {
			if r.Bool() {
				ip[i] = 0
			}
		}
	}
	return ip
}

// octet: a byte value with the boundaries over-represented
func (r *Rng) octet() int {
	if r.Chance(30) {
		return r.Pick([]int{0, 1, 9, 10, 99, 100, 127, 128, 199, 200, 254, 255})
	}
	return r.Intn(256)
}

var addrClasses = []addrClass{
	{"10/8", func(r *Rng) net.IP { return v4(10, r.octet(), r.octet(), r.octet()) }},
	{"172.16/12", func(r *Rng) net.IP {
		return v4(172, r.Pick([]int{16, 17, 23, 24, 30, 31, 16 + r.Intn(16)}), r.octet(), r.octet())
	}},
	{"192.168/16", func(r *Rng) net.IP { return v4(192, 168, r.octet(), r.octet()) }},
	{"127/8", func(r *Rng) net.IP { return v4(127, r.octet(), r.octet(), r.octet()) }},
	{"169.254/16", func(r *Rng) net.IP { return v4(169, 254, r.octet(), r.octet()) }},
	{"v4-near-private", func(r *Rng) net.IP {
		return [](net.IP){v4(11, 0, 0, 1), v4(9, 255, 255, 255), v4(172, 15, 255, 1), v4(172, 32, 0, 1), v4(192, 167, 1, 1), v4(192, 169, 1, 1),
			v4(126, 0, 0, 1), v4(128, 0, 0, 1), v4(169, 253, 1, 1), v4(169, 255, 1, 1), v4(0, 0, 0, 0), v4(255, 255, 255, 255)}[r.Intn(12)]
	}},
	{"v4-public", func(r *Rng) net.IP {
		return v4(r.Pick([]int{1, 8, 93, 100, 198, 203}), r.Intn(256), r.Intn(256), r.Intn(256))
	}},
	{"fd00::/8", func(r *Rng) net.IP { return r.v6(0xfd) }},
	{"fe80::/10", func(r *Rng) net.IP { return r.v6(0xfe, byte(0x80+r.Intn(64))) }},
	{"::1", func(r *Rng) net.IP { return net.IPv6loopback }},
	{"v6-near-private", func(r *Rng) net.IP {
		switch r.Intn(5) {
		case 0:
			return r.v6(0xfc)
		case 1:
			return r.v6(0xfe, 0xc0)
		case 2:
			return r.v6(0xfe, 0x7f)
		case 3:
			ip := make(net.IP, 16)
			ip[15] = 2
			return ip
		}
		return net.IPv6zero
	}},
	{"v6-global", func(r *Rng) net.IP { return r.v6(0x20, 0x01, 0x0d, 0xb8) }},
	{"v4-mapped", func(r *Rng) net.IP {
		return v4(r.Pick([]int{10, 127, 8, 192}), r.Pick([]int{168, 0, 1}), r.Intn(256), r.Intn(256)).To16()
	}},
}

// reverseName: the canonical reverse-lookup name of ip (4 or 16 bytes as given)
func reverseName(ip net.IP) string {
	var ls []string
	if len(ip) == 4 {
		for i := 3; i >= 0; i-- {
			ls = append(ls, strconv.Itoa(int(ip[i])))
		}
		return strings.Join(ls, ".") + ".in-addr.arpa."
	}
	for i := 15; i >= 0; i-- {
		ls = append(ls, fmt.Sprintf("%x", ip[i]&0xf), fmt.Sprintf("%x", ip[i]>>4))
	}
	return strings.Join(ls, ".") + ".ip6.arpa."
}

func (r *Rng) caseVariant(s string) (string, string) {
	switch r.Intn(6) {
	case 0:
		return strings.ToUpper(s), "upper"
	case 1:
		b := []byte(s)
		for i := range b {
			if r.Bool() && b[i] >= 'a' && b[i] <= 'z' {
				b[i] -= 32
			} else if r.Chance(30) && b[i] >= 'A' && b[i] <= 'Z' {
				b[i] += 32
			}
		}
		return string(b), "mixed"
	case 2:
		return strings.ToLower(s), "lower"
	}
	return s, "asis"
}

var oddLabels = []string{"", "+1", "-1", "01", "001", "0x1", "1_0", "256", "300", "999", "0", "255", "ff", "FF", "g", "10", "A", "f", "100", " 1", "1 ", "٣", "0000000001", "4294967297"}

// oddArpa: partial, over-long and malformed reverse names
func (r *Rng) oddArpa() (string, string) {
	six := r.Bool()
	var ls []string
	n := r.Intn(7)
	if six {
		n = r.Pick([]int{0, 1, 2, 3, 8, 16, 31, 32, 33, 34, 40})
	}
	for i := 0; i < n; i++ {
		switch {
		case r.Chance(12):
			ls = append(ls, oddLabels[r.Intn(len(oddLabels))])
		case six:
			ls = append(ls, fmt.Sprintf("%x", r.Intn(16)))
			if r.Chance(10) {
				ls[len(ls)-1] = strings.ToUpper(ls[len(ls)-1])
			}
		default:
			ls = append(ls, strconv.Itoa(r.Pick([]int{0, 1, 10, 16, 31, 127, 168, 172, 192, 254, 255, r.Intn(256)})))
		}
	}
	s := strings.Join(ls, ".")
	if r.Chance(10) {
		s = "." + s
	}
	suf := ".in-addr.arpa."
	if six {
		suf = ".ip6.arpa."
	}
	kind := "odd-arpa"
	switch r.Intn(14) {
	case 0:
		suf = suf[1:] // no dot before in-addr
	case 1:
		suf = suf[:len(suf)-1] // not absolute
	case 2:
		suf = ".arpa."
	case 3:
		suf = suf + "."
	case 4:
		suf = ".in-addr.ip6.arpa."
	case 5:
		suf = strings.ToUpper(suf)
		kind = "odd-arpa-upper"
	case 6:
		suf = ".In-Addr.Arpa."
		if six {
			suf = ".iP6.aRPA."
		}
		kind = "odd-arpa-mixed"
	}
	return s + suf, kind
}

var hostNamePool = []string{"host", "printer", "nas.lan", "Host.Corp", "router.home.arpa", "a-b_c", "x", "localhost", "localhost.localdomain",
	"MiXeD.Example.COM", "example.com.", "deep.sub.domain.test", "xn--caf-dma.fr", "_srv._tcp.local", "1.2.3.4", "10.in-addr.arpa"}

var badNamePool = []string{"bad..name", ".leading", strings.Repeat("l", 64) + ".lan", strings.Repeat("a123456789.", 24) + "toolong", "a." + strings.Repeat("b", 63) + ".ok"}

func (r *Rng) hostName() string {
	if r.Chance(8) {
		return badNamePool[r.Intn(len(badNamePool))]
	}
	n := hostNamePool[r.Intn(len(hostNamePool))]
	if r.Chance(30) {
		n = fmt.Sprintf("h%d.%s", r.Intn(4), n)
	}
	if r.Chance(25) {
		n, _ = r.caseVariant(n)
	}
	return n
}

func (r *Rng) someAddr(c *Ctx, tag string) net.IP {
	cl := addrClasses[r.Intn(len(addrClasses))]
	if c != nil {
		c.Stat(tag + ":" + cl.name)
	}
	return cl.gen(r)
}

func addrTokStr(ip net.IP) string { return "i" + hx(ip) }

type localCase struct {
	lines []hostLine
	names []string // every name listed
	ips   []net.IP // every address listed
}

func (r *Rng) genHosts(c *Ctx) (string, localCase) {
	var lc localCase
	switch r.Intn(10) {
	case 0:
		c.Stat("local:nil")
		return "L=nil", lc
	case 1:
		c.Stat("local:empty")
		return "L=-", lc
	}
	c.Stat("local:table")
	n := 1 + r.Intn(5)
	var es []string
	for i := 0; i < n; i++ {
		var a addrTok
		if r.Chance(6) {
			a = addrTok{junk: "fe80::" + strconv.Itoa(1+r.Intn(9)) + "%eth" + strconv.Itoa(r.Intn(2))}
		} else if len(lc.ips) > 0 && r.Chance(20) {
			a = addrTok{ip: lc.ips[r.Intn(len(lc.ips))]} // the same address on a second line
		} else {
			a = addrTok{ip: r.someAddr(c, "hosts-addr")}
		}
		var ns, hs []string
		for k := 0; k < 1+r.Intn(3); k++ {
			nm := r.hostName()
			if len(lc.names) > 0 && r.Chance(15) {
				nm, _ = r.caseVariant(lc.names[r.Intn(len(lc.names))]) // the same name on several lines
			}
			ns = append(ns, nm)
			hs = append(hs, hx([]byte(nm)))
			lc.names = append(lc.names, nm)
		}
		tok := "j" + hx([]byte(a.junk))
		if a.ip != nil {
			tok = addrTokStr(a.ip)
			lc.ips = append(lc.ips, a.ip)
		}
		lc.lines = append(lc.lines, hostLine{a, ns})
		es = append(es, tok+"@"+strings.Join(hs, ","))
	}
	return "L=" + strings.Join(es, ";"), lc
}

func absLower(n string) string {
	n = strings.ToLower(n)
	if !strings.HasSuffix(n, ".") {
		n += "."
	}
	return n
}

func (r *Rng) genDisc(c *Ctx, lc localCase, extraNames []string, extraIPs []net.IP) (string, string) {
	if r.Chance(40) {
		c.Stat("disc:nil")
		return "DN=nil", "DA=nil"
	}
	c.Stat("disc:table")
	names := map[string]bool{}
	var dn, da []string
	cands := append(append([]string{}, extraNames...), lc.names...)
	for i := 0; i < r.Intn(4); i++ {
		var k string
		if len(cands) > 0 && r.Chance(70) {
			k = absLower(cands[r.Intn(len(cands))])
		} else {
			k = absLower(r.hostName())
		}
		if names[k] {
			continue
		}
		names[k] = true
		var as []string
		for j := 0; j < 1+r.Intn(3); j++ {
			switch r.Intn(8) {
			case 0:
				as = append(as, "j"+hx([]byte([]string{"not.an.ip", "zz", "1.2.3", "fe80::1%lan0", "1.2.3.4.5"}[r.Intn(5)])))
			default:
				as = append(as, addrTokStr(r.someAddr(c, "disc-addr")))
			}
		}
		dn = append(dn, hx([]byte(k))+"@"+strings.Join(as, ","))
	}
	keys := map[string]bool{}
	ipc := append(append([]net.IP{}, extraIPs...), lc.ips...)
	for i := 0; i < r.Intn(4); i++ {
		var ip net.IP
		if len(ipc) > 0 && r.Chance(75) {
			ip = ipc[r.Intn(len(ipc))]
		} else {
			ip = r.someAddr(c, "disc-key")
		}
		k := ip.String()
		if keys[k] {
			continue
		}
		keys[k] = true
		var ns []string
		for j := 0; j < 1+r.Intn(3); j++ {
			nm := r.hostName()
			if !r.Chance(10) && !strings.HasSuffix(nm, ".") {
				nm += "."
			}
			ns = append(ns, hx([]byte(nm)))
		}
		da = append(da, hx([]byte(k))+"@"+strings.Join(ns, ","))
	}
	j := func(x []string) string {
		if len(x) == 0 {
			return "-"
		}
		return strings.Join(x, ";")
	}
	return "DN=" + j(dn), "DA=" + j(da)
}

func nameToWire(n string) []byte {
	n = strings.TrimSuffix(n, ".")
	if n == "" {
		return []byte{0}
	}
	return wireName(strings.Split(n, ".")...)
}

func (r *Rng) upstreamTok(c *Ctx, id int) string {
	hdr := func(rcode int) []byte {
		b := append(be16(id), 0x81, byte(0x80|rcode), 0, 0, 0, 0, 0, 0, 0, 0)
		return append(b, r.Bytes(r.Intn(40))...)
	}
	switch r.Intn(10) {
	case 0, 1, 2:
		c.Stat("up:nxdomain")
		return "U=0:H" + hx(hdr(3))
	case 3, 4, 5:
		c.Stat("up:noerror")
		return "U=0:H" + hx(hdr(0))
	case 6:
		c.Stat("up:servfail")
		return "U=0:H" + hx(hdr(2))
	case 7:
		c.Stat("up:error")
		return "U=1:N" + strconv.Itoa(-r.Intn(2))
	case 8:
		c.Stat("up:zero")
		return "U=0:N0"
	default:
		c.Stat("up:error-with-fallback")
		return "U=1:H" + hx(hdr(r.Pick([]int{0, 3})))
	}
}

func (r *Rng) genResolve(c *Ctx) string {
	ltok, lc := r.genHosts(c)
	// the question
	var name, kind string
	var extraNames []string
	var extraIPs []net.IP
	qtype := r.Pick([]int{1, 1, 28, 28, 12, 12, 12, 255, 16, 15, 5, 65, 2})
	switch k := r.Intn(10); {
	case k < 3 && len(lc.names) > 0:
		name, kind = r.caseVariant(lc.names[r.Intn(len(lc.names))])
		kind = "hosts-name-" + kind
		if qtype == 12 && r.Chance(70) {
			qtype = r.Pick([]int{1, 28, 255, 16})
		}
	case k < 5 && len(lc.ips) > 0:
		ip := lc.ips[r.Intn(len(lc.ips))]
		if r.Chance(15) && ip.To4() != nil {
			ip = ip.To4() // the in-addr form of a mapped address
		}
		name, kind = r.caseVariant(reverseName(ip))
		kind = "hosts-addr-reverse-" + kind
		qtype = r.Pick([]int{12, 12, 12, 12, 1, 255})
	case k < 7:
		ip := r.someAddr(c, "q-reverse")
		extraIPs = append(extraIPs, ip)
		name, kind = r.caseVariant(reverseName(ip))
		kind = "reverse-" + kind
		qtype = r.Pick([]int{12, 12, 12, 12, 12, 1, 255})
	case k < 8:
		name, kind = r.oddArpa()
		qtype = r.Pick([]int{12, 12, 12, 1})
	default:
		name = r.hostName()
		extraNames = append(extraNames, name)
		kind = "other-name"
	}
	c.Stat("q:" + kind)
	c.Stat(fmt.Sprintf("qtype:%d", qtype))
	dn, da := r.genDisc(c, lc, extraNames, extraIPs)
	id := r.Intn(65536)
	flags := 0x0100
	if r.Chance(12) {
		flags = 0
		c.Stat("q:rd-clear")
	} else if r.Chance(10) {
		flags = r.Intn(65536)&0x7fff | 0x0100
	}
	qcls := 1
	if r.Chance(5) {
		qcls = r.Pick(qclasses)
	}
	body := append(nameToWire(name), be16(qtype)...)
	body = append(body, be16(qcls)...)
	ar := 0
	if r.Chance(40) {
		body = append(body, packRR(rrSpec{name: []byte{0}, typ: 41, class: 1232, rdata: packOpts([]optSpec{{code: 10, data: r.Bytes(8)}})})...)
		ar = 1
	}
	p := append(be16(id), be16(flags)...)
	p = append(p, be16(1)...)
	p = append(p, 0, 0, 0, 0)
	p = append(p, be16(ar)...)
	p = append(p, body...)
	if r.Chance(3) {
		p, _ = r.mutate(p)
		c.Stat("q:mutated")
	}
	b := "b=1"
	if r.Chance(30) {
		b = "b=0"
		c.Stat("bogus:off")
	} else {
		c.Stat("bogus:on")
	}
	op := "resolve"
	ps := hx(p)
	if r.Chance(20) && (len(lc.names) > 0 || len(lc.ips) > 0) {
		// a sequence on one Proxy / one hosts table: the listed names asked for each family in turn,
		// again, in other spellings, and the reverse names of the listed addresses
		op = "resolveseq"
		c.Stat("op:resolveseq")
		k := 2 + r.Intn(5)
		var focus string
		if len(lc.names) > 0 {
			focus = lc.names[r.Intn(len(lc.names))]
		}
		for j := 0; j < k; j++ {
			var nm string
			var qt int
			if len(lc.ips) > 0 && (focus == "" || r.Chance(20)) {
				nm, _ = r.caseVariant(reverseName(lc.ips[r.Intn(len(lc.ips))]))
				qt = 12
			} else {
				n0 := focus
				if r.Chance(25) {
					n0 = lc.names[r.Intn(len(lc.names))]
				}
				nm, _ = r.caseVariant(n0)
				qt = r.Pick([]int{1, 28, 28, 1, 255})
			}
			b2 := append(nameToWire(nm), be16(qt)...)
			b2 = append(b2, 0, 1)
			q2 := append(be16(r.Intn(65536)), 1, 0, 0, 1, 0, 0, 0, 0, 0, 0)
			q2 = append(q2, b2...)
			ps += "," + hx(q2)
			c.Stat(fmt.Sprintf("seq-qtype:%d", qt))
		}
	}
	return strings.Join([]string{op, b, ltok, dn, da, r.upstreamTok(c, id), ps}, " ")
}

func (r *Rng) genPtrName(c *Ctx) string {
	switch r.Intn(4) {
	case 0:
		n, kind := r.oddArpa()
		c.Stat("ptr:" + kind)
		return n
	case 1:
		ip := r.someAddr(c, "ptr-class")
		if len(ip) == 16 && ip.To4() != nil && r.Bool() {
			ip = ip.To4()
		}
		n, kind := r.caseVariant(reverseName(ip))
		c.Stat("ptr:canonical-" + kind)
		return n
	case 2:
		// partial name: drop leading labels of a canonical one
		ip := r.someAddr(c, "ptr-class")
		ls := strings.Split(reverseName(ip), ".")
		k := r.Intn(len(ls) - 2)
		c.Stat("ptr:partial")
		return strings.Join(ls[k:], ".")
	default:
		// a canonical name with one label replaced
		ip := r.someAddr(c, "ptr-class")
		ls := strings.Split(reverseName(ip), ".")
		ls[r.Intn(len(ls)-3)] = oddLabels[r.Intn(len(oddLabels))]
		c.Stat("ptr:one-odd-label")
		return strings.Join(ls, ".")
	}
}

func init() {
	areas["local"] = func(c *Ctx) error {
		r := NewRng(c.seed)
		run := func(l string) {
			c.Note(l)
			f := strings.Split(l, " ")
			switch {
			case len(f) == 2 && f[0] == "ptrip":
				c.Emit(l, runPtrIP(unhx(f[1])))
			case len(f) == 2 && f[0] == "hoststab":
				c.Emit(l, runHostsTab(c, f[1]))
			case f[0] == "resolve" || f[0] == "resolveseq":
				c.Emit(l, runResolve(c, f))
			default:
				c.Emit(l, "bad-op")
			}
		}
		if ls := replayLines(); ls != nil {
			for _, l := range ls {
				run(l)
			}
			return nil
		}
		for i := 0; i < c.n; i++ {
			switch k := r.Intn(10); {
			case k < 3:
				c.Stat("op:ptrip")
				run("ptrip " + hx([]byte(r.genPtrName(c))))
			case k < 4:
				tok, _ := r.genHosts(c)
				if tok == "L=nil" {
					tok = "L=-"
				}
				c.Stat("op:hoststab")
				run("hoststab " + tok)
			default:
				c.Stat("op:resolve")
				run(r.genResolve(c))
			}
		}
		return nil
	}
}
