package main

import (
	"encoding/binary"
	"io"
	"net"
	"sync"
	"time"

	"github.com/nextdns/nextdns/resolver/query"
)

// sockconc area (C01 schedules): concurrent UDP clients and pipelined TCP clients against the
// real proxy; every reply is attributed to its query by ID (IDs are unique per run) and compared
// with the handler model; a query without reply prints TIMEOUT, a second reply prints DUP.

func outcomeFor(seed uint64, id int) outcome {
	r := NewRng(seed*65537 + uint64(id))
	switch r.Intn(10) {
	case 0:
		return outcome{kind: "E"}
	default:
		n := 15 + r.Intn(1500)
		if r.Chance(10) {
			n = 12 + r.Intn(4000)
		}
		return outcome{kind: "S", n: n, salt: r.Intn(256)}
	}
}

type concRes struct {
	caseLine string
	out      string
}

func init() {
	areas["sockconc"] = func(c *Ctx) error {
		if replayLines() != nil {
			// a concurrent schedule cannot be replayed line by line; the sequential area does that
			return nil
		}
		seed := c.seed
		up := &scripted{pick: func(q query.Query) outcome { return outcomeFor(seed, int(q.ID)) }}
		srv, err := startServer(up, 64, 2*time.Second)
		if err != nil {
			return err
		}
		defer srv.stop()
		nUDP, nTCP := 12, 4
		per := c.n / (nUDP + nTCP)
		if per < 4 {
			per = 4
		}
		if per*(nUDP+nTCP) > 60000 {
			per = 60000 / (nUDP + nTCP)
		}
		var wg sync.WaitGroup
		results := make([][]concRes, nUDP+nTCP)
		nextID := 1
		for ci := 0; ci < nUDP+nTCP; ci++ {
			base := nextID
			nextID += per
			r := NewRng(c.seed*1000 + uint64(ci))
			wg.Add(1)
			if ci < nUDP {
				go func(ci, base int, r *Rng) {
					defer wg.Done()
					results[ci] = udpClientRun(srv.addr, seed, base, per, r)
				}(ci, base, r)
			} else {
				go func(ci, base int, r *Rng) {
					defer wg.Done()
					results[ci] = tcpClientRun(srv.addr, seed, base, per, r)
				}(ci, base, r)
			}
		}
		wg.Wait()
		for ci, rs := range results {
			for _, x := range rs {
				c.Emit(x.caseLine, x.out)
				if ci < nUDP {
					c.Stat("proto:udp")
				} else {
					c.Stat("proto:tcp")
				}
				switch x.out {
				case "TIMEOUT", "DUP":
					c.Stat("result:" + x.out)
				default:
					c.Stat("replied")
				}
			}
		}
		c.notes["clients"] = map[string]int{"udp": nUDP, "tcp_pipelined": nTCP, "queries_per_client": per}
		return nil
	}
}

func concQuery(r *Rng, id int) []byte {
	adv := advSizes[r.Intn(len(advSizes))]
	p := r.sockQuery(adv)
	p[0], p[1] = byte(id>>8), byte(id)
	return p
}

func udpClientRun(addr string, seed uint64, base, n int, r *Rng) []concRes {
	c, err := net.Dial("udp", addr)
	if err != nil {
		return nil
	}
	defer c.Close()
	const window = 4
	payloads := map[int][]byte{}
	replies := map[int][]string{}
	buf := make([]byte, 70000)
	sent, got := 0, 0
	outstanding := 0
	for got < n {
		for sent < n && outstanding < window {
			id := base + sent
			p := concQuery(r, id)
			payloads[id] = p
			_, _ = c.Write(p)
			sent++
			outstanding++
		}
		_ = c.SetReadDeadline(time.Now().Add(3 * time.Second))
		k, err := c.Read(buf)
		if err != nil {
			break // the remaining ones are reported as TIMEOUT
		}
		if k >= 2 {
			id := int(buf[0])<<8 | int(buf[1])
			replies[id] = append(replies[id], hx(buf[:k]))
			if len(replies[id]) == 1 {
				got++
				outstanding--
			}
		}
	}
	// a short grace period to catch duplicate replies
	_ = c.SetReadDeadline(time.Now().Add(50 * time.Millisecond))
	for {
		k, err := c.Read(buf)
		if err != nil {
			break
		}
		if k >= 2 {
			id := int(buf[0])<<8 | int(buf[1])
			replies[id] = append(replies[id], hx(buf[:k]))
		}
	}
	var out []concRes
	for i := 0; i < sent; i++ {
		id := base + i
		line := "udp " + hx(payloads[id]) + " " + outcomeFor(seed, id).String()
		switch len(replies[id]) {
		case 0:
			out = append(out, concRes{line, "TIMEOUT"})
		case 1:
			out = append(out, concRes{line, replies[id][0]})
		default:
			out = append(out, concRes{line, "DUP"})
		}
	}
	return out
}

func tcpClientRun(addr string, seed uint64, base, n int, r *Rng) []concRes {
	var out []concRes
	const pipeline = 8
	for start := 0; start < n; start += pipeline {
		end := start + pipeline
		if end > n {
			end = n
		}
		c, err := net.DialTimeout("tcp", addr, time.Second)
		if err != nil {
			return out
		}
		payloads := map[int][]byte{}
		for i := start; i < end; i++ {
			id := base + i
			p := concQuery(r, id)
			payloads[id] = p
			_, _ = c.Write(append(be16(len(p)), p...))
		}
		replies := map[int][]string{}
		for k := start; k < end; k++ {
			_ = c.SetReadDeadline(time.Now().Add(3 * time.Second))
			var l uint16
			if err := binary.Read(c, binary.BigEndian, &l); err != nil {
				break
			}
			body := make([]byte, l)
			if _, err := io.ReadFull(c, body); err != nil {
				break
			}
			if l >= 2 {
				id := int(body[0])<<8 | int(body[1])
				replies[id] = append(replies[id], hx(append(be16(int(l)), body...)))
			}
		}
		c.Close()
		for i := start; i < end; i++ {
			id := base + i
			line := "tcp " + hx(payloads[id]) + " " + outcomeFor(seed, id).String()
			switch len(replies[id]) {
			case 0:
				out = append(out, concRes{line, "TIMEOUT"})
			case 1:
				out = append(out, concRes{line, replies[id][0]})
			default:
				out = append(out, concRes{line, "DUP"})
			}
		}
	}
	return out
}
