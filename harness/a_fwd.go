package main

import (
	"context"
	"fmt"
	"strconv"
	"strings"

	"github.com/nextdns/nextdns/config"
	"github.com/nextdns/nextdns/resolver"
	"github.com/nextdns/nextdns/resolver/query"
)

// fwd area (C10): ordered forwarder lists x query names through the REAL config.Forwarders
// Set / Get / Resolve, with every upstream replaced by a recording resolver after Set.
//
//   fwd <catch:0|1> <name> <value>*   -> list=<String() of each entry> get=<index|none> calls=<indexes|-> ret=<n|noforwarder>
//   fmatch <domain> <name>            -> 0|1       (config.Resolver{Domain: domain}.Match(name))
//
// catch=1 appends the default upstream exactly as run.go does (a config.Resolver without Domain,
// after all configured forwarders); the shape of that block is also re-read from run.go by extract/.

type recResolver struct {
	idx   int
	calls *[]int
	fail  *bool // when set and true: the upstream is down
}

var errUpstreamDown = fmt.Errorf("scripted: upstream down")

func (r *recResolver) Resolve(ctx context.Context, q query.Query, buf []byte) (int, resolver.ResolveInfo, error) {
	*r.calls = append(*r.calls, r.idx)
	if r.fail != nil && *r.fail {
		return 0, resolver.ResolveInfo{}, errUpstreamDown
	}
	return 1000 + r.idx, resolver.ResolveInfo{}, nil
}

func joinOrDash(xs []string) string {
	if len(xs) == 0 {
		return "-"
	}
	return strings.Join(xs, ",")
}

func runFwd(catch bool, name string, vals []string) (line string, kind string) {
	return runFwdQ(catch, query.Query{Name: name}, vals)
}

// runFwdQ: as runFwd for a query value (fwdq: the query the proxy builds from a wire payload,
// parse error ignored exactly as proxy/udp.go and tcp.go do).
func runFwdQ(catch bool, qv query.Query, vals []string) (line string, kind string) {
	name := qv.Name
	defer func() {
		if x := recover(); x != nil {
			line, kind = fmt.Sprintf("PANIC %v", x), "panic"
		}
	}()
	var conf config.Forwarders
	for i, v := range vals {
		if err := conf.Set(v); err != nil {
			return fmt.Sprintf("set-error %d", i), "set-error"
		}
	}
	fw := conf
	if catch {
		// run.go: Append default doh server at the end of the forwarder list as a catch all.
		fw = make(config.Forwarders, 0, len(conf)+1)
		fw = append(fw, conf...)
		fw = append(fw, config.Resolver{Resolver: &recResolver{}})
	}
	var calls []int
	fail := false
	for i := range fw {
		fw[i].Resolver = &recResolver{idx: i, calls: &calls, fail: &fail}
	}
	var list []string
	for _, s := range fw.Strings() {
		list = append(list, hx([]byte(s)))
	}
	get := "none"
	kind = "none"
	if r := fw.Get(name); r != nil {
		idx := r.(*recResolver).idx
		get = strconv.Itoa(idx)
		kind = "forwarder"
		if fw[idx].Domain == "" {
			kind = "unconditional"
			if catch && idx == len(fw)-1 {
				kind = "default"
			}
		}
	}
	n, _, err := fw.Resolve(context.Background(), qv, nil)
	ret := strconv.Itoa(n)
	if err != nil {
		if n == -1 && strings.HasSuffix(err.Error(), "no forwarder defined") {
			ret = "noforwarder"
		} else {
			ret = "err:" + err.Error()
		}
	}
	var cs []string
	for _, c := range calls {
		cs = append(cs, strconv.Itoa(c))
	}
	// the same query with every upstream down: still exactly the chosen upstream, once, and its
	// error handed back (an internal name must not fail over to the next matching entry)
	calls, fail = nil, true
	_, _, ferr := fw.Resolve(context.Background(), qv, nil)
	fret := "ok"
	if ferr != nil {
		fret = "err"
		if strings.HasSuffix(ferr.Error(), "no forwarder defined") {
			fret = "noforwarder"
		}
	}
	var fcs []string
	for _, c := range calls {
		fcs = append(fcs, strconv.Itoa(c))
	}
	return fmt.Sprintf("list=%s get=%s calls=%s ret=%s fcalls=%s fret=%s", joinOrDash(list), get, joinOrDash(cs), ret, joinOrDash(fcs), fret), kind
}


// fwdseq <catch> <name,name,…> <rule>*: the names are resolved one after the other on ONE config.Forwarders value, as the
// daemon does for its whole life: where a name goes must not depend on what was asked before.  -> seq=<calls>/<calls>/…
func runFwdSeq(catch bool, names []string, vals []string) (line string) {
	defer func() {
		if x := recover(); x != nil {
			line = fmt.Sprintf("PANIC %v", x)
		}
	}()
	var conf config.Forwarders
	for i, v := range vals {
		if err := conf.Set(v); err != nil {
			return fmt.Sprintf("set-error %d", i)
		}
	}
	fw := conf
	if catch {
		fw = make(config.Forwarders, 0, len(conf)+1)
		fw = append(fw, conf...)
		fw = append(fw, config.Resolver{Resolver: &recResolver{}})
	}
	var calls []int
	for i := range fw {
		fw[i].Resolver = &recResolver{idx: i, calls: &calls}
	}
	// the reference for every name: the same rules set up afresh, asked this one name only
	alone := func(n string) string {
		var c2 config.Forwarders
		for _, v := range vals {
			_ = c2.Set(v)
		}
		f2 := c2
		if catch {
			f2 = append(append(make(config.Forwarders, 0, len(c2)+1), c2...), config.Resolver{Resolver: &recResolver{}})
		}
		var cl []int
		for i := range f2 {
			f2[i].Resolver = &recResolver{idx: i, calls: &cl}
		}
		_, _, _ = f2.Resolve(context.Background(), query.Query{Name: n}, nil)
		var cs []string
		for _, c := range cl {
			cs = append(cs, strconv.Itoa(c))
		}
		return joinOrDash(cs)
	}
	var outs []string
	for _, n := range names {
		calls = nil
		_, _, _ = fw.Resolve(context.Background(), query.Query{Name: n}, nil)
		var cs []string
		for _, c := range calls {
			cs = append(cs, strconv.Itoa(c))
		}
		outs = append(outs, joinOrDash(cs)+":"+alone(n))
	}
	return "seq=" + strings.Join(outs, "/")
}

func runFMatch(d, name string) (line string) {
	defer func() {
		if x := recover(); x != nil {
			line = fmt.Sprintf("PANIC %v", x)
		}
	}()
	if (config.Resolver{Domain: d}).Match(name) {
		return "1"
	}
	return "0"
}

// ---- generator

var fwLabels = []string{"corp", "notcorp", "internal", "a", "b", "eu", "example", "com", "co", "uk", "x-1", "a@b", "a`b", "z[", "z{", "Z", "k", "\xe2\x84\xaa", "caf\xc3\xa9", "caf\xc3\x89", "\xe9"}

// mix0x20 randomises the case of ASCII letters.
func (r *Rng) mix0x20(s string, p int) string {
	b := []byte(s)
	for i, c := range b {
		if r.Chance(p) {
			if c >= 'a' && c <= 'z' {
				b[i] = c - 32
			} else if c >= 'A' && c <= 'Z' {
				b[i] = c + 32
			}
		}
	}
	return string(b)
}

func (r *Rng) fwDomain() []string {
	n := 1 + r.Intn(3)
	if r.Chance(10) {
		n = 4
	}
	ls := make([]string, n)
	for i := range ls {
		k := len(fwLabels)
		if r.Chance(70) {
			k = 10 // mostly the plain labels
		}
		ls[i] = fwLabels[r.Intn(k)]
	}
	return ls
}

func (r *Rng) ws() string {
	switch r.Intn(10) {
	case 0:
		return " "
	case 1:
		return "\t "
	case 2:
		return "  "
	}
	return ""
}

var fwAddrs = []string{"192.0.2.1", "192.0.2.2:5353", "192.0.2.3,192.0.2.4", "https://doh.example/dns-query", "https://doh.example/q#192.0.2.9", "2001:db8::53", "[2001:db8::54]:53", "https://h.example/q?a=b"}

type fwCase struct {
	catch bool
	name  string
	vals  []string
}

func (r *Rng) genFwCase(c *Ctx) fwCase {
	var fc fwCase
	fc.catch = !r.Chance(12)
	nrules := r.Intn(6)
	if r.Chance(5) {
		nrules = 6 + r.Intn(6)
	}
	var doms [][]string
	for i := 0; i < nrules; i++ {
		addr := fwAddrs[r.Intn(len(fwAddrs))]
		k := r.Intn(100)
		switch {
		case k < 8: // domain-less entry (must not contain '=')
			for strings.Contains(addr, "=") {
				addr = fwAddrs[r.Intn(len(fwAddrs))]
			}
			fc.vals = append(fc.vals, addr)
			c.Stat("rule:domainless")
			continue
		case k < 11: // root domain
			fc.vals = append(fc.vals, r.ws()+[]string{".", ""}[r.Intn(2)]+r.ws()+"="+r.ws()+addr)
			c.Stat("rule:root")
			continue
		}
		var ls []string
		switch {
		case len(doms) > 0 && k < 35: // nested under an earlier domain
			ls = append([]string{fwLabels[r.Intn(10)]}, doms[r.Intn(len(doms))]...)
			c.Stat("rule:nested-child")
		case len(doms) > 0 && k < 50 && len(doms[len(doms)-1]) > 1: // parent of an earlier domain
			d := doms[r.Intn(len(doms))]
			ls = d[1:]
			if len(ls) == 0 {
				ls = d
			}
			c.Stat("rule:nested-parent")
		case len(doms) > 0 && k < 58: // same domain again (Set replaces, possibly other case)
			ls = doms[r.Intn(len(doms))]
			c.Stat("rule:duplicate")
		default:
			ls = r.fwDomain()
			c.Stat("rule:fresh")
		}
		doms = append(doms, ls)
		d := strings.Join(ls, ".")
		if r.Chance(50) {
			d += "."
		}
		if r.Chance(3) {
			d = strings.Replace(d, ".", "..", 1) // malformed: empty label
			c.Stat("rule:empty-label")
		}
		if r.Chance(40) {
			d = r.mix0x20(d, 50)
			c.Stat("rule:mixed-case")
		}
		fc.vals = append(fc.vals, r.ws()+d+r.ws()+"="+r.ws()+addr+r.ws())
	}
	// the name
	k := r.Intn(100)
	var name string
	switch {
	case len(doms) > 0 && r.Chance(4):
		// the LONGEST names there are: 253 or 254 bytes of text with the trailing dot (255 octets on the wire is the
		// limit), below a rule domain - labels of 63 bytes in front of it, the last one cut to fit
		d := strings.Join(doms[r.Intn(len(doms))], ".") + "."
		want := 253 + r.Intn(2)
		var pre []string
		left := want - len(d)
		for left > 1 {
			n := 63
			if left-1 < n {
				n = left - 1
			}
			pre = append(pre, strings.Repeat(string(rune('a'+r.Intn(26))), n))
			left -= n + 1
		}
		if len(pre) > 0 {
			name = strings.Join(pre, ".") + "." + d
		} else {
			name = d
		}
		c.Stat(fmt.Sprintf("name:longest-%d", len(name)))
	case len(doms) > 0 && k < 25: // exactly a rule domain
		name = strings.Join(doms[r.Intn(len(doms))], ".") + "."
		c.Stat("name:equal")
	case len(doms) > 0 && k < 55: // below a rule domain
		d := doms[r.Intn(len(doms))]
		pre := []string{}
		for i := 0; i <= r.Intn(2); i++ {
			pre = append(pre, fwLabels[r.Intn(len(fwLabels))])
		}
		name = strings.Join(append(pre, d...), ".") + "."
		c.Stat("name:sub")
	case len(doms) > 0 && k < 70: // shares only a string suffix with a rule domain
		d := strings.Join(doms[r.Intn(len(doms))], ".") + "."
		switch r.Intn(4) {
		case 0:
			name = "not" + d
		case 1:
			name = d[1:]
		case 2:
			name = "x" + d[strings.IndexByte(d, '.'):] // other first label
		default:
			name = "a.not" + d
		}
		if name == "" {
			name = "."
		}
		c.Stat("name:string-suffix")
	case len(doms) > 0 && k < 78: // parent of a rule domain
		d := doms[r.Intn(len(doms))]
		name = strings.Join(d[1:], ".") + "."
		if len(d) == 1 {
			name = "."
		}
		c.Stat("name:parent")
	case k >= 78 && k < 82:
		name = "."
		c.Stat("name:root")
	default:
		name = strings.Join(r.fwDomain(), ".") + "."
		c.Stat("name:fresh")
	}
	if r.Chance(50) {
		name = r.mix0x20(name, 50)
		c.Stat("name:0x20")
	}
	if r.Chance(8) {
		// flip bit 0x20 of the non-letters next to the letter ranges: these must NOT be folded
		b := []byte(name)
		hit := false
		for i, ch := range b {
			if ch == 0x40 || ch == 0x60 || (ch >= 0x5b && ch <= 0x5f) || (ch >= 0x7b && ch <= 0x7f) {
				b[i] = ch ^ 0x20
				hit = true
			}
		}
		if hit {
			name = string(b)
			c.Stat("name:xor20-nonletter")
		}
	}
	if r.Chance(3) {
		switch r.Intn(3) {
		case 0:
			name = strings.TrimSuffix(name, ".") // not absolute
			c.Stat("name:malformed-nodot")
		case 1:
			name = strings.Replace(name, ".", "..", 1)
			c.Stat("name:malformed-empty-label")
		default:
			name = ""
			c.Stat("name:malformed-empty")
		}
	}
	fc.name = name
	return fc
}

func fwCaseLine(fc fwCase) string {
	var sb strings.Builder
	sb.WriteString("fwd ")
	if fc.catch {
		sb.WriteString("1 ")
	} else {
		sb.WriteString("0 ")
	}
	sb.WriteString(hx([]byte(fc.name)))
	for _, v := range fc.vals {
		sb.WriteByte(' ')
		sb.WriteString(hx([]byte(v)))
	}
	return sb.String()
}

func init() {
	areas["fwd"] = func(c *Ctx) error {
		runLine := func(l string) {
			f := strings.Split(l, " ")
			switch {
			case len(f) == 3 && f[0] == "fmatch":
				c.Emit(l, runFMatch(string(unhx(f[1])), string(unhx(f[2]))))
			case len(f) >= 3 && f[0] == "fwd" && (f[1] == "0" || f[1] == "1"):
				var vals []string
				for _, t := range f[3:] {
					vals = append(vals, string(unhx(t)))
				}
				out, kind := runFwd(f[1] == "1", string(unhx(f[2])), vals)
				c.Emit(l, out)
				c.Stat("out:" + kind)
			case len(f) >= 3 && f[0] == "fwdq" && (f[1] == "0" || f[1] == "1"):
				var vals []string
				for _, t := range f[3:] {
					vals = append(vals, string(unhx(t)))
				}
				// proxy/udp.go, tcp.go: `q, err := query.New(…); if err != nil { log }` and the query is resolved anyway
				q, _ := query.New(unhx(f[2]), loopback, loopback)
				out, kind := runFwdQ(f[1] == "1", q, vals)
				c.Emit(l, out)
				c.Stat("outq:" + kind)
			case len(f) >= 3 && f[0] == "fwdseq" && (f[1] == "0" || f[1] == "1"):
				var vals, names []string
				for _, t := range f[3:] {
					vals = append(vals, string(unhx(t)))
				}
				for _, t := range strings.Split(f[2], ",") {
					names = append(names, string(unhx(t)))
				}
				c.Emit(l, runFwdSeq(f[1] == "1", names, vals))
			default:
				c.Emit(l, "bad-case")
			}
		}
		if ls := replayLines(); ls != nil {
			for _, l := range ls {
				runLine(l)
			}
			return nil
		}
		r := NewRng(c.seed)
		for i := 0; i < c.n; i++ {
			fc := r.genFwCase(c)
			runLine(fwCaseLine(fc))
			if r.Chance(25) && len(fc.name) > 1 && len(fc.name) <= 254 && !strings.Contains(fc.name, "..") {
				// the same name as a WIRE query through query.New: clean, with an EDNS record, and with an
				// additional section that does not parse (the question is fine: routing must not change)
				labels := strings.Split(strings.TrimSuffix(fc.name, "."), ".")
				okl := true
				for _, l := range labels {
					if len(l) == 0 || len(l) > 63 {
						okl = false
					}
				}
				if okl {
					// the question's type and class vary (DS, DNSKEY, NS, SOA, ANY, HTTPS, CH …): the upstream a name
					// goes to depends on the NAME alone
					qt := r.Pick([]int{1, 1, 28, 12, 16, 15, 2, 6, 43, 43, 48, 46, 47, 33, 65, 255, 257, 5, 39})
					qc := r.Pick([]int{1, 1, 1, 1, 3, 4, 255})
					body := append(wireName(labels...), byte(qt>>8), byte(qt), byte(qc>>8), byte(qc))
					c.Stat(fmt.Sprintf("fwdq:type-%d", qt))
					ar := 0
					switch r.Intn(4) {
					case 0:
						c.Stat("fwdq:plain")
					case 1:
						body = append(body, packRR(rrSpec{name: []byte{0}, typ: 41, class: 1232, rdata: packOpts([]optSpec{{code: 10, data: r.Bytes(8)}})})...)
						ar = 1
						c.Stat("fwdq:opt")
					case 2:
						ar = 1 // ARCOUNT says one record, nothing follows
						c.Stat("fwdq:missing-additional")
					default:
						body = append(body, packRR(rrSpec{name: []byte{0}, typ: 41, class: 1232, rdata: packOpts([]optSpec{{code: 8, data: r.Bytes(6), lenDelta: 40}})})...)
						ar = 1
						c.Stat("fwdq:option-overrun")
					}
					pl := append(be16(r.Intn(65536)), 1, 0, 0, 1, 0, 0, 0, 0, 0, byte(ar))
					pl = append(pl, body...)
					var sb strings.Builder
					fmt.Fprintf(&sb, "fwdq %s %s", map[bool]string{true: "1", false: "0"}[fc.catch], hx(pl))
					for _, v := range fc.vals {
						sb.WriteString(" " + hx([]byte(v)))
					}
					runLine(sb.String())
				}
			}
			if r.Chance(10) && len(fc.vals) > 1 {
				// a SEQUENCE of names on one forwarder list: the case's name, names right under and at the rules' domains
				// (most specific and broader ones interleaved), the case's name again
				var ns []string
				ns = append(ns, fc.name)
				for k := 0; k < 2+r.Intn(4); k++ {
					v := fc.vals[r.Intn(len(fc.vals))]
					d := ""
					if i := strings.IndexByte(v, '='); i >= 0 {
						d = strings.TrimSpace(v[:i])
					}
					switch r.Intn(3) {
					case 0:
						ns = append(ns, r.mix0x20(d, 30))
					case 1:
						ns = append(ns, "h"+strconv.Itoa(k)+"."+r.mix0x20(d, 30))
					default:
						ns = append(ns, fc.name)
					}
				}
				okn := true
				var hs []string
				for _, n := range ns {
					if n == "" || strings.Contains(n, ",") || strings.Contains(n, " ") {
						okn = false
					}
					hs = append(hs, hx([]byte(n)))
				}
				if okn {
					var sb strings.Builder
					fmt.Fprintf(&sb, "fwdseq %s %s", map[bool]string{true: "1", false: "0"}[fc.catch], strings.Join(hs, ","))
					for _, v := range fc.vals {
						sb.WriteString(" " + hx([]byte(v)))
					}
					c.Stat("op:fwdseq")
					runLine(sb.String())
				}
			}
			if r.Chance(30) && len(fc.vals) > 0 {
				// the same name against one rule's domain directly (Resolver.Match)
				v := fc.vals[r.Intn(len(fc.vals))]
				d := ""
				if i := strings.IndexByte(v, '='); i >= 0 {
					d = strings.TrimSpace(v[:i])
					if !strings.HasSuffix(d, ".") {
						d += "."
					}
				}
				runLine("fmatch " + hx([]byte(d)) + " " + hx([]byte(fc.name)))
				c.Stat("op:fmatch")
			}
		}
		return nil
	}
}
