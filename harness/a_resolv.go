package main

import (
	"bytes"
	"errors"
	"fmt"
	"os"
	"os/exec"
	"path/filepath"
	"runtime"
	"strconv"
	"strings"
	"syscall"

	"github.com/nextdns/nextdns/host"
)

// resolv area (C19): the real host.SetDNS / host.ResetDNS run against a private /etc.
//
// Jail: the area re-executes the harness binary in a new mount namespace (CLONE_NEWNS) and
// bind-mounts a fresh temporary directory over /etc; nothing outside that namespace can see or be
// affected by what the operations do, and every operation first checks a sentinel file so that it can
// never run against the real /etc.  NetworkManager's conf.d does not exist in the jail, so the
// NetworkManager half of SetDNS/ResetDNS returns nil (stated in the model).
//
// Crash points: an operation that is to crash runs in a child process (`nvh resolv-op …`, main
// goroutine locked to the main thread) under
//   strace -P <the three names> -e inject=<family>:signal=KILL:when=<j>
// which kills the process on ENTRY of the j-th system call of that family touching one of the three
// names (the call is not performed).  strace counts per system call, hence the (family, j) form.
//
// case line:  rc orig=<node|?> live=<node> bak=<node> tmp=<node> ext=<ext> op=<op> crash=<crash>
// impl line:  st=<ok|errOpen|errScan|killed|…> live=<node> bak=<node> tmp=<node> ext=<ok|CHANGED>
// (same format as NV.Driver.FS).

const (
	rcLive     = "/etc/resolv.conf"
	rcBak      = "/etc/resolv.conf.nextdns-bak"
	rcTmp      = "/etc/resolv.conf.nextdns-tmp"
	rcSentinel = "/etc/.nvjail"
)

// symlink targets the generator uses; each resolves to a distinct file inside the jail
var rcTargets = []string{"stub-resolv.conf", "/etc/run/resolve/resolv.conf", "../etc/alt/resolv.conf", "dangling.conf"}

func rcTargetPath(t string) string {
	if strings.HasPrefix(t, "/") {
		return filepath.Clean(t)
	}
	return filepath.Clean(filepath.Join("/etc", t))
}

type rcNode struct {
	kind byte // 'A' absent, 'F' file, 'L' symlink
	data []byte
}

func (n rcNode) String() string {
	if n.kind == 'A' || n.kind == 'X' {
		return string(n.kind)
	}
	return string(n.kind) + ":" + hx(n.data)
}

func rcParseNode(s string) (rcNode, bool) {
	if s == "A" {
		return rcNode{kind: 'A'}, true
	}
	if len(s) > 2 && (s[0] == 'F' || s[0] == 'L') && s[1] == ':' {
		b, ok := rcUnhex(s[2:])
		return rcNode{kind: s[0], data: b}, ok
	}
	return rcNode{}, false
}

func rcUnhex(s string) (b []byte, ok bool) {
	defer func() {
		if recover() != nil {
			ok = false
		}
	}()
	return unhx(s), true
}

type rcExt struct{ target, content []byte }

func rcExtStr(e []rcExt) string {
	if len(e) == 0 {
		return "-"
	}
	var p []string
	for _, x := range e {
		p = append(p, hx(x.target)+":"+hx(x.content))
	}
	return strings.Join(p, ",")
}

func rcParseExt(s string) ([]rcExt, bool) {
	if s == "-" {
		return nil, true
	}
	var out []rcExt
	for _, p := range strings.Split(s, ",") {
		tc := strings.Split(p, ":")
		if len(tc) != 2 {
			return nil, false
		}
		t, ok1 := rcUnhex(tc[0])
		c, ok2 := rcUnhex(tc[1])
		if !ok1 || !ok2 {
			return nil, false
		}
		out = append(out, rcExt{t, c})
	}
	return out, true
}

type rcState struct {
	live, bak, tmp rcNode
	ext            []rcExt
}

func rcJailOK() bool {
	b, err := os.ReadFile(rcSentinel)
	return err == nil && len(b) > 0 && string(b) == os.Getenv("NVH_JAIL_TOKEN")
}

func rcPutNode(path string, n rcNode) error {
	_ = os.Remove(path)
	switch n.kind {
	case 'A':
		return nil
	case 'F':
		return os.WriteFile(path, n.data, 0644)
	case 'L':
		return os.Symlink(string(n.data), path)
	}
	return errors.New("bad node")
}

func rcGetNode(path string) rcNode {
	st, err := os.Lstat(path)
	if err != nil {
		return rcNode{kind: 'A'}
	}
	if st.Mode()&os.ModeSymlink != 0 {
		t, _ := os.Readlink(path)
		return rcNode{kind: 'L', data: []byte(t)}
	}
	if st.Mode().IsRegular() {
		b, _ := os.ReadFile(path)
		return rcNode{kind: 'F', data: b}
	}
	return rcNode{kind: 'X'}
}

func rcKnownTarget(t string) bool {
	for _, k := range rcTargets {
		if k == t {
			return true
		}
	}
	return false
}

func rcPutExt(ext []rcExt) error {
	for _, t := range rcTargets {
		_ = os.Remove(rcTargetPath(t))
	}
	for _, e := range ext {
		if !rcKnownTarget(string(e.target)) {
			return errors.New("bad-target")
		}
		p := rcTargetPath(string(e.target))
		if err := os.MkdirAll(filepath.Dir(p), 0755); err != nil {
			return err
		}
		if err := os.WriteFile(p, e.content, 0644); err != nil {
			return err
		}
	}
	return nil
}

func rcExtUnchanged(ext []rcExt) bool {
	in := map[string][]byte{}
	for _, e := range ext {
		in[string(e.target)] = e.content
	}
	for _, t := range rcTargets {
		b, err := os.ReadFile(rcTargetPath(t))
		want, ok := in[t]
		if ok != (err == nil) || (ok && !bytes.Equal(b, want)) {
			return false
		}
	}
	return true
}

func rcPutState(s rcState) error {
	if !rcJailOK() {
		return errors.New("not in jail")
	}
	if err := rcPutExt(s.ext); err != nil {
		return err
	}
	if err := rcPutNode(rcLive, s.live); err != nil {
		return err
	}
	if err := rcPutNode(rcBak, s.bak); err != nil {
		return err
	}
	return rcPutNode(rcTmp, s.tmp)
}

func rcClassify(err error) string {
	if err == nil {
		return "ok"
	}
	m := err.Error()
	switch {
	case strings.Contains(m, "open "+rcLive+":"):
		return "errOpen"
	case strings.Contains(m, "token too long"):
		return "errScan"
	}
	return "err:" + strings.Map(func(r rune) rune {
		if r <= ' ' || r > '~' {
			return '_'
		}
		return r
	}, m)
}

// rcDo runs the real operation in this process (jail verified first).
func rcDo(op string, dns []byte) (st string) {
	if !rcJailOK() {
		return "NOJAIL"
	}
	defer func() {
		if x := recover(); x != nil {
			st = fmt.Sprintf("PANIC_%v", x)
		}
	}()
	if op == "A" || op == "D" {
		// NetworkManager is installed (its conf.d exists) and reloading it FAILS (no systemctl on
		// PATH): the resolv.conf half of activation / deactivation must not depend on that
		if err := os.MkdirAll(rcNMDir, 0755); err != nil {
			return "harness:" + err.Error()
		}
		old := os.Getenv("PATH")
		os.Setenv("PATH", "/nonexistent-nvjail-bin")
		defer os.Setenv("PATH", old)
		var err error
		if op == "A" {
			err = host.SetDNS(string(dns))
		} else {
			err = host.ResetDNS()
		}
		if err != nil && strings.Contains(err.Error(), "NetworkManager resolver management") {
			return "errNM"
		}
		return rcClassify(err)
	}
	if op == "a" {
		return rcClassify(host.SetDNS(string(dns)))
	}
	return rcClassify(host.ResetDNS())
}

const rcNMDir = "/etc/NetworkManager/conf.d"
const rcNMFile = rcNMDir + "/nextdns.conf"

// child mode: `nvh resolv-op a <dnshex>` | `nvh resolv-op d`
func init() {
	if len(os.Args) >= 3 && os.Args[1] == "resolv-op" {
		runtime.LockOSThread()
		var dns []byte
		if os.Args[2] == "a" && len(os.Args) >= 4 {
			dns = unhx(os.Args[3])
		}
		fmt.Println(rcDo(os.Args[2], dns))
		os.Exit(0)
	}
}

var rcFamilies = map[byte]string{
	'o': "open,openat,creat",
	'u': "unlink,unlinkat,rmdir",
	'w': "write,writev,pwrite64",
	'r': "rename,renameat,renameat2",
}

// rcDoCrash runs the operation in a traced child that is killed on entry of the j-th call of the family
// (family 'e': not a kill — every write from the j-th on fails with ENOSPC).
func rcDoCrash(op string, dns []byte, fam byte, j int) string {
	if !rcJailOK() {
		return "NOJAIL"
	}
	self, err := os.Executable()
	if err != nil {
		return "err:self"
	}
	set := rcFamilies[fam]
	inj := fmt.Sprintf("inject=%s:signal=KILL:when=%d", set, j)
	if fam == 'e' {
		set = rcFamilies['w']
		inj = fmt.Sprintf("inject=%s:error=ENOSPC:when=%d+", set, j)
	}
	args := []string{"-o", "/dev/null", "-P", rcLive, "-P", rcBak, "-P", rcTmp, "-e", "trace=" + set,
		"-e", inj, self, "resolv-op", op}
	if op == "a" {
		args = append(args, hx(dns))
	}
	cmd := exec.Command("strace", args...)
	var out, serr bytes.Buffer
	cmd.Stdout = &out
	cmd.Stderr = &serr // strace's own notes ("Requested path … resolved into …")
	err = cmd.Run()
	if err != nil {
		var ee *exec.ExitError
		if errors.As(err, &ee) {
			if ws, ok := ee.Sys().(syscall.WaitStatus); ok && ws.Signaled() && ws.Signal() == syscall.SIGKILL {
				return "killed"
			}
		}
		return "err:strace_" + rcToken(err.Error()+"_"+serr.String())
	}
	return rcToken(strings.TrimSpace(out.String()))
}

func rcToken(s string) string {
	return strings.Map(func(r rune) rune {
		if r <= ' ' || r > '~' {
			return '_'
		}
		return r
	}, s)
}

// rcRunCase executes one case line and returns the canonical implementation line and the state reached.
func rcRunCase(line string) (string, rcState, bool) {
	var z rcState
	f := strings.Split(line, " ")
	if (len(f) != 8 && len(f) != 9) || f[0] != "rc" {
		return "bad-op", z, false
	}
	get := func(i int, key string) (string, bool) {
		if i >= len(f) || !strings.HasPrefix(f[i], key+"=") {
			return "", false
		}
		return f[i][len(key)+1:], true
	}
	var s rcState
	var ok bool
	var v string
	if _, ok = get(1, "orig"); !ok {
		return "bad-op", z, false
	}
	if v, ok = get(2, "live"); ok {
		s.live, ok = rcParseNode(v)
	}
	if !ok {
		return "bad-op", z, false
	}
	if v, ok = get(3, "bak"); ok {
		s.bak, ok = rcParseNode(v)
	}
	if !ok {
		return "bad-op", z, false
	}
	if v, ok = get(4, "tmp"); ok {
		s.tmp, ok = rcParseNode(v)
	}
	if !ok {
		return "bad-op", z, false
	}
	if v, ok = get(5, "ext"); ok {
		s.ext, ok = rcParseExt(v)
	}
	if !ok {
		return "bad-op", z, false
	}
	op, ok1 := get(6, "op")
	cr, ok2 := get(7, "crash")
	if !ok1 || !ok2 {
		return "bad-op", z, false
	}
	var fam byte
	j := 0
	if cr != "-" {
		if len(cr) < 2 || (rcFamilies[cr[0]] == "" && cr[0] != 'e') {
			return "bad-op", z, false
		}
		n, err := strconv.Atoi(cr[1:])
		if err != nil || n < 1 {
			return "bad-op", z, false
		}
		fam, j = cr[0], n
	}
	if err := rcPutState(s); err != nil {
		return "harness:" + err.Error(), z, false
	}
	nmTok, hasNM := get(8, "nm")
	if hasNM {
		_ = os.MkdirAll(rcNMDir, 0755)
		_ = os.Remove(rcNMFile)
		if nmTok == "1" {
			_ = os.WriteFile(rcNMFile, []byte("[main]\ndns=none\n"), 0644)
		}
	} else {
		_ = os.RemoveAll("/etc/NetworkManager")
	}
	var st string
	ext := s.ext
	switch {
	case op == "D" && hasNM && j == 0:
		st = rcDo("D", nil)
	case strings.HasPrefix(op, "A:") && hasNM && j == 0:
		dns, ok := rcUnhex(op[2:])
		if !ok {
			return "bad-op", z, false
		}
		st = rcDo("A", dns)
	case op == "d":
		if j > 0 {
			st = rcDoCrash("d", nil, fam, j)
		} else {
			st = rcDo("d", nil)
		}
	case strings.HasPrefix(op, "a:"):
		dns, ok := rcUnhex(op[2:])
		if !ok {
			return "bad-op", z, false
		}
		if j > 0 {
			st = rcDoCrash("a", dns, fam, j)
		} else {
			st = rcDo("a", dns)
		}
	case strings.HasPrefix(op, "e:"):
		e, ok := rcParseExt(op[2:])
		if !ok || j > 0 {
			return "bad-op", z, false
		}
		if err := rcPutExt(e); err != nil {
			return "harness:" + err.Error(), z, false
		}
		ext = e
		st = "ok"
	default:
		return "bad-op", z, false
	}
	after := rcState{live: rcGetNode(rcLive), bak: rcGetNode(rcBak), tmp: rcGetNode(rcTmp), ext: ext}
	es := "ok"
	if !rcExtUnchanged(ext) {
		es = "CHANGED"
	}
	if hasNM {
		nm := "0"
		if _, err := os.Stat(rcNMFile); err == nil {
			nm = "1"
		}
		return fmt.Sprintf("st=%s live=%s bak=%s tmp=%s ext=%s nm=%s", st, after.live, after.bak, after.tmp, es, nm), after, true
	}
	return fmt.Sprintf("st=%s live=%s bak=%s tmp=%s ext=%s", st, after.live, after.bak, after.tmp, es), after, true
}

func rcCaseLine(orig string, s rcState, op, crash string) string {
	return fmt.Sprintf("rc orig=%s live=%s bak=%s tmp=%s ext=%s op=%s crash=%s", orig, s.live, s.bak, s.tmp, rcExtStr(s.ext), op, crash)
}

// ---------------------------------------------------------------- generator

var rcDNS = []string{"127.0.0.1", "::1", "192.168.1.1", "10.0.0.53", "fd00::53", "2001:db8::1", "::ffff:127.0.0.1", "127.0.0.53"}

var rcDirectiveLines = []string{
	"search example.com corp.example.com", "domain lan", "options ndots:2 timeout:1 attempts:3", "options edns0 trust-ad",
	"sortlist 130.155.160.0/255.255.240.0 130.155.0.0", "options rotate", "lookup file bind", "family inet4",
	"NAMESERVER 9.9.9.9", "nameserverx 1.2.3.4", "nameservers 1.2.3.4", "; semicolon comment", "search\tlocal\thome",
}
var rcNsLines = []string{
	"nameserver 1.1.1.1", "nameserver 8.8.8.8", "nameserver 192.168.1.1", "nameserver 2001:4860:4860::8888",
	"nameserver fe80::1%eth0", "nameserver  9.9.9.9", "nameserver 127.0.0.53",
}
var rcOddNsLines = []string{
	"nameserver\t1.2.3.4", "nameserver\t\t8.8.4.4", "nameserver", "nameserver\v1.0.0.1", "nameserver\f1.0.0.2",
	"nameserver\r1.0.0.3", "nameserver\u00a01.0.0.4", "nameserver\u20031.0.0.5", "nameserver\u30001.0.0.6",
	"nameserver\u00851.0.0.7", "nameserver\xc21.0.0.8", "nameserver\xe2\x801.0.0.9", "nameserver\x001.0.1.0",
}
var rcCommentLines = []string{"# Generated by NetworkManager", "#", "#nameserver 1.1.1.1", "# search foo", "  # indented comment", "\t#tab comment"}
var rcWs = []string{" ", "\t", "  ", "\v", "\f", "\r", "\u00a0", "\u2003", "\u3000", "\u0085", "\u1680", "\u2028", "\u202f", "\u205f"}

func rcGenLine(c *Ctx, r *Rng) []byte {
	var l string
	k := r.Intn(100)
	switch {
	case k < 25:
		l = rcDirectiveLines[r.Intn(len(rcDirectiveLines))]
		c.Stat("line:directive")
	case k < 50:
		l = rcNsLines[r.Intn(len(rcNsLines))]
		c.Stat("line:nameserver")
	case k < 62:
		l = rcOddNsLines[r.Intn(len(rcOddNsLines))]
		c.Stat("line:nameserver-odd-separator")
	case k < 77:
		l = rcCommentLines[r.Intn(len(rcCommentLines))]
		c.Stat("line:comment")
	case k < 84:
		l = ""
		c.Stat("line:blank")
	case k < 89:
		l = rcWs[r.Intn(len(rcWs))] + rcWs[r.Intn(len(rcWs))]
		c.Stat("line:whitespace-only")
	case k < 94:
		c.Stat("line:random-bytes")
		b := r.Bytes(1 + r.Intn(12))
		for i := range b {
			if b[i] == '\n' {
				b[i] = 'x'
			}
		}
		return b
	default:
		c.Stat("line:printable-random")
		n := 1 + r.Intn(20)
		b := make([]byte, n)
		for i := range b {
			b[i] = byte(0x20 + r.Intn(0x5f))
		}
		return b
	}
	if r.Chance(20) {
		l = rcWs[r.Intn(len(rcWs))] + l
		c.Stat("line:+leading-ws")
	}
	if r.Chance(20) {
		l = l + rcWs[r.Intn(len(rcWs))]
		c.Stat("line:+trailing-ws")
	}
	return []byte(l)
}

func rcGenContent(c *Ctx, r *Rng) []byte {
	k := r.Intn(100)
	if k < 4 {
		c.Stat("content:empty")
		return nil
	}
	if k < 8 {
		// boundary lengths of bufio.Scanner: initial buffer 4096, token limit 65536
		sizes := []int{4095, 4096, 4097, 65534, 65535, 65536, 65537}
		n := sizes[r.Intn(len(sizes))]
		c.Stat(fmt.Sprintf("content:long-line-%d", n))
		var b bytes.Buffer
		b.WriteString("search a.example\n")
		pos := r.Intn(3)
		if pos == 0 {
			b.Reset()
		}
		b.WriteString("options ")
		b.Write(bytes.Repeat([]byte{'x'}, n-8))
		switch r.Intn(3) {
		case 0:
			b.WriteString("\n")
		case 1:
			b.WriteString("\nnameserver 1.1.1.1\ndomain after\n")
		}
		return b.Bytes()
	}
	nl := 1 + r.Intn(7)
	eol := "\n"
	if r.Chance(12) {
		eol = "\r\n"
		c.Stat("content:crlf")
	}
	var b bytes.Buffer
	for i := 0; i < nl; i++ {
		b.Write(rcGenLine(c, r))
		if i == nl-1 && r.Chance(20) {
			c.Stat("content:no-final-newline")
			break
		}
		if r.Chance(4) {
			b.WriteString("\r\r\n")
		} else {
			b.WriteString(eol)
		}
	}
	c.Stat("content:lines")
	return b.Bytes()
}

func rcGenExtFor(c *Ctx, r *Rng, target string) []rcExt {
	var e []rcExt
	if target != "" && target != "dangling.conf" {
		e = append(e, rcExt{[]byte(target), rcGenContent(c, r)})
	}
	if r.Chance(15) {
		t := rcTargets[r.Intn(3)]
		if t != target {
			e = append(e, rcExt{[]byte(t), rcGenContent(c, r)})
		}
	}
	return e
}

func rcGenCrash(r *Rng) string {
	fam := "ouwr"[r.Intn(4)]
	max := map[byte]int{'o': 3, 'u': 3, 'w': 12, 'r': 3}[fam]
	return fmt.Sprintf("%c%d", fam, 1+r.Intn(max))
}

func rcGenOp(c *Ctx, r *Rng, s rcState) string {
	k := r.Intn(100)
	if s.bak.kind == 'L' && len(s.ext) > 0 && r.Chance(30) {
		// the backup is a symlink (systemd-resolved style original): its target vanishes (reboot clears /run)
		c.Stat("op:env-backup-target-vanishes")
		var e []rcExt
		for _, x := range s.ext {
			if !bytes.Equal(x.target, s.bak.data) {
				e = append(e, x)
			}
		}
		return "e:" + rcExtStr(e)
	}
	switch {
	case k < 58:
		c.Stat("op:activate")
		dns := rcDNS[r.Intn(len(rcDNS))]
		if strings.Contains(dns, ":") {
			c.Stat("op:activate-ipv6")
		}
		return "a:" + hx([]byte(dns))
	case k < 88:
		c.Stat("op:deactivate")
		return "d"
	default:
		c.Stat("op:env-change")
		// the files symlinks resolve to change: vanish (reboot clears /run), get rewritten, or come back
		var e []rcExt
		for _, x := range s.ext {
			switch r.Intn(3) {
			case 0: // vanishes
			case 1:
				e = append(e, rcExt{x.target, rcGenContent(c, r)})
			default:
				e = append(e, x)
			}
		}
		if len(s.ext) == 0 || r.Chance(25) {
			t := rcTargets[r.Intn(3)]
			dup := false
			for _, x := range e {
				if string(x.target) == t {
					dup = true
				}
			}
			if !dup {
				e = append(e, rcExt{[]byte(t), rcGenContent(c, r)})
			}
		}
		return "e:" + rcExtStr(e)
	}
}

func rcGenNode(c *Ctx, r *Rng, what string, pAbsent, pFile, pLink int) (rcNode, string) {
	k := r.Intn(100)
	switch {
	case k < pAbsent:
		c.Stat(what + ":absent")
		return rcNode{kind: 'A'}, ""
	case k < pAbsent+pFile:
		c.Stat(what + ":file")
		return rcNode{kind: 'F', data: rcGenContent(c, r)}, ""
	case k < pAbsent+pFile+pLink:
		t := rcTargets[r.Intn(3)]
		c.Stat(what + ":symlink")
		return rcNode{kind: 'L', data: []byte(t)}, t
	default:
		c.Stat(what + ":dangling-symlink")
		return rcNode{kind: 'L', data: []byte("dangling.conf")}, "dangling.conf"
	}
}

func resolvArea(c *Ctx) error {
	// ---- enter the jail: re-exec in a private mount namespace with a temp dir bound over /etc
	if os.Getenv("NVH_JAIL_DIR") == "" {
		dir, err := os.MkdirTemp("", "nvjail-")
		if err != nil {
			return err
		}
		defer os.RemoveAll(dir)
		c.cases.Flush()
		c.impl.Flush()
		self, err := os.Executable()
		if err != nil {
			return err
		}
		cmd := exec.Command(self, os.Args[1:]...)
		cmd.Env = append(os.Environ(), "NVH_JAIL_DIR="+dir, fmt.Sprintf("NVH_JAIL_TOKEN=jail-%d-%d", os.Getpid(), c.seed))
		cmd.Stdout, cmd.Stderr = os.Stdout, os.Stderr
		cmd.SysProcAttr = &syscall.SysProcAttr{Unshareflags: syscall.CLONE_NEWNS}
		err = cmd.Run()
		os.RemoveAll(dir)
		if err != nil {
			fmt.Fprintln(os.Stderr, "jailed run:", err)
			os.Exit(3)
		}
		// the jailed process wrote cases/impl/stats; do not overwrite them on Close
		os.Exit(0)
	}
	dir := os.Getenv("NVH_JAIL_DIR")
	if err := os.WriteFile(filepath.Join(dir, ".nvjail"), []byte(os.Getenv("NVH_JAIL_TOKEN")), 0644); err != nil {
		return err
	}
	if err := syscall.Mount(dir, "/etc", "", syscall.MS_BIND, ""); err != nil {
		return fmt.Errorf("bind mount over /etc: %v", err)
	}
	if !rcJailOK() {
		return errors.New("jail sentinel not visible under /etc: refusing to run")
	}
	c.notes["jail"] = "private mount namespace, temp dir bind-mounted over /etc; NetworkManager conf.d absent"

	emit := func(line string) (string, rcState, bool) {
		impl, after, ok := rcRunCase(line)
		c.Emit(line, impl)
		if strings.HasPrefix(impl, "st=killed") {
			c.Stat("result:killed")
		} else if strings.HasPrefix(impl, "st=ok") {
			c.Stat("result:completed")
		} else if strings.HasPrefix(impl, "st=err") {
			c.Stat("result:error-return")
		} else {
			c.Stat("result:other")
		}
		return impl, after, ok
	}

	if ls := replayLines(); ls != nil {
		for _, l := range ls {
			emit(l)
		}
		return nil
	}

	r := NewRng(c.seed)
	for c.count < c.n {
		if r.Chance(8) {
			// ---- a history on a host where NetworkManager is installed and its reload fails
			c.Stat("mode:history-networkmanager-reload-fails")
			var s rcState
			var tgt string
			s.live, tgt = rcGenNode(c, r, "orig", 0, 70, 30)
			s.bak = rcNode{kind: 'A'}
			s.tmp = rcNode{kind: 'A'}
			s.ext = rcGenExtFor(c, r, tgt)
			orig := s.live.String()
			nm := "0"
			for i, nops := 0, 1+r.Intn(4); i < nops && c.count < c.n; i++ {
				op := "D"
				if i == 0 || r.Chance(60) {
					op = "A:" + hx([]byte(rcDNS[r.Intn(len(rcDNS))]))
				}
				impl, after, ok := emit(rcCaseLine(orig, s, op, "-") + " nm=" + nm)
				if !ok {
					break
				}
				s = after
				if k := strings.Index(impl, " nm="); k >= 0 {
					nm = impl[k+4:]
				}
			}
			if c.count < c.n {
				emit(rcCaseLine(orig, s, "D", "-") + " nm=" + nm)
			}
			continue
		}
		if r.Chance(60) {
			// ---- a history from a pristine system: live = orig, no backup
			c.Stat("mode:history-from-pristine")
			var s rcState
			var tgt string
			s.live, tgt = rcGenNode(c, r, "orig", 3, 62, 30)
			s.bak = rcNode{kind: 'A'}
			s.tmp, _ = rcGenNode(c, r, "stale-tmp", 80, 14, 3)
			s.ext = rcGenExtFor(c, r, tgt)
			orig := s.live.String()
			nops := 1 + r.Intn(5)
			sweepAt := -1
			if r.Chance(25) {
				sweepAt = r.Intn(nops)
			}
			for i := 0; i < nops && c.count < c.n; i++ {
				op := rcGenOp(c, r, s)
				if i == sweepAt && op[0] != 'e' {
					// every crash point of this operation from this state, each followed by a recovery
					c.Stat("mode:crash-sweep")
					for _, fam := range "ouwr" {
						for j := 1; j < 80; j++ {
							impl, after, ok := emit(rcCaseLine(orig, s, op, fmt.Sprintf("%c%d", fam, j)))
							if !ok || !strings.HasPrefix(impl, "st=killed") {
								break
							}
							c.Stat("crash:sweep-point")
							emit(rcCaseLine(orig, after, "d", "-"))
						}
					}
				}
				crash := "-"
				if op[0] != 'e' && r.Chance(30) {
					crash = rcGenCrash(r)
					c.Stat("crash:random-point")
				} else if op[0] == 'a' && r.Chance(5) {
					// outside the property's quantifier (recorded finding): the disk fills up while staging
					crash = fmt.Sprintf("e%d", 1+r.Intn(5))
					c.Stat("fault:write-enospc")
				}
				_, after, ok := emit(rcCaseLine(orig, s, op, crash))
				if !ok {
					break
				}
				s = after
			}
			// the property's last clause: a final deactivation restores the original
			if c.count < c.n {
				emit(rcCaseLine(orig, s, "d", "-"))
			}
		} else {
			// ---- one operation from an arbitrary state (stale backups, dangling links, missing live file)
			c.Stat("mode:arbitrary-state")
			var s rcState
			var t1, t2 string
			s.live, t1 = rcGenNode(c, r, "live", 8, 60, 24)
			s.bak, t2 = rcGenNode(c, r, "bak", 40, 30, 15)
			s.tmp, _ = rcGenNode(c, r, "tmp", 60, 25, 10)
			s.ext = rcGenExtFor(c, r, t1)
			if t2 != "" && t2 != "dangling.conf" && t2 != t1 {
				dup := false
				for _, x := range s.ext {
					if string(x.target) == t2 {
						dup = true
					}
				}
				if !dup && r.Chance(70) {
					s.ext = append(s.ext, rcExt{[]byte(t2), rcGenContent(c, r)})
				}
			}
			op := rcGenOp(c, r, s)
			crash := "-"
			if op[0] != 'e' && r.Chance(40) {
				crash = rcGenCrash(r)
				c.Stat("crash:random-point")
			}
			emit(rcCaseLine("?", s, op, crash))
		}
	}
	return nil
}

func init() { areas["resolv"] = resolvArea }
