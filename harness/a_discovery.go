package main

import (
	"bytes"
	"fmt"
	"net"
	"os"
	"path/filepath"
	"sort"
	"strconv"
	"strings"
	"time"

	"github.com/nextdns/nextdns/discovery"
)

// Areas for C18 (discovery tables):
//   dset   appuniq / validname         direct calls of appendUniq and isValidName
//   dfiles hosts / dnsmasq / dhcpd / clientlist   generated files through the real readers and
//                                      the real Resolver{Hosts|DHCP}.Lookup* path
//   mdns   mdnsops / mdnspkt <cap>           table operations (cap as parameter) and packet sequences
//                                      through the real MDNS.read over a loopback UDP socket
// Encodings are those of lean/NV/Driver/Discovery.lean.

func encStr(s string) string {
	if s == "" {
		return "_"
	}
	return hx([]byte(s))
}

func decStr(s string) string {
	if s == "_" {
		return ""
	}
	return string(unhx(s))
}

func encList(l []string) string {
	if len(l) == 0 {
		return "-"
	}
	o := make([]string, len(l))
	for i, s := range l {
		o[i] = encStr(s)
	}
	return strings.Join(o, ",")
}

func decList(s string) []string {
	if s == "-" {
		return nil
	}
	var o []string
	for _, e := range strings.Split(s, ",") {
		o = append(o, decStr(e))
	}
	return o
}

func encTbl(m map[string][]string) string {
	if len(m) == 0 {
		return "-"
	}
	keys := make([]string, 0, len(m))
	for k := range m {
		keys = append(keys, k)
	}
	sort.Strings(keys)
	o := make([]string, len(keys))
	for i, k := range keys {
		vs := make([]string, len(m[k]))
		for j, v := range m[k] {
			vs[j] = encStr(v)
		}
		o[i] = encStr(k) + ":" + strings.Join(vs, ",")
	}
	return strings.Join(o, ";")
}

// guard runs f with recover and a deadline; the impl line is PANIC …/TIMEOUT on failure.
func guard(d time.Duration, f func() string) string {
	ch := make(chan string, 1)
	go func() {
		defer func() {
			if x := recover(); x != nil {
				ch <- "PANIC " + strings.ReplaceAll(fmt.Sprint(x), "\n", " ")
			}
		}()
		ch <- f()
	}()
	select {
	case s := <-ch:
		return s
	case <-time.After(d):
		return "TIMEOUT"
	}
}

// ------------------------------------------------------------------ dset

func (r *Rng) smallStr() string {
	const al = "abcAB.01-"
	n := r.Pick([]int{0, 1, 1, 1, 2, 2, 2, 3, 3, 4})
	b := make([]byte, n)
	for i := range b {
		b[i] = al[r.Intn(len(al))]
	}
	return string(b)
}

func runAppUniq(set, adds []string, spare int) string {
	return guard(2*time.Second, func() string {
		s := make([]string, len(set), len(set)+spare)
		copy(s, set)
		return encList(discovery.VerifAppendUniq(s, adds...))
	})
}

func uuidLike(r *Rng) string {
	b := make([]byte, 36)
	for i := range b {
		b[i] = "0123456789abcdef"[r.Intn(16)]
	}
	for _, i := range []int{8, 13, 18, 23} {
		b[i] = '-'
	}
	return string(b)
}

func macLike(r *Rng) string {
	b := make([]byte, 17)
	for i := range b {
		b[i] = "0123456789ABCDEF"[r.Intn(16)]
	}
	for _, i := range []int{2, 5, 8, 11, 14} {
		b[i] = '_'
	}
	return string(b)
}

func (r *Rng) tweak(s string) string {
	if s == "" {
		return s
	}
	b := []byte(s)
	switch r.Intn(5) {
	case 0:
		b[r.Intn(len(b))] = "gG-_.x0"[r.Intn(7)]
	case 1:
		b = b[:len(b)-1]
	case 2:
		b = append(b, "0a-_."[r.Intn(5)])
	case 3:
		i, j := r.Intn(len(b)), r.Intn(len(b))
		b[i], b[j] = b[j], b[i]
	case 4:
		b[r.Intn(len(b))] ^= 0x20
	}
	return string(b)
}

func genValidName(r *Rng, c *Ctx) string {
	var s string
	switch k := r.Intn(8); k {
	case 0:
		s = uuidLike(r)
		c.Stat("kind:uuid")
	case 1:
		s = macLike(r)
		c.Stat("kind:mac")
	case 2:
		n := r.Pick([]int{5, 6, 7, 8, 10, 14, 15, 16, 17})
		b := make([]byte, n)
		for i := range b {
			b[i] = "0123456789-"[r.Intn(11)]
		}
		s = string(b)
		c.Stat("kind:dashed-ip")
	case 3:
		s = []string{"", "*", "*.", ".", "**", "a"}[r.Intn(6)]
		c.Stat("kind:special")
	default:
		s = r.smallStr() + r.smallStr()
		c.Stat("kind:random")
	}
	if r.Chance(40) {
		s = r.tweak(s)
		c.Stat("kind:tweaked")
	}
	return s
}

func runDsetLine(c *Ctx, l string) bool {
	f := strings.Split(l, " ")
	switch {
	case len(f) == 3 && f[0] == "appuniq":
		c.Emit(l, runAppUniq(decList(f[1]), decList(f[2]), len(f[1])%3))
	case len(f) == 2 && f[0] == "validname":
		v := "0"
		if discovery.VerifIsValidName(decStr(f[1])) {
			v = "1"
		}
		c.Emit(l, v)
	default:
		return false
	}
	return true
}

func init() {
	areas["dset"] = func(c *Ctx) error {
		if ls := replayLines(); ls != nil {
			for _, l := range ls {
				runDsetLine(c, l)
			}
			return nil
		}
		r := NewRng(c.seed)
		for i := 0; i < c.n; i++ {
			if r.Chance(20) {
				runDsetLine(c, "validname "+encStr(genValidName(r, c)))
				continue
			}
			// the set
			k := r.Pick([]int{0, 1, 2, 2, 3, 3, 4, 5, 6, 8, 12})
			var set []string
			for j := 0; j < k; j++ {
				set = append(set, r.smallStr())
			}
			shape := r.Intn(10)
			switch {
			case shape < 7:
				sort.Strings(set)
				var u []string
				for j, s := range set {
					if j == 0 || s != set[j-1] {
						u = append(u, s)
					}
				}
				set = u
				c.Stat("set:sorted-uniq")
			case shape < 9:
				sort.Strings(set)
				c.Stat("set:sorted-dups")
			default:
				c.Stat("set:arbitrary")
			}
			c.Stat(fmt.Sprintf("setlen:%d", len(set)))
			var adds []string
			na := r.Pick([]int{1, 1, 1, 1, 1, 1, 1, 0, 2, 3})
			for j := 0; j < na; j++ {
				if len(set) > 0 && r.Chance(30) {
					adds = append(adds, set[r.Intn(len(set))])
				} else {
					adds = append(adds, r.smallStr())
				}
			}
			c.Stat(fmt.Sprintf("adds:%d", len(adds)))
			if len(adds) == 1 {
				pos := sort.SearchStrings(set, adds[0])
				switch {
				case pos < len(set) && set[pos] == adds[0]:
					c.Stat("pos:present")
				case pos >= 2:
					c.Stat("pos:>=2")
				default:
					c.Stat(fmt.Sprintf("pos:%d", pos))
				}
			}
			runDsetLine(c, "appuniq "+encList(set)+" "+encList(adds))
		}
		return nil
	}
}

// ------------------------------------------------------------------ dfiles

var ipPool = []string{
	"10.0.0.1", "10.0.0.2", "10.0.0.10", "192.168.1.1", "1.2.3.4", "127.0.0.1", "::1", "0:0:0:0:0:0:0:1",
	"fe80::1", "FE80::1", "fe80::1%eth0", "fe80::1%Eth0", "fe80::1%", "::ffff:1.2.3.4", "2001:DB8::A", "2001:db8:0:0:0:0:0:a",
	"fd00::10.0.0.1",
}
var badIPs = []string{"1.2.3", "300.1.1.1", "abc", "1.2.3.4%x", "%::1", ":%", "1.2.3.4:53", "::g", "10.0.0.1.", "::1%a%b", "01.2.3.4", "-"}
var namePool = []string{
	"foo", "Foo", "FOO.", "foo.", "bar.lan", "Bar.LAN.", "BAR.lan", "localhost", "LocalHost", "localhost.localdomain",
	"localhost.localdomain.", "x", "X", "printer", "Printer.local", "printer.local.", "nas", "NAS", "a.b.c", "A.b.C.", "*", ".", "..",
	"foo.local", "zz", "Zz", "host-1", "HOST-1",
	// names with bytes above 0x7f: DNS names fold case in ASCII only (RFC 4343), so these match in exactly the spellings
	// that differ in ASCII letters - and must not get lost
	"B\u00dcRO-PC", "b\u00dcro-pc.lan", "b\u00fcro-pc", "caf\xe9", "CAF\xe9.local", "\u0130stanbul", "\u212aelvin.lan",
}
var wsPool = []string{" ", " ", " ", "\t", "  ", " \t", "\t\t", "\v", "\f", " \r "}

func (r *Rng) pick(p []string) string { return p[r.Intn(len(p))] }

func (r *Rng) fname() string {
	if r.Chance(85) {
		return r.pick(namePool)
	}
	s := r.smallStr()
	if s == "" {
		s = "q"
	}
	if r.Chance(10) {
		s += string([]byte{0x80 + byte(r.Intn(0x40))}) // invalid UTF-8: never a space, never a letter
	}
	return s
}

func genHosts(r *Rng, c *Ctx) string {
	var b strings.Builder
	nl := r.Pick([]int{0, 1, 2, 3, 5, 8, 12, 20})
	long := -1
	if nl > 0 && r.Chance(3) {
		long = r.Intn(nl)
	}
	for i := 0; i < nl; i++ {
		switch k := r.Intn(20); {
		case i == long:
			// one address with hundreds of aliases: a line of 4 KB - 60 KB (bufio.Scanner takes lines up to 64 KB)
			b.WriteString(r.pick(ipPool))
			target := r.Pick([]int{4000, 4200, 5000, 9000, 20000, 40000, 60000})
			start := b.Len()
			for j := 0; b.Len()-start < target; j++ {
				b.WriteString(r.pick([]string{" ", " ", "\t", "  "}))
				b.WriteString(fmt.Sprintf("alias%d-%s", j, r.fname()))
			}
			c.Stat("line:long-4k-60k")
		case k < 12:
			ip := r.pick(ipPool)
			if r.Chance(12) {
				ip = r.pick(badIPs)
				c.Stat("line:bad-ip")
			} else {
				c.Stat("line:entry")
			}
			if r.Chance(10) {
				b.WriteString(r.pick(wsPool))
			}
			b.WriteString(ip)
			nn := r.Pick([]int{0, 1, 1, 1, 2, 2, 3, 5})
			for j := 0; j < nn; j++ {
				b.WriteString(r.pick(wsPool))
				b.WriteString(r.fname())
			}
			if r.Chance(20) {
				if r.Chance(50) {
					b.WriteString(r.pick(wsPool))
				}
				b.WriteString("#" + r.pick(namePool) + " " + r.pick(ipPool))
				c.Stat("line:inline-comment")
			}
			if r.Chance(10) {
				b.WriteString(r.pick(wsPool))
			}
		case k < 14:
			b.WriteString("# " + r.pick(ipPool) + " " + r.pick(namePool))
			c.Stat("line:comment")
		case k < 16:
			b.WriteString(r.pick([]string{"", "", " ", "\t", "\r"}))
			c.Stat("line:blank")
		case k < 17:
			b.WriteString(r.pick(ipPool))
			c.Stat("line:single-field")
		case k < 18:
			b.WriteString(r.pick(namePool) + " " + r.pick(ipPool))
			c.Stat("line:swapped")
		default:
			n := r.Intn(12)
			for j := 0; j < n; j++ {
				b.WriteByte(" \t#.:%aA1-"[r.Intn(10)])
			}
			c.Stat("line:garbage")
		}
		switch e := r.Intn(20); {
		case i == nl-1 && e < 6:
			c.Stat("eof:no-newline")
		case e < 3:
			b.WriteString("\r\n")
		default:
			b.WriteString("\n")
		}
	}
	return b.String()
}

// ipTable lists net.ParseIP(x).String() for every token (and '#'-cut prefix, '%'-cut host) of content.
func ipTable(content string) string {
	seen := map[string]bool{}
	var out []string
	add := func(s string) {
		if seen[s] {
			return
		}
		seen[s] = true
		if ip := net.ParseIP(s); ip != nil {
			out = append(out, encStr(s)+">"+encStr(ip.String()))
		}
	}
	for _, line := range strings.Split(content, "\n") {
		for _, t := range strings.Fields(line) {
			cands := []string{t}
			for i := 0; i < len(t); i++ {
				if t[i] == '#' {
					cands = append(cands, t[:i])
				}
			}
			for _, cnd := range cands {
				add(cnd)
				if i := strings.LastIndexByte(cnd, '%'); i > 0 {
					add(cnd[:i])
				}
			}
		}
	}
	if len(out) == 0 {
		return "-"
	}
	return strings.Join(out, ",")
}

type dquery struct{ kind, q string }

func encQueries(qs []dquery) string {
	if len(qs) == 0 {
		return "-"
	}
	o := make([]string, len(qs))
	for i, q := range qs {
		o[i] = q.kind + ":" + encStr(q.q)
	}
	return strings.Join(o, ",")
}

func decQueries(s string) []dquery {
	if s == "-" {
		return nil
	}
	var o []dquery
	for _, it := range strings.Split(s, ",") {
		p := strings.SplitN(it, ":", 2)
		o = append(o, dquery{p[0], decStr(p[1])})
	}
	return o
}

func (r *Rng) caseMix(s string) string {
	b := []byte(s)
	for i := range b {
		if r.Chance(30) && (b[i]|0x20) >= 'a' && (b[i]|0x20) <= 'z' {
			b[i] ^= 0x20
		}
	}
	return string(b)
}

func genQueries(r *Rng, macs bool, addrPool, macPool []string) []dquery {
	var qs []dquery
	n := r.Intn(5)
	for i := 0; i < n; i++ {
		switch k := r.Intn(10); {
		case k < 5:
			q := r.caseMix(r.pick(namePool))
			if r.Chance(20) {
				q = strings.TrimSuffix(q, ".") + ".local"
			}
			qs = append(qs, dquery{"h", q})
		case k < 8 || !macs:
			qs = append(qs, dquery{"a", r.caseMix(r.pick(addrPool))})
		default:
			qs = append(qs, dquery{"m", r.caseMix(r.pick(macPool))})
		}
	}
	return qs
}

func answers(res discovery.Resolver, qs []dquery) string {
	if len(qs) == 0 {
		return "-"
	}
	o := make([]string, len(qs))
	for i, q := range qs {
		switch q.kind {
		case "h":
			o[i] = encList(res.LookupHost(q.q))
			// the source's own LookupHost must fold the name itself (Resolver lower-cases before calling it)
			if d := encList(res[0].LookupHost(q.q)); d != o[i] {
				o[i] = "DIRECT-LOOKUP-DIFFERS:" + d + ":" + o[i]
			}
		case "a":
			o[i] = encList(res.LookupAddr(q.q))
		case "m":
			o[i] = encList(res.LookupMAC(q.q))
		}
	}
	return strings.Join(o, "/")
}

var dfilesDir string

func tmpFile(name, content string) string {
	if dfilesDir == "" {
		d, err := os.MkdirTemp("", "nvh-dfiles")
		if err != nil {
			panic(err)
		}
		dfilesDir = d
	}
	p := filepath.Join(dfilesDir, name)
	// for every other content (by its length) the path is a symbolic link to the real file (hosts and lease files of
	// router firmwares often are: /etc/hosts -> /tmp/etc/hosts)
	_ = os.Remove(p)
	_ = os.Remove(p + ".real")
	if len(content)%2 == 1 {
		if err := os.WriteFile(p+".real", []byte(content), 0644); err != nil {
			panic(err)
		}
		if err := os.Symlink(p+".real", p); err != nil {
			panic(err)
		}
		return p
	}
	if err := os.WriteFile(p, []byte(content), 0644); err != nil {
		panic(err)
	}
	return p
}

func runHosts(content string, qs []dquery) string {
	return guard(5*time.Second, func() string {
		p := tmpFile("hosts", content)
		names, addrs, err := discovery.VerifReadHostsFile(p)
		if err != nil {
			return "ERR " + err.Error()
		}
		discovery.VerifSetHostsFiles([]string{p})
		res := discovery.Resolver{&discovery.Hosts{}}
		// Visit must show the same name table
		visited := map[string][]string{}
		res.Visit(func(source, name string, a []string) { visited[name] = a })
		if encTbl(visited) != encTbl(names) {
			return "VISIT-DIFFERS " + encTbl(visited)
		}
		return "names=" + encTbl(names) + " addrs=" + encTbl(addrs) + " q=" + answers(res, qs)
	})
}

var macPool = []string{"aa:bb:cc:dd:ee:01", "AA:BB:CC:DD:EE:01", "aa:bb:cc:dd:ee:02", "00:11:22:33:44:55", "Aa:Bb:Cc:Dd:Ee:02", "de:ad:be:ef:00:01"}
var leaseIPs = []string{"10.0.0.1", "10.0.0.2", "10.0.0.3", "10.0.0.10", "192.168.1.20", "fd00::A", "fd00::a", "FD00::B", "2001:db8::1"}

func genDNSMasq(r *Rng, c *Ctx) string {
	var b strings.Builder
	nl := r.Pick([]int{0, 1, 2, 4, 6, 10, 16, 30})
	for i := 0; i < nl; i++ {
		switch k := r.Intn(20); {
		case k < 15:
			name := r.pick(namePool)
			if r.Chance(10) {
				name = "*"
			}
			flds := []string{strconv.Itoa(1600000000 + r.Intn(1000)), r.pick(macPool), r.pick(leaseIPs), name, r.pick([]string{"*", "01:" + r.pick(macPool), "id"})}
			if r.Chance(10) {
				flds = append(flds, "extra")
				c.Stat("line:6-fields")
			}
			if r.Chance(10) {
				flds = flds[:r.Intn(5)]
				c.Stat("line:short")
			} else {
				c.Stat("line:lease")
			}
			for j, f := range flds {
				if j > 0 {
					b.WriteString(r.pick(wsPool))
				}
				b.WriteString(f)
			}
		case k < 17:
			c.Stat("line:blank")
		case k < 18:
			b.WriteString("duid 00:01:00:01:aa:bb")
			c.Stat("line:duid")
		default:
			// (the second field of such a line lands in the MAC column, which the code folds with strings.ToLower on
			// both the table and the lookup side: keep it ASCII, the model folds ASCII only)
			b.WriteString("# " + r.pick(namePool[:28]) + " 1 2 3 4 5")
			c.Stat("line:hash")
		}
		if i == nl-1 && r.Chance(30) {
			break
		}
		if r.Chance(10) {
			b.WriteString("\r")
		}
		b.WriteString("\n")
	}
	return b.String()
}

func genDHCPD(r *Rng, c *Ctx) string {
	var b strings.Builder
	nb := r.Pick([]int{0, 1, 2, 3, 5, 8, 14})
	for i := 0; i < nb; i++ {
		var lines []string
		ip := r.pick(leaseIPs)
		open := "lease " + ip + " {"
		if r.Chance(5) {
			open = "lease"
			c.Stat("blk:lease-no-ip")
		}
		if r.Chance(5) {
			open = "  lease\t" + ip + "  {"
		}
		lines = append(lines, open)
		var body []string
		if r.Chance(90) {
			q := `"`
			if r.Chance(10) {
				q = ""
			}
			name := r.pick(namePool)
			if r.Chance(5) {
				name = ""
			}
			body = append(body, "  client-hostname "+q+name+q+";")
		} else {
			c.Stat("blk:no-name")
		}
		if r.Chance(85) {
			switch r.Intn(8) {
			case 0:
				body = append(body, "  hardware ethernet")
				c.Stat("blk:hardware-2-fields")
			case 1:
				body = append(body, "  hardware ethernet "+r.pick(macPool)+";;")
			default:
				body = append(body, "  hardware ethernet "+r.pick(macPool)+";")
			}
		} else {
			c.Stat("blk:no-mac")
		}
		body = append(body, "  starts 4 2020/01/01 00:00:00;", "  binding state active;", "  uid \"\\001\\002\";")
		if r.Chance(10) {
			body = append(body, "  client-hostname \""+r.pick(namePool)+"\";")
			c.Stat("blk:two-names")
		}
		// shuffle the body
		for j := len(body) - 1; j > 0; j-- {
			k := r.Intn(j + 1)
			body[j], body[k] = body[k], body[j]
		}
		lines = append(lines, body...)
		switch k := r.Intn(20); {
		case k < 16:
			lines = append(lines, "}")
			c.Stat("blk:closed")
		case k < 17:
			lines = append(lines, "} # end")
			c.Stat("blk:closed-trailing")
		case k < 18:
			lines = append(lines, "  }")
			c.Stat("blk:indented-close(not a close)")
		default:
			c.Stat("blk:unclosed")
		}
		if r.Chance(15) {
			lines = append(lines, "", "# comment", "server-duid \"x\";")
		}
		for j, l := range lines {
			b.WriteString(l)
			if i == nb-1 && j == len(lines)-1 && r.Chance(30) {
				break
			}
			if r.Chance(5) {
				b.WriteString("\r")
			}
			b.WriteString("\n")
		}
	}
	return b.String()
}

func runLease(format, content string, qs []dquery) string {
	return guard(5*time.Second, func() string {
		var macs, addrs, names map[string][]string
		var err error
		if format == "dnsmasq" {
			macs, addrs, names, err = discovery.VerifReadDNSMasqLease(strings.NewReader(content))
		} else {
			macs, addrs, names, err = discovery.VerifReadDHCPDLease(strings.NewReader(content))
		}
		if err != nil {
			return "ERR " + err.Error()
		}
		p := tmpFile("leases-"+format, content)
		f := "dnsmasq"
		if format == "dhcpd" {
			f = "isc-dhcpd"
		}
		discovery.VerifSetLeaseFile(p, f)
		res := discovery.Resolver{&discovery.DHCP{}}
		visited := map[string][]string{}
		res.Visit(func(source, name string, a []string) { visited[name] = a })
		if encTbl(visited) != encTbl(names) {
			return "VISIT-DIFFERS " + encTbl(visited)
		}
		return "macs=" + encTbl(macs) + " addrs=" + encTbl(addrs) + " names=" + encTbl(names) + " q=" + answers(res, qs)
	})
}

func genClientList(r *Rng, c *Ctx) []byte {
	var b bytes.Buffer
	n := r.Pick([]int{0, 1, 1, 2, 3, 5, 8})
	for i := 0; i < n; i++ {
		name := r.pick(namePool)
		if r.Chance(8) {
			name = ""
			c.Stat("item:empty-name")
		}
		mac := r.pick(macPool)
		if r.Chance(6) {
			mac = mac[:r.Intn(17)]
			c.Stat("item:short-mac")
		}
		if !(i == 0 && r.Chance(5)) {
			b.WriteByte('<')
		} else {
			c.Stat("item:no-lt")
		}
		b.WriteString(name)
		if r.Chance(95) {
			b.WriteByte('>')
		}
		b.WriteString(mac)
		if r.Chance(95) {
			b.WriteString(">0>" + strconv.Itoa(r.Intn(5)) + ">>")
		}
		if r.Chance(10) {
			b.WriteString(r.pick([]string{"\n", "\r\n", "x"}))
		}
		c.Stat("item:entry")
	}
	return b.Bytes()
}

func runClientList(b []byte) string {
	return guard(2*time.Second, func() string {
		m, err := discovery.VerifReadClientList(append([]byte(nil), b...))
		if err != nil {
			return "err"
		}
		if m == nil {
			return "nil"
		}
		return encTbl(m)
	})
}

func runDfilesLine(c *Ctx, l string) bool {
	f := strings.Split(l, " ")
	switch {
	case len(f) == 4 && f[0] == "hosts":
		c.Emit(l, runHosts(string(unhx(f[1])), decQueries(f[3])))
	case len(f) == 3 && (f[0] == "dnsmasq" || f[0] == "dhcpd"):
		c.Emit(l, runLease(f[0], string(unhx(f[1])), decQueries(f[2])))
	case len(f) == 2 && f[0] == "clientlist":
		c.Emit(l, runClientList(unhx(f[1])))
	default:
		return false
	}
	return true
}

func init() {
	areas["dfiles"] = func(c *Ctx) error {
		defer func() {
			if dfilesDir != "" {
				os.RemoveAll(dfilesDir)
			}
		}()
		if ls := replayLines(); ls != nil {
			for _, l := range ls {
				runDfilesLine(c, l)
			}
			return nil
		}
		r := NewRng(c.seed)
		canonAddrs := []string{"10.0.0.1", "10.0.0.2", "10.0.0.10", "1.2.3.4", "::1", "fe80::1", "fe80::1%eth0", "fe80::1%Eth0", "2001:db8::a", "2001:DB8::A", "fd00::a00:1", "127.0.0.1"}
		for i := 0; i < c.n; i++ {
			switch k := r.Intn(10); {
			case k < 4:
				c.Stat("file:hosts")
				content := genHosts(r, c)
				qs := genQueries(r, false, canonAddrs, nil)
				runDfilesLine(c, "hosts "+hx([]byte(content))+" "+ipTable(content)+" "+encQueries(qs))
			case k < 7:
				c.Stat("file:dnsmasq")
				content := genDNSMasq(r, c)
				runDfilesLine(c, "dnsmasq "+hx([]byte(content))+" "+encQueries(genQueries(r, true, leaseIPs, macPool)))
			case k < 9:
				c.Stat("file:dhcpd")
				content := genDHCPD(r, c)
				runDfilesLine(c, "dhcpd "+hx([]byte(content))+" "+encQueries(genQueries(r, true, leaseIPs, macPool)))
			default:
				c.Stat("file:clientlist")
				runDfilesLine(c, "clientlist "+hx(genClientList(r, c)))
			}
		}
		return nil
	}
}

// ------------------------------------------------------------------ mdns

var mdnsNames = []string{
	"foo.local.", "Foo.local.", "FOO.LOCAL.", "bar.local.", "Bar.local.", "printer.local.", "Printer.Local.", "nas.local.",
	"a.local.", "A.local.", "b.local.", "c.local.", "tv.local.", "TV.local.", "x.y.local.", "host-1.local.", "zz.", ".",
	"foo.local", "Bar", "*", "",
}
var mdnsAddrs = []string{"10.0.0.1", "10.0.0.2", "10.0.0.3", "10.0.0.10", "192.168.1.7", "fe80::1", "fd00::a", "2001:db8::1"}

func mdnsDump(m *discovery.MDNS, lru bool) string {
	names, addrs, order, tie := discovery.VerifMDNSDump(m)
	l := "-"
	if lru {
		l = encList(order)
		if tie {
			l = "TIE"
		}
	}
	return "names=" + encTbl(names) + " addrs=" + encTbl(addrs) + " lru=" + l
}

func runMDNSOps(capN int, ops string) string {
	return guard(10*time.Second, func() string {
		m := discovery.VerifNewMDNS()
		if ops != "-" {
			for _, op := range strings.Split(ops, ";") {
				p := strings.Split(op, ":")
				switch {
				case len(p) == 3 && p[0] == "a":
					discovery.VerifMDNSIngest(m, decStr(p[1]), decStr(p[2]), capN)
				case len(p) == 1 && p[0] == "x":
					discovery.VerifMDNSRemoveOldest(m)
				case len(p) == 3 && p[0] == "r":
					discovery.VerifMDNSRemoveAddrEntry(m, decStr(p[1]), decStr(p[2]))
				default:
					return "bad-op"
				}
			}
		}
		return mdnsDump(m, true)
	})
}

// --- packets

type mrec struct {
	sec  int    // 0 answer, 1 authority, 2 additional
	kind string // "4", "6", "t"
	name string // presentation form with trailing dot
	addr string // net.IP.String() of the rdata (kinds 4/6)
}

type mpkt struct {
	ok   bool
	recs []mrec
}

func encPkts(ps []mpkt) string {
	o := make([]string, len(ps))
	for i, p := range ps {
		parts := []string{"ok"}
		if !p.ok {
			parts[0] = "bad"
		}
		for _, r := range p.recs {
			a := "-"
			if r.kind != "t" {
				a = encStr(r.addr)
			}
			parts = append(parts, fmt.Sprintf("%d.%s.%s.%s", r.sec, r.kind, encStr(r.name), a))
		}
		o[i] = strings.Join(parts, ";")
	}
	return strings.Join(o, "|")
}

func decPkts(s string) ([]mpkt, bool) {
	var ps []mpkt
	for _, ps1 := range strings.Split(s, "|") {
		parts := strings.Split(ps1, ";")
		p := mpkt{ok: parts[0] == "ok"}
		if parts[0] != "ok" && parts[0] != "bad" {
			return nil, false
		}
		for _, rs := range parts[1:] {
			f := strings.Split(rs, ".")
			if len(f) != 4 {
				return nil, false
			}
			sec, _ := strconv.Atoi(f[0])
			r := mrec{sec: sec, kind: f[1], name: decStr(f[2])}
			if f[1] != "t" {
				r.addr = decStr(f[3])
			}
			p.recs = append(p.recs, r)
		}
		ps = append(ps, p)
	}
	return ps, true
}

// wire encodes the packet as an mDNS response.  Names are packed label by label; a name already
// written is sometimes replaced by a compression pointer.  A "bad" packet is the same message cut
// short inside its last record (the dnsmessage parser rejects it as a whole).
func (p mpkt) wire(salt int) []byte {
	msg := []byte{0, 0, 0x84, 0, 0, 0, 0, 0, 0, 0, 0, 0}
	offs := map[string]int{}
	packName := func(n string) {
		if off, ok := offs[n]; ok && (salt+len(msg))%3 != 0 {
			msg = append(msg, 0xC0|byte(off>>8), byte(off))
			return
		}
		if len(msg) < 0x3fff && n != "." {
			offs[n] = len(msg)
		}
		if n != "." {
			for _, l := range strings.Split(strings.TrimSuffix(n, "."), ".") {
				// \x01 stands for a literal '.' INSIDE a label (DNS-SD instance names such as
				// "Office 2.1 Printer", RFC 6763 4.3)
				l = strings.ReplaceAll(l, "\x01", ".")
				msg = append(msg, byte(len(l)))
				msg = append(msg, l...)
			}
		}
		msg = append(msg, 0)
	}
	if salt%4 == 1 { // a question to be skipped
		packName("_http._tcp.local.")
		msg = append(msg, 0, 12, 0, 1)
		msg[5] = 1
	}
	cnt := [3]int{}
	for sec := 0; sec < 3; sec++ {
		for _, r := range p.recs {
			if r.sec != sec {
				continue
			}
			cnt[sec]++
			packName(r.name)
			switch r.kind {
			case "4":
				msg = append(msg, 0, 1, 0x80, 1, 0, 0, 0, 120, 0, 4)
				msg = append(msg, net.ParseIP(r.addr).To4()...)
			case "6":
				msg = append(msg, 0, 28, 0x80, 1, 0, 0, 0, 120, 0, 16)
				ip := net.ParseIP(r.addr).To16()
				msg = append(msg, ip...)
			default:
				txt := "k=v" + r.name
				msg = append(msg, 0, 16, 0, 1, 0, 0, 17, 148)
				msg = append(msg, byte((len(txt)+1)>>8), byte(len(txt)+1), byte(len(txt)))
				msg = append(msg, txt...)
			}
		}
	}
	msg[6], msg[8], msg[10] = byte(cnt[0]>>8), byte(cnt[1]>>8), byte(cnt[2]>>8)
	msg[7], msg[9], msg[11] = byte(cnt[0]), byte(cnt[1]), byte(cnt[2])
	if !p.ok {
		cut := 1 + salt%3
		if len(p.recs) == 0 || cut >= len(msg)-12 {
			return msg[:11] // shorter than a header: ignored
		}
		return msg[:len(msg)-cut]
	}
	return msg
}

func validRec(r mrec) bool {
	if r.kind == "t" || r.sec == 1 {
		return false
	}
	return discovery.VerifIsValidName(r.name)
}

// lastKey returns the name-table key whose stamp the packet must refresh ("" when the packet has no effect).
func (p mpkt) lastKey() string {
	if !p.ok {
		return ""
	}
	k := ""
	for _, sec := range []int{0, 2} { // parse order: answers, then additionals; the last writer survives
		for _, r := range p.recs {
			if r.sec == sec && validRec(r) {
				k = discovery.VerifPrepareHostLookup(r.name)
			}
		}
	}
	return k
}

var mdnsLost int

func runMDNSPkts(ps []mpkt) string {
	return guard(60*time.Second, func() string {
		conn, err := net.ListenUDP("udp4", &net.UDPAddr{IP: net.IPv4(127, 0, 0, 1)})
		if err != nil {
			return "ERR listen " + err.Error()
		}
		_ = conn.SetReadBuffer(4 << 20)
		m := discovery.VerifNewMDNS()
		done := make(chan struct{})
		go func() {
			defer func() { recover(); close(done) }()
			discovery.VerifMDNSRead(m, conn)
		}()
		defer func() {
			conn.Close()
			<-done
		}()
		snd, err := net.DialUDP("udp4", nil, conn.LocalAddr().(*net.UDPAddr))
		if err != nil {
			return "ERR dial " + err.Error()
		}
		defer snd.Close()
		single := true
		pending := 0
		for i, p := range ps {
			n := 0
			seen := map[string]bool{}
			for _, r := range p.recs {
				if p.ok && (r.kind != "t") && r.sec != 1 && !seen[r.addr] {
					seen[r.addr] = true
					n++
				}
			}
			if n > 1 {
				single = false
			}
			before := time.Now()
			if _, err := snd.Write(p.wire(i)); err != nil {
				return "ERR write " + err.Error()
			}
			pending++
			// synchronise on every packet with an observable effect (the stamp of the key its last
			// record refreshes); only packets without effect are ever left in flight, so a stamp
			// newer than `before` can only come from this packet
			if key := p.lastKey(); key != "" {
				wait := 3 * time.Second
				if mdnsLost >= 3 { // the implementation keeps ignoring packets the model expects to count: do not stall
					wait = 100 * time.Millisecond
				}
				dl := time.Now().Add(wait)
				for !discovery.VerifMDNSStamp(m, key).After(before) {
					if time.Now().After(dl) {
						mdnsLost++
						return "LOST packet " + strconv.Itoa(i) + " (no effect on the name table within " + wait.String() + ")"
					}
					time.Sleep(20 * time.Microsecond)
				}
				pending = 0
			}
		}
		if pending > 0 {
			// the tail had no observable effect: give the reader time to drain it
			time.Sleep(20 * time.Millisecond)
		}
		return mdnsDump(m, single)
	})
}


// mdnsflood <cap> <n>: ONE response packet announcing n distinct hosts (more than the table holds when n > cap), then
// a single late announcement. The reader must survive the flood: the late name is learned within the deadline, lookups
// return, the table is bounded by the cap.
func runMDNSFlood(n int) string {
	return guard(20*time.Second, func() string {
		conn, err := net.ListenUDP("udp4", &net.UDPAddr{IP: net.IPv4(127, 0, 0, 1)})
		if err != nil {
			return "ERR listen " + err.Error()
		}
		_ = conn.SetReadBuffer(4 << 20)
		m := discovery.VerifNewMDNS()
		go func() {
			defer func() { recover() }()
			discovery.VerifMDNSRead(m, conn)
		}()
		defer conn.Close()
		snd, err := net.DialUDP("udp4", nil, conn.LocalAddr().(*net.UDPAddr))
		if err != nil {
			return "ERR dial " + err.Error()
		}
		defer snd.Close()
		big := mpkt{ok: true}
		for i := 0; i < n; i++ {
			big.recs = append(big.recs, mrec{sec: 0, kind: "4", name: fmt.Sprintf("h%d.local.", i),
				addr: fmt.Sprintf("10.%d.%d.%d", i/65536, (i/256)%256, i%256)})
		}
		w := big.wire(0)
		if len(w) > 65000 {
			return "bad-op"
		}
		if _, err := snd.Write(w); err != nil {
			return "ERR write " + err.Error()
		}
		late := mpkt{ok: true, recs: []mrec{{sec: 0, kind: "4", name: "late.local.", addr: "10.250.250.250"}}}
		type res struct{ names, addrs int }
		done := make(chan res, 1)
		go func() {
			// everything below takes the table's lock: a reader stuck inside it never lets this finish
			dl := time.Now().Add(6 * time.Second)
			before := time.Now()
			_, _ = snd.Write(late.wire(0))
			for !discovery.VerifMDNSStamp(m, late.lastKey()).After(before) {
				if time.Now().After(dl) {
					done <- res{-1, -1}
					return
				}
				time.Sleep(200 * time.Microsecond)
			}
			names, addrs, _, _ := discovery.VerifMDNSDump(m)
			done <- res{len(names), len(addrs)}
		}()
		select {
		case r := <-done:
			if r.names < 0 {
				return "STUCK the late announcement was not learned within 6 s"
			}
			l := 0
			if names, _, _, _ := discovery.VerifMDNSDump(m); len(names[discovery.VerifPrepareHostLookup("late.local.")]) > 0 {
				l = 1
			}
			return fmt.Sprintf("size=%d addrs=%d late=%d", r.names, r.addrs, l)
		case <-time.After(8 * time.Second):
			return "STUCK lookups on the mDNS table do not return (the reader holds its lock)"
		}
	})
}

func genSmallPkts(r *Rng, c *Ctx) []mpkt {
	var ps []mpkt
	np := r.Pick([]int{1, 2, 3, 5, 8, 12})
	names := []string{"foo.local.", "Foo.local.", "FOO.LOCAL.", "bar.local.", "Bar.local.", "printer.local.", "nas.local.", "a.b.local.", "tv.", "."}
	for i := 0; i < np; i++ {
		p := mpkt{ok: !r.Chance(12)}
		nr := r.Pick([]int{0, 1, 1, 2, 3, 4, 6})
		for j := 0; j < nr; j++ {
			rec := mrec{sec: r.Pick([]int{0, 0, 0, 1, 2, 2}), name: r.pick(names)}
			switch k := r.Intn(10); {
			case k < 5:
				rec.kind, rec.addr = "4", r.pick([]string{"10.0.0.1", "10.0.0.2", "10.0.0.3", "192.168.1.7"})
			case k < 8:
				rec.kind, rec.addr = "6", r.pick([]string{"fe80::1", "fd00::a", "2001:db8::1", "10.0.0.1" /* ::ffff:10.0.0.1 prints as IPv4 */})
			default:
				rec.kind = "t"
				if r.Chance(50) {
					// a service-instance owner name with a dot inside its first label, beside the host's
					// address records in the same packet: the address records must still be learned
					rec.name = r.pick([]string{"Office 2\x011 Printer._ipp._tcp.local.", "v1\x012._http._tcp.local.", "a\x01b.local."})
					c.Stat("rec:dotted-label-owner")
				}
			}
			c.Stat(fmt.Sprintf("rec:sec%d-%s", rec.sec, rec.kind))
			p.recs = append(p.recs, rec)
		}
		if p.ok {
			c.Stat("pkt:ok")
		} else {
			c.Stat("pkt:bad")
		}
		ps = append(ps, p)
	}
	return ps
}

// genBigPkts: more than mdnsMaxEntries distinct names, one address record per packet, with
// re-announcements of early names so that the eviction order differs from the insertion order.
func genBigPkts(r *Rng, c *Ctx) []mpkt {
	capN := discovery.VerifMDNSMaxEntries
	total := capN + r.Pick([]int{1, 2, 5, 17, 60})
	var ps []mpkt
	one := func(i int) mpkt {
		name := fmt.Sprintf("h%d.local.", i)
		if i%7 == 3 {
			name = fmt.Sprintf("H%d.Local.", i)
		}
		addr := fmt.Sprintf("10.%d.%d.%d", i/65536, (i/256)%256, i%256)
		if i%5 == 0 {
			addr = fmt.Sprintf("10.9.9.%d", i%3) // many names per address
		}
		rec := mrec{sec: r.Pick([]int{0, 0, 2}), kind: "4", name: name, addr: addr}
		p := mpkt{ok: true, recs: []mrec{rec}}
		if r.Chance(10) {
			p.recs = append(p.recs, mrec{sec: 2, kind: "t", name: name})
		}
		return p
	}
	for i := 0; i < total; i++ {
		ps = append(ps, one(i))
		if r.Chance(3) && i > 0 {
			j := r.Intn(imin(i, 80)) // refresh an early name (possibly with another spelling / address)
			p := one(j)
			if r.Chance(50) {
				p.recs[0].name = strings.ToUpper(p.recs[0].name)
			}
			if r.Chance(30) {
				p.recs[0].addr = "10.8.8.8"
			}
			ps = append(ps, p)
			c.Stat("big:refresh")
		}
		if r.Chance(1) {
			ps = append(ps, mpkt{ok: false, recs: one(i + 5000).recs})
			c.Stat("big:bad")
		}
	}
	// the table is now exactly at its cap: known names announce again (other spelling, sometimes
	// another address) — nothing new is inserted, so nothing may be evicted
	for k := 0; k < 6; k++ {
		j := total - 1 - r.Intn(capN-1)
		p := one(j)
		switch r.Intn(3) {
		case 0:
			p.recs[0].name = strings.ToUpper(p.recs[0].name)
		case 1:
			p.recs[0].name = strings.ToUpper(p.recs[0].name[:1]) + p.recs[0].name[1:]
		}
		if r.Chance(40) {
			p.recs[0].addr = fmt.Sprintf("10.7.7.%d", k)
		}
		ps = append(ps, p)
		c.Stat("big:refresh-at-cap")
	}
	c.Stat("big:sequences")
	return ps
}

func imin(a, b int) int {
	if a < b {
		return a
	}
	return b
}

func runMDNSLine(c *Ctx, l string) bool {
	f := strings.Split(l, " ")
	switch {
	case len(f) == 3 && f[0] == "mdnsops":
		capN, err := strconv.Atoi(f[1])
		if err != nil {
			return false
		}
		c.Emit(l, runMDNSOps(capN, f[2]))
	case len(f) == 3 && f[0] == "mdnspkt":
		// f[1] is the cap compiled into the code (informative for the model and the oracle; the
		// real MDNS.read uses its constant whatever the line says)
		ps, ok := decPkts(f[2])
		if !ok {
			return false
		}
		f[1] = strconv.Itoa(discovery.VerifMDNSMaxEntries)
		c.Emit(strings.Join(f, " "), runMDNSPkts(ps))
	case len(f) == 3 && f[0] == "mdnsflood":
		n, err := strconv.Atoi(f[2])
		if err != nil {
			return false
		}
		f[1] = strconv.Itoa(discovery.VerifMDNSMaxEntries)
		c.Emit(strings.Join(f, " "), runMDNSFlood(n))
	default:
		return false
	}
	return true
}

func init() {
	areas["mdns"] = func(c *Ctx) error {
		if ls := replayLines(); ls != nil {
			for _, l := range ls {
				runMDNSLine(c, l)
			}
			return nil
		}
		r := NewRng(c.seed)
		// one packet sequence beyond the real cap per 400 cases (at least one)
		big := 1 + c.n/400
		for i := 0; i < c.n; i++ {
			switch k := r.Intn(10); {
			case i < big:
				c.Stat("case:pkt-big")
				runMDNSLine(c, "mdnspkt 0 "+encPkts(genBigPkts(r, c)))
			case i < 2*big+1:
				// one packet alone beyond (or just at) the cap
				capN := discovery.VerifMDNSMaxEntries
				n := capN + r.Pick([]int{-1, 0, 1, 2, 50, 300})
				if i == big {
					n = capN + 50
				}
				c.Stat("case:flood")
				runMDNSLine(c, "mdnsflood 0 "+strconv.Itoa(n))
			case k < 7:
				c.Stat("case:ops")
				capN := r.Pick([]int{0, 1, 2, 2, 3, 3, 5, 8})
				c.Stat(fmt.Sprintf("cap:%d", capN))
				n := r.Pick([]int{1, 2, 3, 5, 8, 12, 20, 40})
				ops := make([]string, n)
				for j := range ops {
					switch o := r.Intn(20); {
					case o < 17:
						ops[j] = "a:" + encStr(r.pick(mdnsAddrs)) + ":" + encStr(r.pick(mdnsNames))
						c.Stat("op:ingest")
					case o < 18:
						ops[j] = "x"
						c.Stat("op:evict")
					default:
						ops[j] = "r:" + encStr(r.pick(mdnsAddrs)) + ":" + encStr(r.pick(mdnsNames))
						c.Stat("op:remove")
					}
				}
				runMDNSLine(c, "mdnsops "+strconv.Itoa(capN)+" "+strings.Join(ops, ";"))
			default:
				c.Stat("case:pkt-small")
				runMDNSLine(c, "mdnspkt 0 "+encPkts(genSmallPkts(r, c)))
			}
		}
		return nil
	}
}
