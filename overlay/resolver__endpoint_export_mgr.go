//go:build verif

package endpoint

import (
	"sync/atomic"
	"time"
)

// Exports for the /verif correspondence harness (injected with -overlay; not part of /repo).

const (
	VerifDefaultErrorThreshold  = DefaultErrorThreshold
	VerifDefaultMinTestInterval = DefaultMinTestInterval
	VerifMinTestIntervalFailed  = minTestIntervalFailed
)

// VerifAE is an opaque handle on an activeEnpoint object.
type VerifAE = activeEnpoint

// VerifSetNow installs the virtual clock used by the manager.
func VerifSetNow(m *Manager, now func() time.Time) { m.testNow = now }

// VerifActiveNoLock reads m.activeEndpoint without taking m.mu. The harness only calls it while
// no election can be writing (every election is parked at the harness's gate or has finished and
// been synchronised with through the object's mutex).
func VerifActiveNoLock(m *Manager) *VerifAE { return m.activeEndpoint }

// VerifActive reads m.activeEndpoint under m.mu (read lock).
func VerifActive(m *Manager) *VerifAE {
	m.mu.RLock()
	defer m.mu.RUnlock()
	return m.activeEndpoint
}

// VerifTryLock reports whether m.mu is free (and leaves it free).
func VerifTryLock(m *Manager) bool {
	if m.mu.TryLock() {
		m.mu.Unlock()
		return true
	}
	return false
}

// VerifState is a snapshot of the object's fields.
func (e *activeEnpoint) VerifState() (ep Endpoint, lastTest time.Time, interval time.Duration, testing bool, errs uint32) {
	e.mu.RLock()
	defer e.mu.RUnlock()
	return e.Endpoint, e.lastTest, e.testInterval, e.testing, atomic.LoadUint32(&e.consecutiveErrors)
}

func (e *activeEnpoint) VerifTesting() bool {
	e.mu.RLock()
	defer e.mu.RUnlock()
	return e.testing
}

// VerifUnlock / VerifLock let the harness's gate (called from DebugLog at the very start of
// findBestEndpointLocked, before anything was read or written) give m.mu back while an election
// goroutine is parked: the goroutine then behaves exactly as if it had not reached
// Manager.Test's m.mu.Lock() yet.
func VerifUnlock(m *Manager) { m.mu.Unlock() }
func VerifLock(m *Manager)   { m.mu.Lock() }
