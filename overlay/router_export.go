//go:build verif

package router

import (
	"os"

	"github.com/nextdns/nextdns/router/internal"
)

// Exports for the /verif correspondence harness (injected with -overlay; not part of /repo).

func VerifWriteTemplate(path, tmpl string, data interface{}, mode os.FileMode) error {
	return internal.WriteTemplate(path, tmpl, data, mode)
}
