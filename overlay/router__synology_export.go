//go:build verif

package synology

// VerifTmpl is the runtime value of the dnsmasq template (compared with the regenerated NV.Gen.Router).
func VerifTmpl() string { return tmpl }
