//go:build verif

package discovery

import (
	"context"
	"io"
	"net"
	"sort"
	"time"
)

// Exports for the /verif correspondence harness (injected with -overlay; not part of /repo).

const VerifMDNSMaxEntries = mdnsMaxEntries

func VerifAppendUniq(set []string, adds ...string) []string { return appendUniq(set, adds...) }
func VerifIsValidName(name string) bool                     { return isValidName(name) }
func VerifPrepareHostLookup(host string) string             { return prepareHostLookup(host) }

func VerifReadHostsFile(file string) (names, addrs map[string][]string, err error) {
	return readHostsFile(file)
}

func VerifReadDNSMasqLease(r io.Reader) (macs, addrs, names map[string][]string, err error) {
	return readDNSMasqLease(r)
}

func VerifReadDHCPDLease(r io.Reader) (macs, addrs, names map[string][]string, err error) {
	return readDHCPDLease(r)
}

func VerifReadClientList(b []byte) (map[string][]string, error) { return readClientList(b) }

// VerifSetHostsFiles / VerifSetLeaseFiles point the real Hosts / DHCP sources at harness files.
func VerifSetHostsFiles(files []string) { hostsFiles = files }
func VerifSetLeaseFile(file, format string) {
	leaseFiles = []leaseFile{{file, format}}
}

// VerifSetLeaseFileList: several candidate lease files in preference order (the first that exists is read).
func VerifSetLeaseFileList(files []string, format string) {
	leaseFiles = nil
	for _, f := range files {
		leaseFiles = append(leaseFiles, leaseFile{f, format})
	}
}

// --- mDNS tables

func VerifNewMDNS() *MDNS {
	return &MDNS{addrs: map[string]mdnsEntry{}, names: map[string]mdnsEntry{}}
}

// VerifMDNSRead runs the real receive loop on conn (returns when conn is closed).
func VerifMDNSRead(r *MDNS, conn *net.UDPConn) { r.read(context.Background(), conn) }

// VerifMDNSIngest is the body of the `for addr, name := range entries` loop of MDNS.read with
// the cap as a parameter (mdnsMaxEntries is a constant); the packet area exercises the real loop.
func VerifMDNSIngest(r *MDNS, addr, name string, cap int) {
	r.mu.Lock()
	defer r.mu.Unlock()
	if isValidName(name) {
		if r.addrs == nil {
			r.addrs = map[string]mdnsEntry{}
			r.names = map[string]mdnsEntry{}
		}
		name := absDomainName([]byte(name))
		h := []byte(name)
		lowerASCIIBytes(h)
		key := absDomainName(h)
		addEntry(r.addrs, addr, name)
		verifTick()
		addEntry(r.names, key, addr)
		verifTick()
		for len(r.names) > cap {
			r.removeOldestEntry()
			verifTick()
		}
	}
}

// verifTick waits until the clock has visibly advanced (the model's assumption: successive
// time.Now() readings are strictly increasing).
func verifTick() {
	t := time.Now()
	for !time.Now().After(t) {
	}
}

func VerifMDNSRemoveOldest(r *MDNS) {
	r.mu.Lock()
	defer r.mu.Unlock()
	if r.addrs == nil {
		r.addrs = map[string]mdnsEntry{}
		r.names = map[string]mdnsEntry{}
	}
	r.removeOldestEntry()
	verifTick()
}

func VerifMDNSRemoveAddrEntry(r *MDNS, key, value string) {
	r.mu.Lock()
	defer r.mu.Unlock()
	if r.addrs == nil {
		r.addrs = map[string]mdnsEntry{}
		r.names = map[string]mdnsEntry{}
	}
	removeEntry(r.addrs, key, value)
}

// VerifMDNSStamp returns the lastUpdate of a key of the name table (zero when absent).
func VerifMDNSStamp(r *MDNS, key string) time.Time {
	r.mu.RLock()
	defer r.mu.RUnlock()
	return r.names[key].lastUpdate
}

// VerifMDNSDump copies both tables and lists the name keys by lastUpdate (oldest first);
// tie = two name entries carry the same stamp (the model's clock assumption does not hold).
func VerifMDNSDump(r *MDNS) (names, addrs map[string][]string, lru []string, tie bool) {
	r.mu.RLock()
	defer r.mu.RUnlock()
	names, addrs = map[string][]string{}, map[string][]string{}
	for k, e := range r.names {
		names[k] = append([]string(nil), e.values...)
		lru = append(lru, k)
	}
	for k, e := range r.addrs {
		addrs[k] = append([]string(nil), e.values...)
	}
	sort.Slice(lru, func(i, j int) bool {
		a, b := r.names[lru[i]].lastUpdate, r.names[lru[j]].lastUpdate
		if a.Equal(b) {
			tie = true
			return lru[i] < lru[j]
		}
		return a.Before(b)
	})
	return
}
