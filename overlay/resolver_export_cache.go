//go:build verif

package resolver

import (
	"context"
	"net/http"
	"reflect"
	"sync"
	"time"
	"unsafe"

	"github.com/nextdns/nextdns/resolver/query"
)

// Exports for the /verif `cache` correspondence area (C06, history half of C07); injected with
// -overlay, not part of the repository.  All identifiers start with VerifCache.

// VerifCacheDOH runs the real, unexported DOH.resolve of r.DOH with an injected RoundTripper.
func (r *DNS) VerifCacheDOH(ctx context.Context, q query.Query, buf []byte, rt http.RoundTripper) (int, ResolveInfo, error) {
	return r.DOH.resolve(ctx, q, buf, rt)
}

// VerifCacheDNS53 runs the real, unexported DNS53.resolve of r.DNS53 against addr.
func (r *DNS) VerifCacheDNS53(ctx context.Context, q query.Query, buf []byte, addr string) (int, ResolveInfo, error) {
	return r.DNS53.resolve(ctx, q, buf, addr)
}

// VerifCacheShiftEntry moves the fetch time of a stored *cacheValue back by d (virtual time
// advancing by d).  It reports whether v was a *cacheValue.
func VerifCacheShiftEntry(v interface{}, d time.Duration) bool {
	cv, ok := v.(*cacheValue)
	if ok {
		cv.time = cv.time.Add(-d)
	}
	return ok
}

// VerifCacheTruncEntry drops the sub-second part of the fetch time of a stored *cacheValue
// (virtual time has whole-second resolution).
func VerifCacheTruncEntry(v interface{}) bool {
	cv, ok := v.(*cacheValue)
	if ok {
		cv.time = cv.time.Truncate(time.Second)
	}
	return ok
}

// VerifCacheShiftLastMod moves every recorded configuration change time back by d.  The table is reached by
// reflection so that the harness keeps building when its representation changes (map under a mutex, sync.Map); the
// caller is the only goroutine using the resolver at that moment.
func (r *DNS) VerifCacheShiftLastMod(d time.Duration) {
	f := reflect.ValueOf(&r.DOH).Elem().FieldByName("lastModified")
	if !f.IsValid() {
		panic("verif: resolver.DOH has no field lastModified")
	}
	f = reflect.NewAt(f.Type(), unsafe.Pointer(f.UnsafeAddr())).Elem()
	switch m := f.Addr().Interface().(type) {
	case *map[string]time.Time:
		for u, t := range *m {
			(*m)[u] = t.Add(-d)
		}
	case *sync.Map:
		m.Range(func(k, v interface{}) bool {
			if t, ok := v.(time.Time); ok {
				m.Store(k, t.Add(-d))
			}
			return true
		})
	default:
		panic("verif: unsupported representation of DOH.lastModified: " + f.Type().String())
	}
}

// VerifCacheHoldMu takes the DoH resolver's own mutex, when it has one, and returns the function releasing it
// (burst admission of the cache area: queries started meanwhile enter the resolver together).
func (r *DNS) VerifCacheHoldMu() func() {
	f := reflect.ValueOf(&r.DOH).Elem().FieldByName("mu")
	if f.IsValid() {
		switch mu := reflect.NewAt(f.Type(), unsafe.Pointer(f.UnsafeAddr())).Interface().(type) {
		case *sync.RWMutex:
			mu.Lock()
			return mu.Unlock
		case *sync.Mutex:
			mu.Lock()
			return mu.Unlock
		}
	}
	return func() {}
}
