//go:build verif

package ddwrt

// VerifTmpl is the runtime value of the dnsmasq template (compared with the regenerated NV.Gen.Router).
func VerifTmpl() string { return tmpl }
