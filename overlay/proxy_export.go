//go:build verif

package proxy

import (
	"net"
)

// Exports for the /verif correspondence harness (injected with -overlay; not part of /repo). Only what the harness uses:
// every export couples the build of the harness to a signature.

const (
	VerifMaxUDPSize  = maxUDPSize
	VerifMaxDNS0Size = maxDNS0Size
	VerifMaxTCPSize  = maxTCPSize
)

func VerifIsPrivateReverse(qname string) bool { return isPrivateReverse(qname) }
func VerifPtrIP(ptr string) net.IP            { return ptrIP(ptr) }

// VerifServeUDP runs the real UDP listener loop on a socket the harness owns (so that it can make the pending read
// fail), with the given inflight semaphore.
func (p Proxy) VerifServeUDP(l net.PacketConn, inflight chan struct{}) error {
	return p.serveUDP(l, inflight)
}
