//go:build verif

package proxy

import (
	"net"

	"github.com/nextdns/nextdns/internal/dnsmessage"
	"github.com/nextdns/nextdns/resolver"
	"github.com/nextdns/nextdns/resolver/query"
)

// Exports for the /verif correspondence harness (injected with -overlay; not part of /repo).

const (
	VerifMaxUDPSize  = maxUDPSize
	VerifMaxDNS0Size = maxDNS0Size
	VerifMaxTCPSize  = maxTCPSize
)

func VerifReplyRCode(rcode int, q query.Query, buf []byte) int {
	return replyRCode(dnsmessage.RCode(rcode), q, buf)
}

func VerifHostsResolve(r HostResolver, q query.Query, buf []byte) (int, resolver.ResolveInfo, error) {
	return hostsResolve(r, q, buf)
}

func VerifIsPrivateReverse(qname string) bool { return isPrivateReverse(qname) }
func VerifPtrIP(ptr string) net.IP            { return ptrIP(ptr) }
func VerifIsNXDomain(msg []byte) bool         { return isNXDomain(msg) }

// VerifServeUDP runs the real UDP listener loop on a socket the harness owns (so that it can make the pending read
// fail), with the given inflight semaphore.
func (p Proxy) VerifServeUDP(l net.PacketConn, inflight chan struct{}) error { return p.serveUDP(l, inflight) }
