//go:build verif

package discovery

import "time"

// VerifExpire forces the next lookup of a file-backed source to refresh (C15 race soak).
func (r *Hosts) VerifExpire() { r.mu.Lock(); r.expires = time.Time{}; r.mu.Unlock() }
func (r *DHCP) VerifExpire()  { r.mu.Lock(); r.expires = time.Time{}; r.mu.Unlock() }
