//go:build verif

package discovery

import "time"

// VerifExpire forces the next lookup of a file-backed source to refresh (C15 race soak).
func (r *Hosts) VerifExpire() { r.mu.Lock(); r.expires = time.Time{}; r.mu.Unlock() }
func (r *DHCP) VerifExpire()  { r.mu.Lock(); r.expires = time.Time{}; r.mu.Unlock() }

// VerifMDNSAge makes every mDNS table entry d older (virtual time for the race soak: code paths
// that only run for entries that were not announced for a while).
func (r *MDNS) VerifMDNSAge(d time.Duration) {
	r.mu.Lock()
	for k, e := range r.names {
		e.lastUpdate = e.lastUpdate.Add(-d)
		r.names[k] = e
	}
	for k, e := range r.addrs {
		e.lastUpdate = e.lastUpdate.Add(-d)
		r.addrs[k] = e
	}
	r.mu.Unlock()
}
