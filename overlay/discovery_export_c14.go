//go:build verif

package discovery

import "io"

// Exports for the /verif correspondence harness (injected with -overlay; not part of /repo).
// C14 uses the real name ingestion of every source to obtain "names a source can store".

func VerifC14IsValidName(name string) bool                       { return isValidName(name) }
func VerifC14AbsDomainName(b []byte) string                      { return absDomainName(b) }
func VerifC14ParseEntries(buf []byte) (map[string]string, error) { return parseEntries(buf) }

// VerifC14MDNSStore replays the body of MDNS.read for one parsed packet on a fresh table and
// returns what LookupAddr would hand out for every address.
func VerifC14MDNSStore(entries map[string]string) map[string][]string {
	r := &MDNS{}
	for addr, name := range entries {
		if isValidName(name) {
			if r.addrs == nil {
				r.addrs = map[string]mdnsEntry{}
				r.names = map[string]mdnsEntry{}
			}
			name := absDomainName([]byte(name))
			addEntry(r.addrs, addr, name)
		}
	}
	out := map[string][]string{}
	for a := range r.addrs {
		out[a] = r.LookupAddr(a)
	}
	return out
}

func VerifC14ReadDNSMasqLease(r io.Reader) (macs, addrs map[string][]string, err error) {
	macs, addrs, _, err = readDNSMasqLease(r)
	return
}

func VerifC14ReadDHCPDLease(r io.Reader) (macs, addrs map[string][]string, err error) {
	macs, addrs, _, err = readDHCPDLease(r)
	return
}

func VerifC14ReadHostsFile(file string) (addrs map[string][]string, err error) {
	_, addrs, err = readHostsFile(file)
	return
}
