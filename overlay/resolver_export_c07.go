//go:build verif

package resolver

import (
	"time"

	"github.com/nextdns/nextdns/internal/dnsmessage"
)

// Exports for the /verif correspondence harness (injected with -overlay; not part of /repo).

// ---- C07 (message level): resolver/cache.go

func VerifUpdateTTL(msg []byte, age, maxAge, maxTTL uint32) uint32 {
	return updateTTL(msg, age, maxAge, maxTTL)
}

func VerifSkipName(msg []byte) int { return skipName(msg) }

// VerifAdjustedResponse builds a cacheValue fetched at a fixed instant and asks for the adjusted
// response `delta` later (delta may be negative or sub-second).  stored is used as v.msg as is, so
// the caller can observe whether the stored entry was written to.
func VerifAdjustedResponse(stored, buf []byte, id uint16, delta time.Duration, maxAge, maxTTL uint32) (n int, minTTL uint32) {
	t0 := time.Unix(1700000000, 0)
	v := cacheValue{time: t0, msg: stored, trans: "verif"}
	return v.AdjustedResponse(buf, id, maxAge, maxTTL, t0.Add(delta))
}

// VerifRR describes one resource record for VerifBuildResponse.
type VerifRR struct {
	Section int // 0 answer, 1 authority, 2 additional
	Name    string
	Kind    int // 0 A, 1 AAAA, 2 CNAME, 3 NS, 4 MX, 5 TXT, 6 SOA, 7 SRV, 8 OPT
	Target  string
	TTL     uint32
	Class   uint16
	Data    []byte
}

// VerifBuildResponse packs a response with the repository's own dnsmessage.Builder (optionally
// with name compression), the way an upstream would.  rrs must be ordered by section.
func VerifBuildResponse(id uint16, qname string, qtype uint16, rrs []VerifRR, compress bool) ([]byte, error) {
	b := dnsmessage.NewBuilder(nil, dnsmessage.Header{ID: id, Response: true, RecursionDesired: true, RecursionAvailable: true})
	if compress {
		b.EnableCompression()
	}
	name := func(s string) (dnsmessage.Name, error) { return dnsmessage.NewName(s) }
	if err := b.StartQuestions(); err != nil {
		return nil, err
	}
	qn, err := name(qname)
	if err != nil {
		return nil, err
	}
	if err := b.Question(dnsmessage.Question{Name: qn, Type: dnsmessage.Type(qtype), Class: dnsmessage.ClassINET}); err != nil {
		return nil, err
	}
	sec := -1
	for _, rr := range rrs {
		for sec < rr.Section {
			sec++
			var err error
			switch sec {
			case 0:
				err = b.StartAnswers()
			case 1:
				err = b.StartAuthorities()
			case 2:
				err = b.StartAdditionals()
			}
			if err != nil {
				return nil, err
			}
		}
		n, err := name(rr.Name)
		if err != nil {
			return nil, err
		}
		h := dnsmessage.ResourceHeader{Name: n, Class: dnsmessage.Class(rr.Class), TTL: rr.TTL}
		var tn dnsmessage.Name
		if rr.Kind >= 2 && rr.Kind <= 7 && rr.Kind != 5 {
			if tn, err = name(rr.Target); err != nil {
				return nil, err
			}
		}
		switch rr.Kind {
		case 0:
			var a [4]byte
			copy(a[:], rr.Data)
			err = b.AResource(h, dnsmessage.AResource{A: a})
		case 1:
			var a [16]byte
			copy(a[:], rr.Data)
			err = b.AAAAResource(h, dnsmessage.AAAAResource{AAAA: a})
		case 2:
			err = b.CNAMEResource(h, dnsmessage.CNAMEResource{CNAME: tn})
		case 3:
			err = b.NSResource(h, dnsmessage.NSResource{NS: tn})
		case 4:
			err = b.MXResource(h, dnsmessage.MXResource{Pref: 10, MX: tn})
		case 5:
			err = b.TXTResource(h, dnsmessage.TXTResource{TXT: []string{string(rr.Data)}})
		case 6:
			err = b.SOAResource(h, dnsmessage.SOAResource{NS: tn, MBox: tn, Serial: 1, Refresh: 2, Retry: 3, Expire: 4, MinTTL: 5})
		case 7:
			err = b.SRVResource(h, dnsmessage.SRVResource{Priority: 1, Weight: 2, Port: 53, Target: tn})
		default:
			err = b.OPTResource(h, dnsmessage.OPTResource{Options: []dnsmessage.Option{{Code: 12, Data: rr.Data}}})
		}
		if err != nil {
			return nil, err
		}
	}
	return b.Finish()
}
