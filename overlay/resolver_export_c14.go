//go:build verif

package resolver

import (
	"context"
	"net/http"

	"github.com/nextdns/nextdns/resolver/query"
)

// Exports for the /verif correspondence harness (injected with -overlay; not part of /repo).

// VerifDOHResolve runs the real DOH.resolve with an injected RoundTripper (C14: the recorder sees
// the request exactly as the endpoint transport would).
func VerifDOHResolve(r *DOH, ctx context.Context, q query.Query, buf []byte, rt http.RoundTripper) (int, ResolveInfo, error) {
	return r.resolve(ctx, q, buf, rt)
}
