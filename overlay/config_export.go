//go:build verif

package config

import "reflect"

// Exports for the /verif correspondence harness (injected with -overlay; not part of the repository).

// VerifProfile is a field-by-field dump of one profile.
type VerifProfile struct {
	ID      string
	Prefix  string // "" when nil
	MAC     string // "" when nil
	HasDest bool   // DestIPs != nil
	DestIPs []string
	Iface   string // remembered interface name ("" when the struct has no such field)
}

func VerifProfiles(ps Profiles) []VerifProfile {
	var out []VerifProfile
	for _, p := range ps {
		v := VerifProfile{ID: p.ID}
		if p.Prefix != nil {
			v.Prefix = p.Prefix.String()
		}
		if p.MAC != nil {
			v.MAC = p.MAC.String()
		}
		if p.DestIPs != nil {
			v.HasDest = true
			for _, ip := range p.DestIPs {
				v.DestIPs = append(v.DestIPs, ip.String())
			}
		}
		// the interface name is read by reflection so that this file compiles whether or not the
		// struct remembers it
		rv := reflect.ValueOf(p)
		for _, n := range []string{"Iface", "iface", "Interface", "ifname", "IfName"} {
			if f := rv.FieldByName(n); f.IsValid() && f.Kind() == reflect.String {
				v.Iface = f.String()
				break
			}
		}
		out = append(out, v)
	}
	return out
}

// VerifForwarders returns Domain and addr of every forwarder, in order.
func VerifForwarders(f Forwarders) (domains, addrs []string) {
	for _, r := range f {
		domains = append(domains, r.Domain)
		addrs = append(addrs, r.addr)
	}
	return
}
