//go:build verif

package endpoint

import (
	"crypto/x509"
	"net/http"
)

// Exports for the /verif correspondence harness (injected with -overlay; not part of /repo).

// VerifUseTransport builds the endpoint's real HTTP/2 transport (newTransportH2 wrapped in the
// package's `transport`) but dialling dialAddr and trusting roots, and installs it on e.
func (e *DOHEndpoint) VerifUseTransport(dialAddr string, roots *x509.CertPool) {
	rt := newTransportH2(e, []string{dialAddr})
	if t, ok := rt.(*http.Transport); ok {
		t.TLSClientConfig.RootCAs = roots
	}
	e.transport = transport{RoundTripper: rt, hostname: e.Hostname, path: e.Path, addr: dialAddr}
}

// VerifWrapRoundTripper installs inner BEHIND the package's own `transport` wrapper (the code that rewrites the
// request's URL host and path for this endpoint), as newTransport does with the real HTTP/2 transport.
func (e *DOHEndpoint) VerifWrapRoundTripper(inner http.RoundTripper) {
	e.transport = transport{RoundTripper: inner, hostname: e.Hostname, path: e.Path, addr: e.Hostname + ":443"}
}

// VerifRawRoundTripper installs rt as the endpoint's transport as it is: requests arrive at rt exactly as the resolver
// built them (cache area, histories driven through DNS.Resolve and the endpoint manager).
func (e *DOHEndpoint) VerifRawRoundTripper(rt http.RoundTripper) {
	e.transport = rt
}

// VerifUseTransportAddrs builds the endpoint's real HTTP/2 transport dialling addrs IN PARALLEL (the package's own
// parallelDialer, as with several bootstrap addresses) and trusting roots.
func (e *DOHEndpoint) VerifUseTransportAddrs(addrs []string, roots *x509.CertPool) {
	rt := newTransportH2(e, addrs)
	if t, ok := rt.(*http.Transport); ok {
		t.TLSClientConfig.RootCAs = roots
	}
	e.transport = transport{RoundTripper: rt, hostname: e.Hostname, path: e.Path, addr: addrs[0]}
}

// VerifCloseIdle drops the endpoint's idle upstream connections: the next requests have to dial again.
func (e *DOHEndpoint) VerifCloseIdle() {
	if t, ok := e.transport.(transport); ok {
		if ht, ok := t.RoundTripper.(*http.Transport); ok {
			ht.CloseIdleConnections()
		}
	}
}
