//go:build verif

package firewalla

// VerifTmpl is the runtime value of the dnsmasq template (compared with the regenerated NV.Gen.Router).
func VerifTmpl() string { return tmpl }
