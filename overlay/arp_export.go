//go:build verif

package arp

import (
	"sync/atomic"
	"time"
)

// Exports for the /verif correspondence harness (injected with -overlay; not part of /repo).

// VerifSetTable installs t as the cached neighbour table and keeps the cache from refreshing itself from the host.
func VerifSetTable(t Table) {
	atomic.StoreInt64(&global.lastUpdate, time.Now().UTC().Unix()+10*365*86400)
	global.table.Store(t)
}
