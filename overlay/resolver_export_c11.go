//go:build verif

package resolver

import (
	"context"
	"net/http"

	"github.com/nextdns/nextdns/resolver/query"
)

// Exports for the /verif correspondence harness (injected with -overlay; not part of /repo).

// VerifC11DOHResolve runs the unexported DOH.resolve with an injected RoundTripper (C11: URL side).
func VerifC11DOHResolve(r *DOH, ctx context.Context, q query.Query, buf []byte, rt http.RoundTripper) (int, ResolveInfo, error) {
	return r.resolve(ctx, q, buf, rt)
}
