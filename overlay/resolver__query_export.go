//go:build verif

package query

import "github.com/nextdns/nextdns/internal/dnsmessage"

// Exports for the /verif correspondence harness (injected with -overlay; not part of /repo).

type VerifRR struct {
	Name  string // presentation form, absolute
	Type  uint16 // 1 (A, 4 bytes), 28 (AAAA, 16 bytes) or 16 (TXT, RData = one <character-string> body)
	Class uint16
	TTL   uint32
	RData []byte
}

type VerifOpt struct {
	Code uint16
	Data []byte
}

// VerifBuildQuery builds a query with the repository's own dnsmessage.Builder (compression off):
// one question, the given additional records, then an OPT record with the given options.
func VerifBuildQuery(id, flags uint16, qname string, qtype, qcls uint16, pre []VerifRR,
	udp uint16, ttl uint32, opts []VerifOpt) ([]byte, error) {
	h := dnsmessage.Header{
		ID:                 id,
		Response:           flags&0x8000 != 0,
		OpCode:             dnsmessage.OpCode(flags >> 11 & 0xf),
		Authoritative:      flags&0x0400 != 0,
		Truncated:          flags&0x0200 != 0,
		RecursionDesired:   flags&0x0100 != 0,
		RecursionAvailable: flags&0x0080 != 0,
		RCode:              dnsmessage.RCode(flags & 0x7f),
	}
	b := dnsmessage.NewBuilder(nil, h)
	if err := b.StartQuestions(); err != nil {
		return nil, err
	}
	n, err := dnsmessage.NewName(qname)
	if err != nil {
		return nil, err
	}
	if err := b.Question(dnsmessage.Question{Name: n, Type: dnsmessage.Type(qtype), Class: dnsmessage.Class(qcls)}); err != nil {
		return nil, err
	}
	if err := b.StartAdditionals(); err != nil {
		return nil, err
	}
	for _, rr := range pre {
		n, err := dnsmessage.NewName(rr.Name)
		if err != nil {
			return nil, err
		}
		rh := dnsmessage.ResourceHeader{Name: n, Class: dnsmessage.Class(rr.Class), TTL: rr.TTL}
		switch rr.Type {
		case 1:
			var a [4]byte
			copy(a[:], rr.RData)
			err = b.AResource(rh, dnsmessage.AResource{A: a})
		case 28:
			var a [16]byte
			copy(a[:], rr.RData)
			err = b.AAAAResource(rh, dnsmessage.AAAAResource{AAAA: a})
		default:
			err = b.TXTResource(rh, dnsmessage.TXTResource{TXT: []string{string(rr.RData)}})
		}
		if err != nil {
			return nil, err
		}
	}
	rh := dnsmessage.ResourceHeader{Name: dnsmessage.MustNewName("."), Class: dnsmessage.Class(udp), TTL: ttl}
	var o dnsmessage.OPTResource
	for _, x := range opts {
		o.Options = append(o.Options, dnsmessage.Option{Code: x.Code, Data: x.Data})
	}
	if err := b.OPTResource(rh, o); err != nil {
		return nil, err
	}
	return b.Finish()
}
