//go:build verif

package hosts

import "github.com/nextdns/nextdns/discovery"

// Exports for the /verif correspondence harness (injected with -overlay; not part of /repo).

// VerifResetHosts forgets the cached hosts table (the file list was changed with discovery.VerifSetHostsFiles).
func VerifResetHosts() { hosts = discovery.Hosts{} }
