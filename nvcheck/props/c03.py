from props.common import *
from props.c05 import adv_size

FAULTS_FAIL = ("status", "empty", "hang", "midhang", "trickle", "reset", "stall", "abort", "shortcl", "finmid", "hshang")

def _oracle_staleq(case, impl):
    from props.c01 import oracle_staleq
    return oracle_staleq(case, impl)


def oracle_upfault(case, impl):
    """C03 direct checks: completion within timeout + slack; SERVFAIL for every failing fault;
    the upstream's message when a complete one arrived."""
    f = case.split(" ")
    if f[0] == "upfpair":
        # upfpair <proto> <p1> <script1> <p2> <script2>: two exchanges back to back behind the 1500 ms proxy
        outs = impl.split(" | ")
        if len(outs) != 2:
            return "unexpected harness output " + impl[:80]
        for k, (p, sc, o) in enumerate(((f[2], f[3], outs[0]), (f[4], f[5], outs[1]))):
            parts = o.split(" ")
            if len(parts) != 2 or parts[0] in ("TIMEOUT", "ERR", "close", "SHORT"):
                return "exchange %d of the pair: no reply within timeout + slack (%s)" % (k + 1, o[:40])
            if parts[1] != "lat=ok":
                return "exchange %d of the pair took longer than timeout + 1 s" % (k + 1)
            rep = unhex(parts[0])
            if f[1] == "tcp":
                rep = rep[2:]
            d = sc.split(",")[-1].split(":")
            in_time = int(d[0]) < 1500
            servfail = len(rep) >= 12 and rep[2] == 0x80 and rep[3] == 0x02 and rep[6:12] == bytes(6) and len(rep) < 300
            if not in_time and not servfail:
                return "exchange %d: its answer arrives after the deadline but the reply is not SERVFAIL" % (k + 1)
            if in_time and (servfail or len(rep) != int(d[2])):
                return ("exchange %d of the pair (same ID as exchange %d, another question): the upstream answered it in time with a "
                        "%s-byte message, the client got %s - the stray answer of the other exchange (%s bytes), which arrived "
                        "in between, if the lengths agree" % (k + 1, 2 - k, d[2], "SERVFAIL" if servfail else "%d bytes" % len(rep),
                                                               (f[3] if k else f[5]).split(",")[-1].split(":")[2]))
        return None
    which, proto, payload, fault = f[1], f[2], unhex(f[3]), f[4:]
    parts = impl.split(" ")
    if len(parts) != 2 or not parts[1].startswith("lat="):
        return "unexpected harness output " + impl[:60]
    if parts[0] in ("TIMEOUT", "ERR", "close", "SHORT"):
        return "no reply within timeout + slack under upstream fault %s" % " ".join(fault)[:60]
    if parts[1] != "lat=ok":
        return "reply took longer than timeout + 1 s under upstream fault %s" % " ".join(fault)[:60]
    rep = unhex(parts[0])
    if proto == "tcp":
        rep = rep[2:]
    servfail = (len(rep) >= 12 and rep[:2] == payload[:2] and rep[2] == 0x80 and rep[3] == 0x02
                and rep[4:6] in (b"\x00\x00", b"\x00\x01") and rep[6:12] == bytes(6) and len(rep) < 300)
    if which == "doh" and fault[0] in FAULTS_FAIL and not servfail:
        return "upstream fault %s did not produce SERVFAIL" % fault[0]
    if which == "doh" and fault[0] == "ok" and 12 <= int(fault[1]) <= 65535 and servfail:
        return ("the upstream serves this request a complete %s-byte message but the client got SERVFAIL "
                "(a query issued after the upstream behaves again is not answered normally)" % fault[1])
    if which == "dns53":
        good = [d for d in (fault[0].split(",") if fault[0] != "none" else [])
                if d.split(":")[1] in ("match", "garbage") and int(d.split(":")[0]) < 300 and int(d.split(":")[2]) >= 2]
        if not good and not servfail:
            return "no valid datagram arrived before the deadline but the reply is not SERVFAIL"
        if good and servfail and int(good[0].split(":")[2]) >= 12 and good[0].split(":")[1] == "match":
            return "a complete matching answer arrived in time but the client got SERVFAIL"
    return None

SPEC = dict(
    lean_module="NV.Props.C03",
    areas=[dict(name="upfault", n_quick=120, n_thorough=3000, shards_thorough=8, oracle=oracle_upfault, timeout=1200,
                nontrivial=lambda c, i: True),
           # one long-lived process: 70 000 exchanges in a row with a plain-DNS upstream (per-exchange counters must not run out)
           dict(name="staleq", n_quick=2, n_thorough=20, oracle=_oracle_staleq, timeout=600)],
    level_text="Theorems over the upstream model: the DNS53 read loop returns the first in-time, long-enough, ID-matching datagram and "
               "otherwise fails exactly at the deadline (completion time <= deadline for every arrival sequence); readDNSResponse's "
               "result is independent of how the body is chunked; every fault of the menu maps to SERVFAIL and a complete message to "
               "itself. The blocking call sites are re-read from the source on every run (deadline/ctx attached). The real stack "
               "(proxy -> resolver.DNS -> DoH over the endpoint's own HTTP/2+TLS transport / DNS53 over UDP) is driven through the fault "
               "menu; replies must equal the model's and arrive within timeout + 1 s, and the next query must be answered normally.",
    level_note="Partial: real time, the HTTP/2 stack and kernel timers are measured (latency bound observed per request), not modelled; "
               "the model's clock is exact. Trusted: net/http, context deadlines, net.Conn.SetDeadline.",
    trusted=COMMON_TRUST + ["net/http HTTP/2 client and httptest TLS server", "context deadline propagation", "net.Conn.SetDeadline",
                            "extract/upstream.go (deadline/ctx call-site facts)"],
    assumptions=["steady endpoint: one candidate whose probe passes; the manager keeps its default error threshold (10), so a long run of faults holds an election that re-elects the same endpoint",
                 "fault timings are chosen clearly before (< 60 ms) or after (timeout + 250 ms) the 300 ms deadline"],
)
