from props.common import *
import re

def oracle_listen(case, impl):
    """C16 direct check on the real ListenAndServe."""
    f = case.split(" ")
    if f[0] == "listenburst":
        m = re.match(r"returned=(\d+)/(\d+) err=(\S+) rebind=(\w+)", impl)
        if not m:
            return "unexpected harness output " + impl[:80]
        if m.group(1) != m.group(2):
            if m.group(3) == "-":
                return ("start %d of %s with every listener failing to bind: ListenAndServe did not return within 3 s "
                        "(the bind failure is never reported)" % (int(m.group(1)) + 1, m.group(2)))
            return "every listener failed to bind but the returned error is of class '%s'" % m.group(3)
        if m.group(4) != "ok":
            return "a listen address could not be bound again after ListenAndServe returned"
        return None
    stop = int(f[4])
    m = re.match(r"returned=(\d) err=(\S+) rebind=(\w+)", impl)
    if not m:
        return "unexpected harness output " + impl[:80]
    if m.group(1) != "1":
        return "ListenAndServe did not return within 3 s after a bind failure / stop"
    if m.group(3) != "ok":
        return "a listen address could not be bound again after ListenAndServe returned"
    if stop < 0 and m.group(2) != "bind":
        return "a listener failed to bind but the returned error is of class '%s'" % m.group(2)
    return None

def oracle_svcstart(case, impl):
    """C16 direct check on the real (*proxySvc).Start: success is reported (and hooks run) only when every listener serves."""
    f = case.split(" ")
    kind = f[1]
    m = re.match(r"result=(\w+) hooks=(\d+) bound=(\S+)", impl)
    if not m:
        return "unexpected harness output " + impl[:80]
    res, hooks, bound = m.group(1), int(m.group(2)), m.group(3)
    if kind not in ("ok", "died") and res == "started":
        return "Start returned nil although a listener could not be bound (%s): the failed start is treated as successful" % kind
    if kind not in ("ok", "died") and hooks > 0:
        return "the OnStarted hooks ran although a listener could not be bound (%s)" % kind
    if res == "started" and bound != "all":
        return "Start returned nil but the listen addresses are not all serving (%s)" % bound
    if res == "started" and hooks != 1:
        return "Start returned nil and the OnStarted hook ran %d times" % hooks
    ms = re.search(r" stop=(\d+)$", impl)
    if res == "started" and (ms is None or ms.group(1) != "1"):
        return ("the service was started and then stopped (%s) but the OnStopped hooks ran %s times: router restore / deactivation "
                "is skipped" % ("its listeners had died on their own in between" if kind == "died" else "normal stop", ms.group(1) if ms else "?"))
    if res == "error" and bound != "none":
        return "Start failed but left listeners bound (%s)" % bound
    if kind in ("ok", "died") and res != "started":
        return "every address was free but Start did not succeed (%s)" % res
    if kind in ("inuse", "notavail", "namedinuse") and res != "error":
        return "an address could not be bound (%s) but Start did not report the error (%s)" % (kind, res)
    return None

def oracle_svclife(case, impl, want="all"):
    """a history of Start / Stop / Restart / listener death on ONE real proxySvc (case `svclife <n> <ops>`), stated directly:
    c16: a successful Start or Restart leaves every address serving, a failed Start none, Stop leaves none and returns;
    c20: the OnStopped round (router Restore, deactivation) runs exactly once at the first Stop after an OnStarted round
         (Setup, activation), never twice for one stop, and Restart runs neither."""
    f = case.split(" ")
    if impl == "bad-op":
        return None
    toks = impl.split(" ")
    if len(toks) != len(f[2]):
        return "the history did not complete: " + impl[:80]
    ups = downs = 0
    pending = False          # an OnStarted round not yet followed by an OnStopped round
    prev = ""
    for op, t in zip(f[2], toks):
        m = re.match(r"(\w)=(\w+),(\d+),(\d+),([01])$", t)
        if not m or m.group(1) != op:
            return "unexpected harness token " + t
        ret, u, d, sv = m.group(2), int(m.group(3)), int(m.group(4)), m.group(5) == "1"
        if ret == "hung":
            return "%s did not return within 9 s (history %s)" % ({"S": "Start", "F": "Start", "T": "Stop", "R": "Restart"}.get(op, op), f[2])
        if want in ("all", "c16"):
            if op == "S" and (ret != "ok" or not sv):
                return "every address was free but Start %s and serving=%d (history %s)" % (ret, sv, f[2])
            if op == "F" and (ret != "err" or sv):
                return "an address was taken but Start returned %s and serving=%d (history %s)" % (ret, sv, f[2])
            if op == "R" and (ret != "ok" or not sv):
                return ("Restart %s and serving=%d: the addresses of the stopped instance could not be bound again at once (history %s)"
                        % (ret, sv, f[2]))
            if op in "TK" and sv:
                return "after %s the listen addresses still accept connections (history %s)" % ("Stop" if op == "T" else "the listeners died", f[2])
            if op == "S" and u != ups + 1:
                return "Start succeeded and the OnStarted round ran %d times (history %s)" % (u - ups, f[2])
            if op == "F" and u != ups:
                return "a failed Start ran the OnStarted hooks (history %s)" % f[2]
        if want in ("all", "c20"):
            if op == "R" and (u != ups or d != downs):
                return "Restart ran a hook round (OnStarted %+d, OnStopped %+d) (history %s)" % (u - ups, d - downs, f[2])
            if op == "T":
                if pending and d != downs + 1:
                    return ("the service had run its OnStarted round (router Setup, activation) and Stop ran the OnStopped round %d times: "
                            "the router keeps pointing at a stopped proxy (history %s)" % (d - downs, f[2]))
                if prev == "T" and d != downs:
                    return "a second Stop ran the OnStopped round again (history %s)" % f[2]
                if d > downs + 1:
                    return "one Stop ran the OnStopped round %d times (history %s)" % (d - downs, f[2])
            if op in "SFK" and d != downs:
                return "the OnStopped round ran without a Stop (history %s)" % f[2]
        if op == "S" and ret == "ok":
            pending = True
        if op == "T":
            pending = False
        ups, downs, prev = u, d, op
    return None


def oracle_runloop(case, impl, want="all"):
    """the daemon's real run loop (host/service.Run) with a scripted Runner, stated directly:
    c16: "or the service is stopped": SIGTERM (from a terminal also SIGHUP / interrupt) makes the loop call Stop() and return;
         a failed Start() is returned, never followed by a running service;
    c20: a service that started gets exactly one Stop() - the call the router Restore and the deactivation hang on - when a
         stopping signal arrives, and none before."""
    import re
    f = case.split(" ")
    m = re.match(r"calls=([\w,]*) end=(\S+)$", impl)
    if not m:
        return "the run loop did not run: " + impl[:80]
    calls, end = [c for c in m.group(1).split(",") if c], m.group(2)
    fg, ok = f[1] == "fg", f[2] == "ok"
    sigs = [] if f[3] == "-" else f[3].split(",")
    stopping = [s for s in sigs if s == "TERM" or (fg and s in ("HUP", "INT"))]
    if calls[:1] != ["start"]:
        return "the run loop did not begin with Start()"
    if not ok:
        if end != "ret=err" or "stop" in calls:
            return "Start() failed but the run loop went on (calls %s, end %s)" % (calls, end)
        return None
    if stopping:
        if calls.count("stop") != 1:
            return ("the service was started and %s arrived, but Stop() was called %d times: the OnStopped hooks (router Restore, "
                    "deactivation) %s" % (stopping[0], calls.count("stop"), "never run" if calls.count("stop") == 0 else "run again"))
        if end != "ret=nil":
            return "Stop() was called after %s but the process did not end (%s)" % (stopping[0], end)
    else:
        if end == "died":
            return "the process died on signals %s without calling Stop(): nothing undoes the router set-up" % sigs
    return None


def oracle_svc(case, impl):
    return oracle_svclife(case, impl, "c16") if case.startswith("svclife ") else oracle_svcstart(case, impl)


SPEC = dict(
    lean_module="NV.Props.C16",
    areas=[dict(name="listen", n_quick=150, n_thorough=2400, shards_thorough=8, oracle=oracle_listen, timeout=900),
           dict(name="svcstart", binary="main.test", n_quick=6, n_thorough=24, shards_thorough=1, oracle=oracle_svc, timeout=400),
           # the run loop that turns signals into Stop(): host/service.Run in a child process with a scripted Runner
           dict(name="runloop", n_quick=60, n_thorough=1200, shards_thorough=2, oracle=lambda c, i: oracle_runloop(c, i, "c16"), timeout=600)],
    level_text="The start-up/shutdown protocol of ListenAndServe is modelled as a small-step system with ANY number of listener threads; "
               "kernel-checked invariants over all interleavings give: no bound socket at return, the bind error is the one returned "
               "(no external stop), no deadlock after cancellation and a strictly decreasing rank (termination). The pre-repair protocol "
               "is shown to leak by a concrete schedule. The real ListenAndServe is run on 1-4 addresses (v4/v6) with every kind of "
               "bind failure / stop timing and must agree with the model on (returned, error class, addresses free again).",
    level_note="Partial for the schedule quantifier on the implementation side: the Go scheduler is sampled (60-1200 runs), the model "
               "covers all interleavings. (*proxySvc).Start's retry loop is modelled (NV.SvcStart) and its CFG certificate regenerated; proxySvc.start's 5-second wait is real time in the svcstart area and an abstract 'attempt' in the model. Trusted: net.ListenConfig, "
               "mutex and channel semantics, context cancellation.",
    trusted=COMMON_TRUST + ["Go context/channel/mutex semantics", "kernel: closing a socket wakes its blocked reader/acceptor"],
    assumptions=["the hand model's atomic steps correspond to the critical sections and channel operations of proxy.go (reviewed by hand; "
                 "checked against behaviour by the listen area)", "hosts-file resolution of listen names is not exercised (addresses are literal)"],
)
