from props.common import *
import re

def oracle_listen(case, impl):
    """C16 direct check on the real ListenAndServe."""
    f = case.split(" ")
    if f[0] == "listenburst":
        m = re.match(r"returned=(\d+)/(\d+) err=(\S+) rebind=(\w+)", impl)
        if not m:
            return "unexpected harness output " + impl[:80]
        if m.group(1) != m.group(2):
            if m.group(3) == "-":
                return ("start %d of %s with every listener failing to bind: ListenAndServe did not return within 3 s "
                        "(the bind failure is never reported)" % (int(m.group(1)) + 1, m.group(2)))
            return "every listener failed to bind but the returned error is of class '%s'" % m.group(3)
        if m.group(4) != "ok":
            return "a listen address could not be bound again after ListenAndServe returned"
        return None
    stop = int(f[4])
    m = re.match(r"returned=(\d) err=(\S+) rebind=(\w+)", impl)
    if not m:
        return "unexpected harness output " + impl[:80]
    if m.group(1) != "1":
        return "ListenAndServe did not return within 3 s after a bind failure / stop"
    if m.group(3) != "ok":
        return "a listen address could not be bound again after ListenAndServe returned"
    if stop < 0 and m.group(2) != "bind":
        return "a listener failed to bind but the returned error is of class '%s'" % m.group(2)
    return None

SPEC = dict(
    lean_module="NV.Props.C16",
    areas=[dict(name="listen", n_quick=150, n_thorough=2400, shards_thorough=8, oracle=oracle_listen, timeout=900)],
    level_text="The start-up/shutdown protocol of ListenAndServe is modelled as a small-step system with ANY number of listener threads; "
               "kernel-checked invariants over all interleavings give: no bound socket at return, the bind error is the one returned "
               "(no external stop), no deadlock after cancellation and a strictly decreasing rank (termination). The pre-repair protocol "
               "is shown to leak by a concrete schedule. The real ListenAndServe is run on 1-4 addresses (v4/v6) with every kind of "
               "bind failure / stop timing and must agree with the model on (returned, error class, addresses free again).",
    level_note="Partial for the schedule quantifier on the implementation side: the Go scheduler is sampled (60-1200 runs), the model "
               "covers all interleavings. proxySvc.start's 5-second wait (run.go) is outside the model. Trusted: net.ListenConfig, "
               "mutex and channel semantics, context cancellation.",
    trusted=COMMON_TRUST + ["Go context/channel/mutex semantics", "kernel: closing a socket wakes its blocked reader/acceptor"],
    assumptions=["the hand model's atomic steps correspond to the critical sections and channel operations of proxy.go (reviewed by hand; "
                 "checked against behaviour by the listen area)", "hosts-file resolution of listen names is not exercised (addresses are literal)"],
)
