from props.common import *

# ------------------------------------------------------------------ C11 (first matching profile)
V4IN6 = bytes(10) + b"\xff\xff"


def _norm(ip):
    """(family, address bytes) with IPv4-mapped IPv6 treated as IPv4; None = not an address"""
    if len(ip) == 4:
        return (4, ip)
    if len(ip) == 16:
        return (4, ip[12:]) if ip[:12] == V4IN6 else (6, ip)
    return None


def _in_prefix(pfx, src):
    ip, mask = pfx
    n = _norm(ip)
    s = _norm(src)
    if n is None or s is None or n[0] != s[0]:
        return False
    if n[0] == 4 and len(mask) == 16:
        mask = mask[12:]
    if len(mask) != len(n[1]):
        return False
    return all((a & m) == (b & m) for a, b, m in zip(n[1], s[1], mask))


def _ip_eq(a, b):
    na, nb = _norm(a), _norm(b)
    if na is None or nb is None:
        return a == b
    return na == nb


def _entry(tok):
    f = tok.split(";")
    pfx = None
    if f[1] != "nil":
        a, b = f[1].split("/")
        pfx = (unhex(a), unhex(b))
    dests = [] if f[3] == "-" else [unhex(x) for x in f[3].split("+")]
    return dict(id=f[0], pfx=pfx, mac=unhex(f[2]), dests=dests)


def _opt(tok):
    return None if tok == "nil" else unhex(tok)



def _same_cond(a, b):
    if len(a["mac"]) > 0 and len(b["mac"]) > 0 and a["mac"] == b["mac"]:
        return True
    if a["dests"] and b["dests"] and len(a["dests"]) == len(b["dests"]) and all(_ip_eq(x, y) for x, y in zip(a["dests"], b["dests"])):
        return True
    if a["pfx"] is not None and b["pfx"] is not None:
        na, nb = _norm(a["pfx"][0]), _norm(b["pfx"][0])
        ma = a["pfx"][1][12:] if len(a["pfx"][1]) == 16 and na and na[0] == 4 else a["pfx"][1]
        mb = b["pfx"][1][12:] if len(b["pfx"][1]) == 16 and nb and nb[0] == 4 else b["pfx"][1]
        if na == nb and ma == mb:
            return True
    ca = a["pfx"] is not None or len(a["mac"]) > 0 or len(a["dests"]) > 0
    cb = b["pfx"] is not None or len(b["mac"]) > 0 or len(b["dests"]) > 0
    return (not ca) and (not cb)


def _store_of(tokens):
    """the stored list for configured entry tokens (raw;id;pfx;mac;dests;final) under Set's replace-same-condition rule"""
    exp = []
    for tok in tokens:
        g = tok.split(";")
        if len(g) != 6:
            return None
        e = _entry(";".join(g[1:5]))
        stored = dict(e, dests=[] if g[5] == "-" else [unhex(x) for x in g[5].split("+")])
        for k, old in enumerate(exp):
            if _same_cond(e, old["parsed"]):
                exp[k] = dict(parsed=stored, id=e["id"], cmp=e)
                break
        else:
            exp.append(dict(parsed=stored, id=e["id"], cmp=e))
    return [x["parsed"] for x in exp]


def _want_profile(entries, src, dst, mac):
    last_default = "-"
    for e in entries:
        cond = e["pfx"] is not None or len(e["mac"]) > 0 or len(e["dests"]) > 0
        if not cond:
            last_default = e["id"]
            continue
        ok = True
        if e["pfx"] is not None:
            ok = ok and src is not None and _in_prefix(e["pfx"], src)
        if len(e["mac"]) > 0:
            ok = ok and len(mac) > 0 and mac == e["mac"]
        if len(e["dests"]) > 0:
            ok = ok and dst is not None and any(_ip_eq(x, dst) for x in e["dests"])
        if ok:
            return e["id"]
    return last_default


def oracle_pseq(case, impl):
    """C11 on one resolver answering a sequence of clients: every query goes to the URL path of, and is cached under,
    the profile of ITS OWN tuple (first matching conditional entry, else last unconditional)."""
    if not impl.startswith("seq="):
        return "profile code / harness did not produce a result: " + impl[:80]
    f = case.split(" ")
    entries = _store_of(f[2:])
    if entries is None:
        return None
    tuples = f[1].split(",")
    outs = [] if impl == "seq=-" else impl[4:].split(",")
    if len(outs) != len(tuples):
        return "%d queries, %d results" % (len(tuples), len(outs))
    for i, (t, o) in enumerate(zip(tuples, outs)):
        a, b, m = t.split("/")[:3]
        want = _want_profile(entries, _opt(a), _opt(b), unhex(m))
        idb = b"" if want == "-" else unhex(want)
        ctx, path, prof = [unhex(x) for x in o.split(":")]
        if prof != idb or path != b"/" + idb or ctx != PREFIX + idb:
            return ("query %d of the sequence, client (src=%s dst=%s mac=%s), was resolved under profile %r (path %r, cache context %r); "
                    "its first matching conditional entry / last unconditional entry is %r" % (i + 1, a, b, m, prof, path, ctx, idb))
    return None


def oracle_pwire(case, impl):
    """C11 through the real UDP listener: clients on their own source and destination addresses, all in flight together;
    every query is resolved under the profile of ITS OWN source / destination address."""
    if not impl.startswith("seq="):
        return "a query sent over UDP was not resolved / answered: " + impl[:80]
    f = case.split(" ")
    entries = _store_of(f[2:])
    if entries is None:
        return None
    tuples = f[1].split(",")
    outs = [] if impl == "seq=-" else impl[4:].split(",")
    if len(outs) != len(tuples):
        return "%d queries, %d results" % (len(tuples), len(outs))
    for i, (t, o) in enumerate(zip(tuples, outs)):
        a, b, m = t.split("/")[:3]
        want = _want_profile(entries, _opt(a), _opt(b), unhex(m))
        idb = b"" if want == "-" else unhex(want)
        got = b"" if o == "-" else unhex(o)
        if got != idb:
            return ("UDP query %d of %d in flight together, sent from %s to %s, was resolved under profile %r; the first matching "
                    "conditional entry / last unconditional entry for its own addresses is %r"
                    % (i + 1, len(tuples), ".".join(str(x) for x in unhex(a)), ".".join(str(x) for x in unhex(b)), got, idb))
    return None


def oracle_prof(case, impl):
    if case.startswith("pseq "):
        return oracle_pseq(case, impl)
    if case.startswith("pwire "):
        return oracle_pwire(case, impl)
    if impl.startswith("PANIC") or impl.startswith("PARSE-MISMATCH") or impl.startswith("set-error") or impl == "bad-case":
        return "profile code / harness did not produce a result: " + impl[:80]
    f = case.split(" ")
    d = kv("x " + impl)
    src, dst, mac = _opt(f[1]), _opt(f[2]), unhex(f[3])
    entries = [] if d["list"] == "-" else [_entry(t) for t in d["list"].split(",")]
    # the stored list itself must be what Set's rule gives for the configured entries, in order:
    # an entry replaces an earlier one only when it has the SAME condition (same MAC, same interface
    # addresses, same subnet i.e. same network AND mask, or both unconditional)
    exp = []
    for tok in f[4:]:
        g = tok.split(";")
        if len(g) != 6:
            exp = None
            break
        e = _entry(";".join(g[1:5]))
        # what stays in the store: the parsed entry with DestIPs as the harness left them (g[5])
        stored = dict(e, dests=[] if g[5] == "-" else [unhex(x) for x in g[5].split("+")])
        def same(a, b):
            if len(a["mac"]) > 0 and len(b["mac"]) > 0 and a["mac"] == b["mac"]:
                return True
            if a["dests"] and b["dests"] and len(a["dests"]) == len(b["dests"]) and all(_ip_eq(x, y) for x, y in zip(a["dests"], b["dests"])):
                return True
            if a["pfx"] is not None and b["pfx"] is not None:
                na, nb = _norm(a["pfx"][0]), _norm(b["pfx"][0])
                ma = a["pfx"][1][12:] if len(a["pfx"][1]) == 16 and na and na[0] == 4 else a["pfx"][1]
                mb = b["pfx"][1][12:] if len(b["pfx"][1]) == 16 and nb and nb[0] == 4 else b["pfx"][1]
                if na == nb and ma == mb:
                    return True
            ca = a["pfx"] is not None or len(a["mac"]) > 0 or len(a["dests"]) > 0
            cb = b["pfx"] is not None or len(b["mac"]) > 0 or len(b["dests"]) > 0
            return (not ca) and (not cb)
        for k, old in enumerate(exp):
            if same(e, old["parsed"]):
                exp[k] = dict(parsed=stored, id=e["id"])
                break
        else:
            exp.append(dict(parsed=stored, id=e["id"]))
    if exp is not None and [x["id"] for x in exp] != [x["id"] for x in entries]:
        return "stored profile list %s is not the configured list under the replace-same-condition rule %s" % (
            [x["id"] for x in entries], [x["id"] for x in exp])
    want = None
    last_default = "-"
    for e in entries:
        cond = e["pfx"] is not None or len(e["mac"]) > 0 or len(e["dests"]) > 0
        if not cond:
            last_default = e["id"]
            continue
        ok = True
        if e["pfx"] is not None:
            ok = ok and src is not None and _in_prefix(e["pfx"], src)
        if len(e["mac"]) > 0:
            ok = ok and len(mac) > 0 and mac == e["mac"]
        if len(e["dests"]) > 0:
            ok = ok and dst is not None and any(_ip_eq(x, dst) for x in e["dests"])
        if ok:
            want = e["id"]
            break
    if want is None:
        want = last_default
    if d["get"] != want:
        return "client (src=%s dst=%s mac=%s) resolved under profile %s; first matching conditional entry / last unconditional entry is %s" % (
            f[1], f[2], f[3], d["get"], want)
    # run.go's shortcut: with no profile, or one profile answering the nil client, the id is computed once
    if len(entries) == 0 or (len(entries) == 1 and d["nilget"] != "-"):
        if d["get"] != d["nilget"]:
            return "static GetProfileURL shortcut would use %s, Get gives %s for this client" % (d["nilget"], d["get"])
    return None


PREFIX = b"https://dns.nextdns.io/"


def oracle_purl(case, impl):
    idb = unhex(case.split(" ")[1])
    if not impl.startswith("ctx="):
        return "DoH resolve did not complete: " + impl[:80]
    d = kv("x " + impl)
    if unhex(d["ctx"]) != PREFIX + idb:
        return "cache context %r is not the profile URL of %r" % (unhex(d["ctx"]), idb)
    if unhex(d["path"]) != b"/" + idb:
        return "request path %r is not /%s" % (unhex(d["path"]), idb.decode("latin1"))
    if unhex(d["profile"]) != idb:
        return "ResolveInfo.Profile %r differs from the id %r" % (unhex(d["profile"]), idb)
    return None


def _oracle_cache_c11(case, impl):
    """C11 on the DoH side under concurrency (cache area, ops C / CC): every query is sent to the URL of ITS profile and
    answered from it, also when another client's identical question is in flight."""
    from props.c06 import oracle_cache
    r = oracle_cache(case, impl)
    if r is not None and "dotted-label alias" in r:
        return None   # the name-representation finding recorded under C06/C07; not about profiles
    return r


def oracle_realep(case, impl):
    import re
    """the endpoint stack as configuration strings build it: where did each request go, was it a query, who was elected"""
    f = case.split(" ")
    if impl.startswith(("PANIC", "TIMEOUT", "ERR")) or impl == "bad-op":
        return "realep did not complete: " + impl[:100]
    layout = [r.split("+") for r in f[1].split("/")]
    ops = f[2].split(",")
    outs = impl.split(" ")
    if len(outs) != len(ops):
        return "realep: %d outputs for %d operations" % (len(outs), len(ops))
    down, kill = set(), 0
    active = [None] * len(layout)

    def path_of(ep, prof):
        return ("/" if prof == "-" else "/" + prof) if ep == "-" else "/" + ep

    def elect(eps):
        for e in eps:
            if path_of(e, "-")[1:] not in down:
                return e
        return eps[0]
    for op, out in zip(ops, outs):
        if op[0] == "d":
            down.add(op[1:])
        elif op[0] == "u":
            down.discard(op[1:])
        elif op[0] == "k":
            kill = int(op[1:])
        elif op[0] == "e":
            i = int(op[1:])
            if out != "e=0":
                return "election on resolver %d: a probe reached the server as a message that is not a query (QR set)" % i
            active[i] = elect(layout[i])
        elif op[0] == "q":
            i, prof = op[1:].split(":")
            i = int(i)
            m = re.match(r"q=([^|]*)\|([01])\|(ok|err)$", out)
            if not m:
                return "unexpected output " + out[:60]
            paths, bad, res = m.group(1).split("+"), m.group(2), m.group(3)
            if active[i] is None:
                active[i] = elect(layout[i])
            want = path_of(active[i], prof)
            if bad == "1":
                return "a request of query %s reached the server as a message that is not a query" % op
            others = [p for p in paths if p not in (want, "-")]
            if others:
                allowed = {path_of(e, prof) for e in layout[i]}
                if any(p not in allowed for p in others):
                    return ("query %s (resolver %d = upstream(s) %s, profile %s): a request for it reached path %s; the upstream chosen for "
                            "it is %s" % (op, i, "+".join(layout[i]), prof, ",".join(others), want))
                return ("query %s went to %s; the election before it (endpoints %s in preference order, failing: %s) elects %s"
                        % (op, ",".join(others), "+".join(layout[i]), ",".join(sorted(down)) or "none", want))
            if len([p for p in paths if p != "-"]) > 1:
                return "query %s was sent %d times (%s): an exchange is one request" % (op, len(paths), "+".join(paths))
            fails = kill > 0 or want[1:] in down
            if kill > 0:
                kill -= 1
            if not fails and res != "ok":
                return "query %s failed although its upstream %s serves" % (op, want)
            if not fails and paths == ["-"]:
                return "query %s: nothing reached the server" % op
    return None


SPEC = dict(
        lean_module="NV.Props.C11",
        level_text="Kernel-checked theorems for every ordered profile list and client tuple: Profiles.Get returns the first conditional entry "
                   "that matches, else the last unconditional entry, else none (get_spec); an unconditional entry never shadows a later matching "
                   "conditional one; run.go's static GetProfileURL shortcut returns the same (url, profile) as the dynamic closure for every "
                   "client (condition re-translated from run.go on every run); URL = prefix ++ id gives path '/'+id and a cache context that "
                   "are injective in the id. Model tied to the code through the real Profiles.Set/Get on generated lists (v4/v6 nested "
                   "subnets incl. v4-mapped, MACs, interface lo with varied DestIPs, unconditional entries) x client tuples (4/16-byte "
                   "forms, absent/empty/bad-length addresses, absent MAC), an independent oracle, and the real DOH.resolve with recording "
                   "cache and transport for the URL side.",
        level_note="Trusted: Lean kernel; harness/generator; net.ParseCIDR/ParseMAC/InterfaceByName (each value is parsed by the real newConfig "
                   "and the parsed fields are handed to the model); url.Parse for ids of URL-unreserved characters; the two closures of run.go "
                   "are modelled (package main cannot be linked into the harness) with their condition and URL literals regenerated by the "
                   "translator. IPNet.String equality in Set is modelled as equality of networkNumberAndMask.",
        areas=[dict(name="realep", n_quick=25, n_thorough=400, shards_thorough=2, oracle=oracle_realep, timeout=900),
               dict(name="localaddr", n_quick=25, n_thorough=300, shards_thorough=2, oracle=oracle_pwire, timeout=600),
               dict(name="cache", n_quick=700, n_thorough=12000, shards_thorough=8, oracle=_oracle_cache_c11, nontrivial=lambda c, i: "cc," in i or ",up=D:" in i, timeout=900),
               dict(name="prof", n_quick=80000, n_thorough=1600000, shards_thorough=8, oracle=oracle_prof,
                    nontrivial=lambda c, i: " get=- " not in i),
               dict(name="purl", n_quick=8000, n_thorough=160000, shards_thorough=8, oracle=oracle_purl)],
        trusted=COMMON_TRUST + ["translator /verif/extract (static-shortcut condition, URL literals, endpoint literals of run.go)",
                                "net.ParseCIDR, net.ParseMAC, net.InterfaceByName, url.Parse (Go standard library)"],
        assumptions=["profile entries are produced by newConfig (MAC / DestIPs nil or non-empty)",
                     "profile ids consist of URL-unreserved characters (NextDNS ids are 6 hex digits); other ids are outside the URL theorem",
                     "every DoH endpoint constructed by run.go has an empty Path (regenerated fact), so transports keep the request path"],
)
