from props.common import *

# ------------------------------------------------------------------ C14: client metadata
# Independent direct checks of the property on what the REAL code produced (no model involved).

B32 = set(b"0123456789ABCDEFGHIJKLMNOPQRSTUV")
TOKEN = set(b"!#$%&'*+-.^_`|~0123456789abcdefghijklmnopqrstuvwxyzABCDEFGHIJKLMNOPQRSTUVWXYZ")


def item(s):
    return b"" if s == "." else bytes.fromhex(s)


def valid_value(v):
    return all((c >= 0x20 and c != 0x7f) or c == 9 for c in v)


def valid_name(k):
    return len(k) > 0 and all(c in TOKEN for c in k)


def parse_extras(s):
    if s == "-":
        return []
    out = []
    for p in s.split(";"):
        f = p.split("=")
        out.append((item(f[0]), [item(v) for v in f[1:]]))
    return out


def parse_req(impl):
    d = kv("x " + impl)
    return d.get("sent"), dict((k, vs) for k, vs in parse_extras(d.get("hdrs", "-")))


def mac_str(mac):
    return ":".join("%02x" % b for b in mac).encode()


def is_loopback(ip):
    if len(ip) == 4:
        return ip[0] == 127
    if len(ip) == 16 and ip[:10] == bytes(10) and ip[10:12] == b"\xff\xff":
        return ip[12] == 127
    return ip == bytes(15) + b"\x01"


def b32(n):
    s = ""
    while True:
        s = "0123456789ABCDEFGHIJKLMNOPQRSTUV"[n % 32] + s
        n //= 32
        if n == 0:
            return s.encode()


def check_id(idv, what, h=None):
    if len(idv) != 5 or any(c not in B32 for c in idv):
        return "%s %r is not five base-32 characters (bytes of the profile / device leak into the id)" % (what, idv)
    if h is not None and idv != (b32(h) + b"0000")[:5]:
        return "%s %r is not derived from xxhash(profile||device) = %d" % (what, idv, h)
    return None


def sanitized(v):
    return bytes(c for c in v if (c >= 0x20 and c != 0x7f) or c == 9)


def oracle(case, impl):
    f = case.split(" ")
    op = f[0]
    if impl == "bad-op":
        return None   # a malformed corpus line: both sides must say so (compared by the engine)
    if impl.startswith(("PANIC", "TIMEOUT", "ERR")):
        return "real code failed: " + impl[:120]
    if op == "sid":
        return check_id(unhex(impl), "shortID", int(f[3]))
    if op == "ci":
        d = kv("x " + impl)
        peer, mac = unhex(f[1]), (None if f[2] == "none" else unhex(f[2]))
        if is_loopback(peer):
            return None
        why = check_id(unhex(d["id"]), "X-Device-Id", int(f[4]) if mac is not None else int(f[5]))
        if why:
            return why
        model = unhex(d["model"])
        if mac is not None:
            want = b"mac:" + mac_str(mac[:3]) if len(mac) >= 3 else b""
            if model != want:
                return "model %r reveals something else than the vendor prefix %r" % (model, want)
            if len(mac) >= 6 and any(mac_str(mac) in unhex(d[k]) for k in ("id", "model")):
                return "the full MAC appears in id/model"
        elif model:
            return "model set without a MAC"
        return None
    if op in ("hdr", "e2e"):
        sent, hdrs = parse_req(impl)
        extras = parse_extras(f[-1])
        ex_ok = all(valid_name(k) and all(valid_value(v) for v in vs) for k, vs in extras)
        ex_keys = {k for k, _ in extras}
        dev = [k for k in hdrs if k.startswith(b"X-Device-") and k not in ex_keys]
        if f[1] == "off" and dev:
            return "client reporting is off but the request carries %r" % dev
        if op == "e2e" or f[1] == "off":
            # the safety half: whatever the discovered names are, the request must reach the network
            peer = unhex(f[2]) if op == "e2e" else b""
            if ex_ok and sent != "1":
                return "net/http rejected the request before sending it (every query of this client fails): sent=%s" % sent
            if op == "e2e" and f[1] == "on" and not is_loopback(peer):
                mac = None if f[3] == "none" else unhex(f[3])
                if b"X-Device-Id" not in ex_keys:
                    idv = hdrs.get(b"X-Device-Id", [b""])[0]
                    why = check_id(idv, "X-Device-Id", int(f[5]) if mac is not None else int(f[6]))
                    if why:
                        return why
                if mac is not None and b"X-Device-Model" not in ex_keys:
                    want = [b"mac:" + mac_str(mac[:3])] if len(mac) >= 3 else None
                    if hdrs.get(b"X-Device-Model") != want:
                        return "X-Device-Model %r reveals something else than the vendor prefix" % hdrs.get(b"X-Device-Model")
                if mac is not None and len(mac) >= 6:
                    for k in (b"X-Device-Id", b"X-Device-Model"):
                        if k not in ex_keys and any(mac_str(mac) in v for v in hdrs.get(k, [])):
                            return "the full MAC appears in " + k.decode()
        if op == "hdr" and f[1] == "raw":
            # X-Device-Name alone can never be the reason for a rejection
            others_ok = ex_ok and all(valid_value(unhex(x)) for x in f[2:5])
            if others_ok and sent != "1":
                return "a device name made net/http reject the request: sent=%s" % sent
            if b"X-Device-Name" not in ex_keys:
                # exactly the invalid bytes are dropped; a valid name is sent unchanged
                want = sanitized(unhex(f[5]))
                if hdrs.get(b"X-Device-Name") != ([want] if want else None):
                    return "X-Device-Name %r is not the name without its invalid bytes %r" % (hdrs.get(b"X-Device-Name"), want)
        return None
    return None



def _oracle_sources_alive(case, impl):
    from props.c12 import oracle_hrefresh
    r = oracle_hrefresh(case, impl)
    return r if (r and "blocks" in r) else None


def _oracle_mdns_alive(case, impl):
    from props.c18 import oracle_flood
    if case.startswith("mdnsflood "):
        r = oracle_flood(case, impl)
        return r if (r and ("blocks" in r or "not learned" in r)) else None
    if impl.startswith(("PANIC", "TIMEOUT", "LOST")):
        return "the mDNS reader did not survive what was advertised: " + impl[:160]
    return None


SPEC = dict(
        lean_module="NV.Props.C14",
        level_text="Kernel-checked theorems over every hash function, profile, MAC, address, discovered-name table and extra-header set: "
                   "reporting off ⇒ no X-Device-* header; the LAN device id is exactly five characters of 0-9A-V determined by "
                   "xxhash(profile‖device) alone (no input byte can appear in it); the model depends on the first three MAC bytes only "
                   "and no MAC-derived header contains the colon-hex MAC; for every byte string a source can store as a name the "
                   "X-Device-Name value passes httpguts.ValidHeaderFieldValue, so net/http never rejects the request. The model is tied "
                   "to run.go / resolver/doh.go / discovery by a differential harness compiled into package main (real closure, real "
                   "DOH.resolve, real http.Transport verdict, real xxhash incl. crafted small-hash preimages) and by header literals "
                   "regenerated from resolver/doh.go.",
        level_note="Trusted: Lean kernel; net/http validateHeaders is modelled (httpguts byte classes) and compared with the real transport on "
                   "every case; xxhash.Sum64, config.Profiles.Get, net.IP.String, the discovery tables and host.* are parameters. "
                   "Loopback-branch values (host name/model, machine id) come from the local machine, not from LAN devices; only the name is sanitised.",
        areas=[dict(name="cinfo", binary="main.test", n_quick=60000, n_thorough=1600000, shards_thorough=8, oracle=oracle,
                    nontrivial=lambda c, i: not c.startswith(("nn ", "stored "))),
               # "whatever names LAN devices advertise through mDNS ... a client's queries keep resolving": the real receive
               # loop fed with packets (area shared with C18); a reader that dies or wedges inside the table's lock blocks the
               # ClientInfo lookup every query makes
               # the file-backed sources (hosts file, lease file) across refreshes whose read fails: lookups must come back
               dict(name="hrefresh", n_quick=90, n_thorough=1500, shards_thorough=2, oracle=_oracle_sources_alive),
               dict(name="mdns", n_quick=300, n_thorough=4000, shards_thorough=4, oracle=_oracle_mdns_alive, timeout=900)],
        trusted=COMMON_TRUST + ["overlay test harness compiled into package main (overlay/main_test.go.txt)",
                                "translator /verif/extract (header literals and shortID constants)"],
        assumptions=["xxhash.Sum64 is an arbitrary function Bytes -> uint64 in the theorems; the harness passes its real value",
                     "strings.ToLower/ToUpper are modelled on ASCII (IP text, colon-hex MAC and the hex machine id are ASCII)",
                     "ExtraHeaders is set by run.go to a constant valid User-Agent; theorems about acceptance assume valid extra headers",
                     "host.Name()/host.Model()/machine id (loopback branch) are local-machine values outside the LAN-attacker quantifier"],
)
