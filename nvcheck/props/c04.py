from props.common import *
import re

def oracle_cap(case, impl):
    """C04 direct check: after the storm exactly K slow queries run concurrently, all K+2 are
    answered, and the proxy is alive."""
    k = int(case.split(" ")[1])
    if case.startswith("capudp "):
        m = re.match(r"max=(\d+) replied=(\d+)/(\d+) returned=([01])$", impl)
        if not m:
            return "unexpected harness output: " + impl[:80]
        n = case.split(" ")[2]
        if int(m.group(1)) < k or m.group(2) != m.group(3):
            return ("after %s transient failures of the UDP listener's pending read only %s of %d queries ran concurrently and %s/%s "
                    "were answered: the read-error path keeps capacity units" % (n, m.group(1), k, m.group(2), m.group(3)))
        if int(m.group(1)) > k:
            return "%s queries were processed concurrently with max-inflight-requests=%d" % (m.group(1), k)
        if m.group(4) != "1":
            return "serveUDP did not return after its socket was closed (after %s transient read failures)" % n
        return None
    if case.startswith("caplisten "):
        a = int(case.split(" ")[2])
        m = re.match(r"max=(\d+) replied=(\d+)/(\d+)$", impl)
        if not m:
            return "unexpected harness output: " + impl[:80]
        if int(m.group(1)) > k:
            return ("%s queries were processed concurrently with max-inflight-requests=%d on %d listen address(es)"
                    % (m.group(1), k, a))
        if int(m.group(1)) < k or m.group(2) != m.group(3):
            return ("max-inflight-requests=%d on %d listen address(es): %s queries ran concurrently, %s/%s answered"
                    % (k, a, m.group(1), m.group(2), m.group(3)))
        return None
    m = re.match(r"max=(\d+) replied=(\d+)/(\d+) probe=(\w+)", impl)
    if not m:
        return "unexpected harness output: " + impl[:80]
    mx, rep, n, probe = int(m.group(1)), int(m.group(2)), int(m.group(3)), m.group(4)
    if mx > k:
        return "%d queries were processed concurrently with max-inflight-requests=%d" % (mx, k)
    if mx < k:
        return "only %d of %d capacity units were available after the storm (capacity not given back)" % (mx, k)
    if rep != n or probe != "ok":
        return "after the storm %d/%d rendezvous queries were answered, probe=%s" % (rep, n, probe)
    m2 = re.search(r" mix=(\S+) mixreplied=(\d+)/(\d+)", impl)
    if not m2:
        return "unexpected harness output: " + impl[:120]
    if m2.group(1) != "ok":
        return "%s queries were processed concurrently with max-inflight-requests=%d when UDP and TCP clients are mixed (the capacity is not one pool shared by all listeners)" % (m2.group(1).split(":")[-1], k)
    if m2.group(2) != m2.group(3):
        return "mixed UDP/TCP rendezvous: %s/%s queries answered" % (m2.group(2), m2.group(3))
    return None

SPEC = dict(
    lean_module="NV.Props.C04",
    areas=[dict(name="cap", n_quick=6, n_thorough=60, shards_thorough=6, oracle=oracle_cap, timeout=600)],
    level_text="The control-flow graphs of serveUDP, serveTCPConn and their handler closures are regenerated from the source on every "
               "run and projected on the inflight semaphore; a kernel-checked certificate shows that EVERY path (any loop count, "
               "return or panic after the deferred function is installed) gives back exactly what it took; storms of every request "
               "ending against the real proxy with K=2..4 (and the real ListenAndServe on 1-3 addresses with as few units as addresses) then measure that exactly K queries run concurrently and all are answered.",
    level_note="Trusted: go/cfg (vendored), the event classifier of /verif/extract, Go channel semantics (a buffered channel of capacity K "
               "blocks the K+1-th send). Handlers are assumed to terminate (C02/C03). Code before the handler's defer (query.New, pool Get) "
               "is assumed not to panic (C02).",
    trusted=COMMON_TRUST + ["go/cfg v0.29.0 (vendored in /verif/extract/cfg)", "extract/proxycfg.go event classifier", "Go buffered-channel semantics"],
    assumptions=["handlers terminate (C02, C03)", "scheduling and timers are observed by the storm harness, not modelled"],
)
