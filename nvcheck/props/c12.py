import re
from props.common import *
import ipaddress

# ------------------------------------------------------------------ C12
PRIVATE_NETS = [ipaddress.ip_network(n) for n in
                ("10.0.0.0/8", "172.16.0.0/12", "192.168.0.0/16", "127.0.0.0/8", "169.254.0.0/16",
                 "fd00::/8", "::1/128", "fe80::/10")]


def is_private(ip):
    return any(ip.version == n.version and ip in n for n in PRIVATE_NETS)


def lower_ascii(b):
    return bytes(c + 32 if 65 <= c <= 90 else c for c in b)


def canonical_reverse(name):
    """name (bytes, presentation form, any letter case) -> ipaddress object when it is the
    CANONICAL full reverse name of an address: 4 decimal labels without leading zeros +
    in-addr.arpa., or 32 single hex digits + ip6.arpa.; else None"""
    n = lower_ascii(name)
    try:
        s = n.decode("ascii")
    except UnicodeDecodeError:
        return None
    if s.endswith(".in-addr.arpa."):
        ls = s[:-len(".in-addr.arpa.")].split(".")
        # a name BELOW a full reverse name (e.g. the DNS-SD browse names lb._dns-sd._udp.0.1.168.192.in-addr.arpa.)
        # belongs to the same address: the labels closest to the suffix decide
        if len(ls) < 4 or any(l == "" for l in ls):
            return None
        ls = ls[-4:]
        for l in ls:
            if not l.isdigit() or not l.isascii() or (len(l) > 1 and l[0] == "0") or int(l) > 255:
                return None
        return ipaddress.IPv4Address(bytes(int(l) for l in reversed(ls)))
    if s.endswith(".ip6.arpa."):
        ls = s[:-len(".ip6.arpa.")].split(".")
        if len(ls) < 32 or any(l == "" for l in ls):
            return None
        ls = ls[-32:]
        if any(len(l) != 1 or l not in "0123456789abcdef" for l in ls):
            return None
        return ipaddress.IPv6Address(bytes.fromhex("".join(reversed(ls))))
    return None


def valid_dns_name(n):
    """n: bytes with trailing dot; labels 1..63, at most 255 bytes in presentation form"""
    if not n.endswith(b".") or len(n) > 255:
        return False
    if n == b".":
        return True
    return all(1 <= len(l) <= 63 for l in n[:-1].split(b"."))


def rd_name(p, off):
    """uncompressed name at off -> (presentation bytes with trailing dots, new offset)"""
    out = b""
    while True:
        l = p[off]
        if l == 0:
            return (out or b"."), off + 1
        if l & 0xC0:
            raise ValueError("compressed")
        out += p[off + 1:off + 1 + l] + b"."
        if len(p) < off + 1 + l:
            raise IndexError
        off += 1 + l


def parse_query(p):
    """strict: header, one question with ordinary labels (no dots inside labels), optionally one
    root-owner OPT; returns dict or None"""
    try:
        if len(p) < 17:
            return None
        qd, an, ns, ar = (int.from_bytes(p[i:i + 2], "big") for i in (4, 6, 8, 10))
        if qd != 1 or an or ns or ar > 1:
            return None
        name, off = rd_name(p, 12)
        # labels must not contain dots (else the presentation form is ambiguous)
        o = 12
        while p[o]:
            if b"." in p[o + 1:o + 1 + p[o]]:
                return None
            o += 1 + p[o]
        if len(name) > 255 or off + 4 > len(p):
            return None
        qtype = int.from_bytes(p[off:off + 2], "big")
        qcls = int.from_bytes(p[off + 2:off + 4], "big")
        end = off + 4
        if ar == 1:
            if p[end] != 0 or int.from_bytes(p[end + 1:end + 3], "big") != 41:
                return None
            end = end + 11 + int.from_bytes(p[end + 9:end + 11], "big")
        if end != len(p):
            return None
        return dict(id=int.from_bytes(p[:2], "big"), rd=bool(p[2] & 1), name=name, qtype=qtype, qcls=qcls,
                    question=p[12:off + 4])
    except (IndexError, ValueError):
        return None


def parse_reply(p):
    """reply built without compression: header, questions, answers -> dict or None"""
    try:
        qd, an = int.from_bytes(p[4:6], "big"), int.from_bytes(p[6:8], "big")
        off = 12
        qs = []
        for _ in range(qd):
            n, o2 = rd_name(p, off)
            qs.append(p[off:o2 + 4])
            off = o2 + 4
        rrs = []
        for _ in range(an):
            n, off = rd_name(p, off)
            t = int.from_bytes(p[off:off + 2], "big")
            rdl = int.from_bytes(p[off + 8:off + 10], "big")
            rd = p[off + 10:off + 10 + rdl]
            if len(rd) != rdl:
                return None
            if t == 12:
                rd = rd_name(rd, 0)[0]
            rrs.append((n, t, int.from_bytes(p[off + 4:off + 8], "big"), rd))
            off += 10 + rdl
        return dict(id=int.from_bytes(p[:2], "big"), qr=p[2] >> 7, rcode=p[3] & 15, questions=qs, answers=rrs,
                    rest=p[off:], ns=int.from_bytes(p[8:10], "big"), ar=int.from_bytes(p[10:12], "big"))
    except (IndexError, ValueError):
        return None


def tok_addr(t):
    if t[0] == "i":
        b = bytes.fromhex(t[1:])
        ip = ipaddress.ip_address(b)
        if ip.version == 6 and ip.ipv4_mapped is not None:
            ip = ip.ipv4_mapped            # the hosts reader stores the dotted form
        return ip
    return None                            # zone-qualified / unparsable: never an answer


def hosts_views(ltok):
    """-> (names: lower abs name -> [ip|None], addrs: ip -> [abs name])"""
    names, addrs = {}, {}
    if ltok in ("L=nil",):
        return None
    if ltok != "L=-":
        for e in ltok[2:].split(";"):
            a, ns = e.split("@")
            ip = tok_addr(a)
            for n in ns.split(","):
                nb = bytes.fromhex(n)
                ab = nb if nb.endswith(b".") else nb + b"."
                names.setdefault(lower_ascii(ab), []).append(ip)
                if ip is not None:
                    addrs.setdefault(ip, []).append(ab)
    for lh in (b"localhost.localdomain.",):
        if not names.get(lh):
            names[lh] = [ipaddress.ip_address("127.0.0.1"), ipaddress.ip_address("::1")]
    return names, addrs


def disc_addrs(datok):
    """discovery LookupAddr table: canonical text key -> names"""
    d = {}
    if datok in ("DA=nil", "DA=-"):
        return d
    for e in datok[3:].split(";"):
        k, ns = e.split("@")
        d[bytes.fromhex(k).decode("latin1")] = [bytes.fromhex(n) for n in ns.split(",")]
    return d


def oracle_local(case, impl):
    f = case.split(" ")
    if f[0] == "resolveseq":
        if impl.startswith(("PANIC", "TIMEOUT", "ERR")):
            return "real code did not complete: " + impl[:100]
        ps, outs = f[6].split(","), impl.split("|")
        if len(ps) != len(outs):
            return "%d queries, %d results" % (len(ps), len(outs))
        for i, (p, o) in enumerate(zip(ps, outs)):
            r = oracle_local(" ".join(["resolve"] + f[1:6] + [p]), o)
            if r is not None:
                return "query %d of %d on one proxy / hosts table: %s" % (i + 1, len(ps), r)
        return None
    if impl.startswith(("PANIC", "TIMEOUT", "ERR")):
        return "real code did not complete: " + impl[:100]
    if f[0] == "ptrip":
        name = unhex(f[1])
        ip = canonical_reverse(name)
        if ip is None:
            return None
        d = kv("x " + impl)
        if d["ip"] == "none" or unhex(d["ip"]) != ip.packed:
            return "ptrIP(%r) = %s, the name is the reverse name of %s" % (name, d["ip"], ip)
        if is_private(ip) and d["priv"] != "1":
            return "isPrivateReverse(%r) is false, %s is private/loopback/link-local" % (name, ip)
        return None
    if f[0] != "resolve":
        return None
    q = parse_query(unhex(f[6]))
    if q is None:
        return None
    d = kv("x " + impl)
    n, err, up = int(d["n"]), d["err"], int(d["up"])
    rep = parse_reply(unhex(d["buf"])) if n > 0 else None
    hv = hosts_views(f[2])
    lname = lower_ascii(q["name"])

    def check_local_answer(want_type, want_rdatas, what):
        if up != 0:
            return "%s: %d upstream call(s) were made" % (what, up)
        if err != "0" or rep is None:
            return "%s: no local answer (n=%d err=%s)" % (what, n, err)
        if rep["id"] != q["id"] or rep["qr"] != 1 or rep["rcode"] != 0:
            return "%s: reply id/QR/RCODE = %d/%d/%d" % (what, rep["id"], rep["qr"], rep["rcode"])
        if rep["questions"] != [q["question"]]:
            return "%s: question section is not the query's" % what
        got = [(t, rd) for (_, t, _, rd) in rep["answers"]]
        if got != [(want_type, r) for r in want_rdatas]:
            return "%s: answers %r, expected %r" % (what, got, want_rdatas)
        if any(nm.lower() != q["name"].lower() or ttl != 0 for (nm, _, ttl, _) in rep["answers"]):
            return "%s: answer owner/TTL wrong" % what
        if rep["rest"] or rep["ns"] or rep["ar"]:
            return "%s: unexpected extra sections" % what
        return None

    # (0) whatever is handed to the client is the upstream's bytes or a locally built response to THIS query
    if up == 1 and err == "0" and n > 0 and f[5].startswith("U=0:H"):
        ub = unhex(f[5][5:])
        got = unhex(d["buf"])
        if got != ub and not (rep is not None and rep["id"] == q["id"] and rep["qr"] == 1 and rep["questions"] == [q["question"]]):
            return "reply is neither the upstream's answer nor a local response to this query (id %s)" % (rep and rep["id"])
    # (a) hosts hits
    if hv is not None and valid_dns_name(q["name"]):
        names, addrs = hv
        if q["qtype"] != 12 and lname in names:
            ips = names[lname]
            if q["qtype"] == 1:
                return check_local_answer(1, [i.packed for i in ips if i is not None and i.version == 4], "hosts name, A")
            if q["qtype"] == 28:
                return check_local_answer(28, [i.packed for i in ips if i is not None and i.version == 6], "hosts name, AAAA")
            return check_local_answer(q["qtype"], [], "hosts name, other type")
        if q["qtype"] == 12:
            ip = canonical_reverse(q["name"])
            if ip is not None:
                if ip.version == 6 and ip.ipv4_mapped is not None:
                    ip = ip.ipv4_mapped
                if ip in addrs and all(valid_dns_name(x) for x in addrs[ip]):
                    return check_local_answer(12, addrs[ip], "hosts address, PTR")
    # (b) bogus-priv
    if f[1] == "b=1" and q["qtype"] == 12:
        ip = canonical_reverse(q["name"])
        if ip is not None and is_private(ip):
            if up != 0:
                return "bogus-priv: private reverse name %r went upstream (%d call(s))" % (q["name"], up)
            if err != "0" or rep is None or rep["id"] != q["id"] or rep["qr"] != 1:
                return "bogus-priv: no proper local reply (n=%d err=%s)" % (n, err)
            if rep["rcode"] == 3:
                if rep["answers"] or rep["questions"] != [q["question"]]:
                    return "bogus-priv: malformed NXDOMAIN"
            elif rep["rcode"] == 0:
                known = set()
                if hv is not None:
                    known |= {x for x in hv[1].get(ip, [])}
                known |= {x for x in disc_addrs(f[4]).get(str(ip), [])}
                for (_, t, _, rd) in rep["answers"]:
                    if t != 12 or rd not in known:
                        return "bogus-priv: answer %r is not a discovered/hosts name of %s" % (rd, ip)
            else:
                return "bogus-priv: RCODE %d" % rep["rcode"]
    return None



def oracle_hrefresh(case, impl):
    """C12 across refreshes: a name listed in the file before AND after the rewrite must be answered
    locally after the refresh, whatever happened to the re-read."""
    f = case.split(" ")
    dec = lambda t: [] if t == "-" else [unhex(x) for x in t.split(",")]
    n1, n2, pool = dec(f[2]), dec(f[3]), dec(f[4])
    if "STUCK" in impl:
        return ("the %s source never answered again after a refresh whose read failed (%s): every later lookup of a client's name blocks"
                % ("lease-file" if f[0] == "lrefresh" else "hosts-file", f[1]))
    m = re.match(r"p1=([LU]*) p2=([LU]*) p3=([LU]*)$", impl)
    if not m or len(m.group(1)) != len(pool) or len(m.group(2)) != len(pool) or len(m.group(3)) != len(pool):
        return "unexpected harness output " + impl[:60]
    for i, n in enumerate(pool):
        if f[1] in ("ok", "emfile"):
            want = "L" if n in n2 else "U"
            if m.group(3)[i] != want:
                return ("%r: the hosts file was rewritten%s; one refresh later the name is %s although the file %s it"
                        % (n, " and could not be opened at the first refresh (out of file descriptors)" if f[1] == "emfile" else "",
                           "answered locally" if m.group(3)[i] == "L" else "sent upstream", "lists" if n in n2 else "no longer lists"))
    for i, n in enumerate(pool):
        if n in n1 and m.group(1)[i] != "L":
            return "%r is listed in the hosts file but was sent upstream" % n
        if n in n1 and n in n2 and m.group(2)[i] != "L":
            return "%r is listed in the hosts file before and after the rewrite (%s) but was sent upstream after the refresh" % (n, f[1])
        if f[1] == "ok" and n not in n2 and m.group(2)[i] != "U":
            return "%r was removed from the hosts file but is still answered locally after a successful refresh" % n
    return None

def _oracle_slow(case, impl):
    from props.c15 import oracle_slowrefresh
    return oracle_slowrefresh(case, impl) if case.startswith("slowhosts") else None


def _oracle_dfiles(case, impl):
    from props.c18 import oracle_dfiles
    return oracle_dfiles(case, impl)


SPEC = dict(
        lean_module="NV.Props.C12",
        level_text="Kernel-checked theorems about an executable model of ptrIP / isPrivateReverse / hostsResolve / Proxy.Resolve with the "
                   "resolvers as lookup tables and the upstream as a call-counting oracle: ptrIP inverts the reverse name of every IPv4/IPv6 "
                   "address in any letter case, every private/loopback/link-local address is recognised, a hosts hit or (with bogus-priv) a "
                   "private PTR query makes zero upstream calls, and the local answer has the listed records and the query's ID/question. "
                   "The model is tied to the real Proxy.Resolve (real discovery.Hosts reading generated hosts files, table-backed discovery, "
                   "counting upstream), ptrIP, isPrivateReverse, IP.String and readHostsFile by a differential run; an independent oracle "
                   "checks the property on every reply.",
        level_note="Trusted: Lean kernel; correspondence harness; strconv.ParseUint / net.IP.String / net.ParseIP / strings.ToLower as modelled "
                   "(ASCII names). hosts_answer_shape is stated for names that pack as DNS names (an unpackable PTR target makes hostsResolve "
                   "fail and the query falls through: kept as hypothesis).",
        areas=[dict(name="local", n_quick=40000, n_thorough=1200000, shards_thorough=8, oracle=oracle_local,
                    nontrivial=lambda c, i: c.startswith("resolve") and " up=0 " in (i + " ") or (c.startswith("ptrip") and "ip=none" not in i)),
               # the hosts-file reader on whole files (comments, white space, CRLF, lines of up to 60 KB): tables = what the file lists
               dict(name="dfiles", n_quick=1500, n_thorough=40000, shards_thorough=4, oracle=_oracle_dfiles, timeout=600),
               dict(name="hrefresh", n_quick=150, n_thorough=3000, shards_thorough=4, oracle=oracle_hrefresh),
               # a slow (first) load of the hosts file overlapped by a second query for a listed name: shared with C15
               dict(name="slowrefresh", n_quick=9, n_thorough=60, oracle=_oracle_slow, timeout=300)],
        trusted=COMMON_TRUST + ["strconv.ParseUint, net.IP.String, net.ParseIP, strings.ToLower as described in NV/Model/Local.lean (exercised by the local area)",
                                "hosts-file syntax (comments, field splitting, address parsing) is C18's subject; C12 takes the accepted lines"],
        assumptions=["query names are ASCII (strings.ToLower re-encodes bytes >= 0x80)",
                     "locally built answers fit the 65535-byte reply buffer",
                     "a hosts/discovery name that does not pack as a DNS name makes hostsResolve fail: such tables are outside hosts_answer_shape"],
)
