from props.common import *
import re

# ------------------------------------------------------------------ C19 (system DNS activation)
# Independent reading of resolv.conf used by the oracle: white space = Unicode White_Space (what Go's
# unicode.IsSpace accepts), a line is a nameserver line when its first white-space separated field is
# "nameserver" (superset of what glibc, musl and Go's resolver accept), a comment when it starts with '#'.
WS = [chr(c).encode("utf-8") for c in
      [9, 10, 11, 12, 13, 32, 0x85, 0xA0, 0x1680] + list(range(0x2000, 0x200B)) + [0x2028, 0x2029, 0x202F, 0x205F, 0x3000]]
HEADER0 = b"# This file is managed by nextdns.\n"


def ws_at(b, i):
    for w in WS:
        if b.startswith(w, i):
            return len(w)
    return 0


def trim(b):
    i = 0
    while i < len(b):
        n = ws_at(b, i)
        if not n:
            break
        i += n
    b = b[i:]
    again = True
    while again:
        again = False
        for w in WS:
            if b.endswith(w):
                b = b[:len(b) - len(w)]
                again = True
                break
    return b


def read_conf(b):
    """(nameserver values, directive lines) of a resolv.conf body"""
    ns, dirs = [], []
    for piece in b.split(b"\n"):
        t = trim(piece)
        if not t or t.startswith(b"#"):
            continue
        i = 0
        while i < len(t) and not ws_at(t, i):
            i += 1
        if t[:i] == b"nameserver":
            ns.append(trim(t[i:]))
        else:
            dirs.append(t)
    return ns, dirs


def node(s):
    if s == "A":
        return ("A", b"")
    return (s[0], unhex(s[2:]))


def parse_ext(s):
    if s == "-":
        return {}
    return {unhex(t): unhex(c) for t, c in (e.split(":") for e in s.split(","))}


def resolve(n, ext):
    if n[0] == "F":
        return n[1]
    if n[0] == "L":
        return ext.get(n[1])
    return None


def oracle_resolv(case, impl):
    """direct check of C19 on what the real SetDNS/ResetDNS left in the jail"""
    f = dict(x.split("=", 1) for x in case.split(" ")[1:])
    m = re.match(r"st=(\S+) live=(\S+) bak=(\S+) tmp=(\S+) ext=(\S+?)(?: nm=([01]))?$", impl)
    if not m:
        return "unexpected harness output " + impl[:120]
    st, live2, bak2, tmp2 = m.group(1), node(m.group(2)), node(m.group(3)), node(m.group(4))
    if m.group(5) != "ok":
        return "a file outside the three managed names was modified"
    if st not in ("ok", "errOpen", "errScan", "killed", "errNM"):
        return "operation failed unexpectedly: " + st[:120]
    live, bak, ext = node(f["live"]), node(f["bak"]), parse_ext(f["ext"])
    op, crash = f["op"], f["crash"]
    if "nm" in f:
        # NetworkManager installed, its reload fails: what happens to resolv.conf must be what happens without it.
        # errNM = only the NetworkManager half failed; the resolv.conf half is judged as completed
        if op == "D":
            if bak[0] != "A" and not (live2 == bak and bak2[0] == "A"):
                return ("deactivation did not restore resolv.conf from its backup (status %s): a failing NetworkManager reload "
                        "must not keep the original from being put back" % st)
            op = "d"
        elif op.startswith("A:"):
            op = "a:" + op[2:]
        if st == "errNM":
            st = "ok"
    if op.startswith("e:"):
        return None
    if f["orig"] != "?":
        orig = node(f["orig"])
        inv = (bak2[0] == "A" and live2 == orig) or (bak2 == orig and orig[0] != "A")
        if not inv:
            return "the original resolv.conf is no longer on disk (neither live with no backup, nor the backup) after %s crash=%s" % (op[:1], crash)
        if op == "d" and st == "ok" and not (live2 == orig and bak2[0] == "A"):
            return "deactivation did not restore the original resolv.conf"
    if op == "d" and st == "ok":
        want = (bak, ("A", b"")) if bak[0] != "A" else (live, bak)
        if (live2, bak2) != want:
            return "deactivation did not move the backup over the live file"
    if op.startswith("a:"):
        dns = unhex(op[2:])
        if live2 != live and live2[0] != "A":
            # the live name changed: it must be a COMPLETE rendering
            if live2[0] != "F" or not live2[1].startswith(HEADER0) or not live2[1].endswith(b"nameserver " + dns + b"\n"):
                return "an incomplete staging file became the live resolv.conf"
        if st == "ok":
            src = resolve(live, ext)
            if src is None:
                return "activation reported success although resolv.conf could not be read"
            if live2[0] != "F":
                return "after a completed activation resolv.conf is not a regular file"
            ns, dirs = read_conf(live2[1])
            if ns != [dns]:
                return "after activation resolv.conf names %r as nameservers, expected only %r" % (ns[:4], dns)
            if dirs != read_conf(src)[1]:
                return "activation changed the non-nameserver directives"
            if bak2[0] == "A":
                return "no backup exists after a completed activation"
    return None


def check_fault_cases(run):
    """cases of the recorded write-error finding are exempt from the oracle, not from the model diff"""
    import glob, os
    bad = 0
    for d in sorted(glob.glob(os.path.join(run.rundir, "resolv", "*"))):
        try:
            rows = zip(open(os.path.join(d, "cases.txt")), open(os.path.join(d, "impl.txt")), open(os.path.join(d, "model.txt")))
        except OSError:
            continue
        for c, i, m in rows:
            if re.search(r"crash=e\d+$", c.rstrip("\n")) and i != m and bad < 3:
                bad += 1
                run.add_violation("correspondence broken on a write-error fault case (area resolv)",
                                  {"correspondence": "resolv", "case": c.rstrip("\n"), "impl_output": i.rstrip("\n"),
                                   "model_output": m.rstrip("\n")}, concrete=True)


def oracle_actv(case, impl):
    """C19 'to name only the proxy's address', stated directly on the real listenIP: on port 53 an address literal is the
    address that gets named; a wildcard names the loopback address of its family; with the router integration the host
    goes through 127.0.0.1; another port never activates."""
    import ipaddress
    f = case.split(" ")
    listen = b"" if f[1] == "-" else unhex(f[1])
    if f[2] == "1":
        return None if impl == "addr=" + b"127.0.0.1".hex() else "router integration on: the host must be pointed at 127.0.0.1, got " + impl[:60]
    try:
        text = listen.decode("ascii")
    except UnicodeDecodeError:
        return None
    # only the unambiguous shapes are judged here; everything else is the model diff's business
    host = port = None
    if text.startswith("[") and "]:" in text and text.count("[") == 1 and text.count("]") == 1 and text.index("]:") == text.rindex(":") - 1:
        host, port = text[1:text.index("]")], text[text.rindex(":") + 1:]
    elif text.count(":") == 1 and "[" not in text and "]" not in text:
        host, port = text.split(":")
    if host is None:
        return None
    if port not in ("53", "domain"):
        return None if impl == "err=port" else "listen port %r is not 53 but activation went on (%s): resolv.conf would name an address nobody serves on port 53" % (port, impl[:40])
    want = None
    if host in ("", "0.0.0.0"):
        want = "127.0.0.1"
    elif host == "::":
        want = "::1"
    elif "%" in host:
        want = None       # a zoned literal: net.ParseIP rejects it, activation fails with an error and writes nothing
    else:
        try:
            ipaddress.ip_address(host)
            if not any(len(x) > 1 and x[0] == "0" for x in host.split(".")):
                want = host
        except ValueError:
            want = None
    if want is not None and impl != "addr=" + want.encode().hex():
        return "the proxy listens on %s: the activated file must name %s, listenIP gave %s" % (text, want, impl[:60])
    return None


SPEC = dict(
    lean_module="NV.Props.C19",
    areas=[dict(name="resolv", n_quick=3000, n_thorough=60000, shards_quick=4, shards_thorough=8, oracle=oracle_resolv, timeout=1500,
                nontrivial=lambda c, i: " op=a:" in c or " crash=-" not in c),
           # WHICH address activation names: the real listenIP of activate.go (package main test binary)
           dict(name="activate", binary="main.test", n_quick=20000, n_thorough=400000, shards_thorough=4, oracle=oracle_actv)],
    extra=[check_fault_cases],
    level_text="setupResolvConf/ResetDNS are modelled as functions from the file-system state (live/backup/staging name: absent, file bytes "
               "or symlink text; files symlinks resolve to) to the exact sequence of system calls they issue; a crash is a prefix. "
               "Kernel-checked for ALL contents, addresses, histories of activate/deactivate/environment change and ALL crash points: the "
               "original is always either live with no backup or the backup; deactivation restores it byte-for-byte (symlinks included); a "
               "completed activation leaves exactly one nameserver line (the proxy) plus the original's directives in order (parsed back "
               "from the rendered bytes); only a complete staging file is ever renamed over resolv.conf. The real host.SetDNS/ResetDNS run "
               "in a private mount namespace (/etc replaced) on generated files and histories, killed by strace at every system call "
               "boundary; every resulting tree is compared with the model and checked directly against the property.",
    level_note="Trusted: Lean kernel; rename(2) atomicity and the one-write-per-Fprintln assumption (observed at every crash point by the "
               "jail); bufio.Scanner / TrimSpace / Fields semantics (modelled exactly for all byte strings, differential-tested); "
               "NetworkManager conf.d absent; write errors (ENOSPC) and power loss without fsync are outside the model; activate.go's listenIP is modelled (NV.Activate) with net.SplitHostPort / net.ParseIP as models of the standard library; "
               "activate() itself is not executed (regenerated shape facts).",
    trusted=COMMON_TRUST + ["kernel rename(2)/unlink(2)/open(2)/write(2) semantics on one file system", "strace 6.1 fault injection (kill on syscall entry)",
                            "translator /verif/extract (resolv.conf names, header lines, Stat/Lstat and nameserver-test shape)"],
    assumptions=["no other process touches /etc/resolv.conf* during an operation", "none of the three names is a directory; one file system",
                 "write(2) to the staging file does not fail (the Go code ignores such errors: a full disk can leave a truncated live file; recoverable by deactivate)",
                 "process death only: no fsync is issued, so power loss ordering is not covered"],
)
