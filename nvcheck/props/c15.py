from props.common import *

def oracle_slowrefresh(case, impl):
    """C15, sequential consistency of a file-backed source under overlapping refreshes: once a lookup has been answered from
    the newer file, a later lookup must not be answered from the older one."""
    import re
    f = case.split(" ")
    if f[0] == "slowhosts":
        if impl != "A=L B=L":
            return ("%r is listed in the hosts file; of the query that triggered the (slow) load and the one that arrived while it was in "
                    "progress, answered locally / sent upstream: %s" % (unhex(f[1]), impl))
        return None
    old, new = unhex(f[3]) + b".", unhex(f[4]) + b"."
    m = re.match(r"A=(\S+) B=(\S+) C=(\S+)$", impl)
    if not m:
        return "the overlapping lookups did not complete: " + impl[:80]
    a, b, c = [b"" if x == "-" else unhex(x) for x in m.groups()]
    for who, v in (("A", a), ("B", b), ("C", c)):
        if v not in (old, new, b""):
            return "lookup %s returned %r, neither file lists that name for the address" % (who, v)
    if b == new and c != new:
        return ("lookup B was answered %r from the new lease file, lookup C, started after B and A had returned, was answered %r: "
                "no sequential order of the lookups and the file change gives new-then-old (an older refresh overtook a newer one)" % (b, c))
    if c == b"":
        return "lookup C found nothing although both lease files list the address"
    return None


def _oracle_localaddr(case, impl):
    from props.c11 import oracle_pwire
    from props.c01 import oracle_localaddr
    return oracle_localaddr(case, impl) or oracle_pwire(case, impl)


def oracle_race(case, impl):
    """the soak itself checks what no sequential order could produce: a request reaching an endpoint with the host / path
    another request was given, or most queries unanswered"""
    if case == "racesoak" and impl != "ok":
        return "concurrent soak of the whole query path: " + impl[:200]
    return None


def oracle_lmrace(case, impl):
    """a cached reply served after the proxy has been told of a later configuration change is one no sequential order of
    the same responses produces"""
    import re
    m = re.match(r"stale=(\d+)/(\d+)$", impl)
    if not m:
        return "lmrace did not complete: " + impl[:120]
    if int(m.group(1)) > 0:
        k = case.split(" ")[1]
        return ("%s of %s iterations: %s responses of one profile handled together, one announcing a configuration change LATER than a "
                "cached entry, the others older stamps; afterwards the entry was still served from the cache - an older "
                "X-Conf-Last-Modified overwrote the newer one; every sequential order records the newest" % (m.group(1), m.group(2), k))
    return None


SPEC = dict(
    lean_module="NV.Props.C15",
    areas=[dict(name="race", n_quick=1, n_thorough=1, race=True, oracle=oracle_race, timeout=900),
           # per-query data handed from the UDP receive loop to the handlers (local address): clients on several local addresses
           # in flight together must each be resolved and answered with their own
           dict(name="localaddr", n_quick=25, n_thorough=300, shards_thorough=2, oracle=_oracle_localaddr, timeout=600),
           # concurrent responses announcing different configuration-change times: the newest must be the one recorded
           dict(name="lmrace", n_quick=6, n_thorough=40, shards_thorough=2, oracle=oracle_lmrace, timeout=600),
           dict(name="slowrefresh", n_quick=9, n_thorough=60, oracle=oracle_slowrefresh, timeout=300)],
    level_text="Lock discipline by proof over regenerated facts: every access to a field of a mutex-owning struct in discovery, "
               "resolver/endpoint, resolver, arp, ndp is re-extracted from the source with the lock mode held (CFG dataflow, callees "
               "in the caller's state) and the whole table is checked by the kernel; a theorem over an RWMutex model with any number "
               "of threads shows discipline => no two conflicting simultaneous accesses. Supporting evidence and failing-input search: "
               "a -race build of the whole query path under concurrent UDP/TCP load with file rewrites, forced refreshes and elections.",
    level_note="Partial: locks are identified by (struct type, mutex field), not by instance; function values and interface calls are "
               "not followed; the Go memory model is trusted; 'replies are linearizable' is covered only by C01's functional check "
               "under concurrency. declared_fresh.json lists sites accepted as unpublished objects with a justification.",
    trusted=COMMON_TRUST + ["extract/lockset.go (go/types + go/cfg dataflow)", "extract/declared_fresh.json", "sync.RWMutex, sync.Once, sync/atomic semantics", "Go race detector (supporting)"],
    assumptions=["structs without their own mutex (e.g. local variables shared by closures) are outside the table; proxy.ListenAndServe's closeAll is covered by C16's model",
                 "platform files other than linux are out of scope"],
)
