from props.common import *
from props.c05 import oracle_sock

def oracle_c01(case, impl):
    return oracle_sock(case, impl, check_question=True)

def oracle_conc(case, impl):
    if impl in ("TIMEOUT", "DUP"):
        return "well-formed query got %s instead of exactly one reply" % impl
    return oracle_sock(case, impl, check_question=True)

def oracle_e2e(case, impl):
    """C01 on the whole daemon: exactly one reply; it carries the query's ID; a reply that is not the upstream's message
    byte for byte carries the query's question (locally built answer, NXDOMAIN or SERVFAIL); no reply without the ID."""
    from props.c12 import parse_query, parse_reply
    f = case.split(" ")
    proto, payload = f[1], unhex(f[7])
    if impl.startswith(("TIMEOUT", "ERR", "close", "SHORT", "bad-op")):
        return "no reply to a well-formed %s query: %s" % (proto, impl[:40])
    rep = unhex(impl)
    if proto == "tcp":
        if len(rep) < 2 or int.from_bytes(rep[:2], "big") != len(rep) - 2:
            return "TCP length prefix does not match the message"
        rep = rep[2:]
    q = parse_query(payload)
    if q is None:
        return None
    if len(rep) < 12:
        return "reply of %d bytes" % len(rep)
    up = unhex(f[6][5:]) if f[6].startswith("U=0:H") else None
    if up is not None:
        cut = rep[:2] + bytes([rep[2] & 0xfd]) + rep[3:]
        upc = up[:len(rep)]
        if cut == upc[:2] + bytes([upc[2] & 0xfd]) + upc[3:]:
            # the upstream's message (possibly shortened with TC); it carries the query's ID whenever the
            # upstream echoed it, which the generated upstream answers do
            return None
    if rep[:2] != payload[:2]:
        return "reply carries ID 0x%s, the query had ID 0x%s" % (rep[:2].hex(), payload[:2].hex())
    if proto == "udp" and rep[2] & 0x02:
        # shortened with TC: only the header and the question section can be checked
        qlen = len(q["question_wire"]) if "question_wire" in q else None
        if qlen is None:
            off = 12
            while off < len(payload) and payload[off] != 0:
                off += 1 + payload[off]
            qlen = off + 1 + 4 - 12
        if not (rep[2] & 0x80):
            return "reply without the QR bit"
        if rep[4:6] != b"\x00\x01" or rep[12:12 + qlen].lower() != payload[12:12 + qlen].lower():
            return "shortened locally built reply does not carry the query's question"
        return None
    r = parse_reply(rep)
    if r is None:
        return "reply is neither the upstream's message nor a well-formed local response"
    if r["qr"] != 1:
        return "reply without the QR bit"
    if r["questions"] != [q["question"]]:
        return "locally built reply does not carry the query's question"
    return None


def oracle_cache_faithful(case, impl):
    """C01 on the cache-hit leg (area cache: the real DOH.resolve / DNS53.resolve on a harness-owned Cacher): a reply served
    from the cache carries the asking query's ID and is the answer that was fetched for THIS question - never the answer to
    another question (the harness tracks, beside the cache and not by its key, on whose behalf every entry was stored)."""
    import re
    from props.c06 import fields
    f = case.split(" ")
    if impl in ("bad-op", "bad-query", "UNSTABLE-CLOCK", "-") or "PANIC" in impl:
        return None
    ops, outs = f[5:], impl.split(" ")
    if len(outs) != len(ops):
        return None
    for i, (op, out) in enumerate(zip(ops, outs)):
        g = op.split(",")
        members = []
        if g[0] == "D":
            members = [(g[3], out)]
        elif g[0] == "N":
            members = [(g[1], out)]
        elif g[0] == "C":
            m = re.match(r"c\d+,(.*)$", out)
            members = [(g[3], t) for t in (out[6:].split("+") if out.startswith("cdiff,") else ([m.group(1)] if m else []))]
        elif g[0] == "CC" and out.startswith("cc,") and out.count("+") == 1:
            ta, tb = out[3:].split("+")
            pay = unhex(g[3])
            members = [(g[3], ta), ((bytes([pay[0] ^ 1, pay[1] ^ 1]) + pay[2:]).hex(), tb)]
        for payhex, tok in members:
            kv = fields(tok)
            if kv.get("fc") != "1" or kv.get("err") != "0" or kv.get("up") != "-":
                continue
            payload, reply = unhex(payhex), unhex(kv.get("n", "-"))
            if reply[:2] != payload[:2]:
                return "op %d: the reply served from the cache carries ID 0x%s, the query had 0x%s" % (i, reply[:2].hex(), payload[:2].hex())
            if kv.get("al") == "dot":
                return "KNOWN:dotted-label: op %d: cached answer of another wire name with the same dotted text" % i
            if kv.get("al") == "x":
                return ("op %d: the reply served from the cache is the answer that was fetched for ANOTHER question "
                        "(the client gets another query's answer and the upstream is never asked)" % i)
    return None


def oracle_tcpstream(case, impl):
    """C01 on one TCP connection as a byte stream: every well-sized frame (> 14 bytes) in front of the first small or
    incomplete one is answered exactly once with its own ID, however the stream was cut into writes; `halfclose`: a client that
    shuts down its writing side after its last query still gets every reply ("never silence")."""
    import re
    f = case.split(" ")
    if f[0] == "stallread":
        m = re.match(r"whole=(\d+)/(\d+)$", impl)
        if not m:
            return "stallread: " + impl[:80]
        if m.group(1) != m.group(2):
            return ("%s pipelined TCP queries with 60000-byte answers, the client started reading after %s ms (request timeout 300 ms) and "
                    "then asked once more: only %s of %s replies arrived whole behind a correct length prefix - a reply was cut or the "
                    "framing of the connection is off" % (f[1], f[2], m.group(1), m.group(2)))
        return None
    if f[0] == "halfclose":
        m = re.match(r"replied=(\d+)/(\d+)$", impl)
        if not m:
            return "halfclose: " + impl[:80]
        if m.group(1) != m.group(2):
            return ("%s pipelined TCP queries, the client then shut down its writing side and kept reading (upstream latency %s ms): "
                    "only %s replies arrived - the connection is closed under the handlers still resolving" % (m.group(2), f[2], m.group(1)))
        return None
    s = b"" if f[1] == "-" else unhex(f[1])
    want, off = [], 0
    while off + 2 <= len(s):
        l = int.from_bytes(s[off:off + 2], "big")
        if off + 2 + l > len(s) or l <= 14:
            break
        want.append(s[off + 2:off + 4].hex())
        off += 2 + l
    m = re.match(r"ids=(\S+) end=(\S+)$", impl)
    if not m:
        return "tcpstream: " + impl[:80]
    got = [] if m.group(1) == "-" else m.group(1).split(",")
    if sorted(got) != sorted(want):
        missing = [x for x in want if x not in got]
        extra = [x for x in got if x not in want]
        return "one TCP connection, %d frames to answer: replies missing for IDs %s, unexpected replies %s (end=%s)" % (len(want), missing, extra, m.group(2))
    return None


def oracle_localaddr(case, impl):
    """C01 with several local addresses on one wildcard UDP listener: every client, writing from a connected socket to the
    local address it chose, gets its reply (from that address) while the others are in flight."""
    if impl.startswith("seq="):
        return None
    if impl.startswith("err") and "TIMEOUT" in impl:
        n = impl.split(":")[0].split(" ")[-1]
        return ("UDP client %s of %d, all in flight together on different local addresses of one wildcard listener, got no reply on its "
                "connected socket (%s): the reply did not come back from the address the query was sent to" % (n, len(case.split(" ")[1].split(",")), impl[:40]))
    return "localaddr: " + impl[:80]


def oracle_cap_answered(case, impl):
    """C01 under exhausted capacity: more queries in flight than max-inflight-requests - the extra ones wait for a free unit
    and are then answered; none is dropped ("never silence")."""
    import re
    if case.startswith("capudp "):
        m = re.match(r"max=(\d+) replied=(\d+)/(\d+)", impl)
        if m and m.group(2) != m.group(3):
            return "only %s of %s UDP queries were answered after transient failures of the listener's read" % (m.group(2), m.group(3))
        return None
    k = case.split(" ")[1]
    m = re.match(r"max=(\d+) replied=(\d+)/(\d+) probe=(\w+) mix=\S+ mixreplied=(\d+)/(\d+)", impl)
    if not m:
        return None
    if m.group(2) != m.group(3):
        return ("%s well-formed UDP queries were in flight with max-inflight-requests=%s and a slow upstream: only %s were answered, "
                "the others got no reply at all (not even SERVFAIL)" % (m.group(3), k, m.group(2)))
    if m.group(5) != m.group(6):
        return "%s queries in flight over UDP and TCP with max-inflight-requests=%s: only %s answered" % (m.group(6), k, m.group(5))
    return None


def oracle_staleq(case, impl):
    """the refresh leg through the whole daemon: every one of the k identical queries must reach the upstream as the client's
    bytes and be answered with the answer the upstream gave to THAT request"""
    f = case.split(" ")
    if f[0] == "d53soak":
        if impl != "answered=%s/%s" % (f[1], f[1]):
            return ("one process, %s exchanges in a row with a plain-DNS upstream that answers each at once: %s (a complete upstream "
                    "message arrived for every one of them)" % (f[1], impl))
        return None
    if impl.startswith(("ERR", "PANIC", "TIMEOUT")) or " up=" not in impl:
        return "staleq did not complete: " + impl[:120]
    k, p = int(f[3]), unhex(f[4])
    rs = impl.split(" ")[0][2:].split(",")
    us = impl.split(" up=")[1].split(",")
    if len(us) != k or us == ["-"]:
        return ("%d identical queries with the cache on, every stored answer has TTL 0 (never fresh): the upstream received %d requests"
                % (k, 0 if us == ["-"] else len(us)))
    for i, u in enumerate(us):
        if unhex(u) != p:
            return ("request %d reached the %s upstream as %s, the client sent %s (no option to rewrite): the stale entry was copied "
                    "over the query before it was forwarded" % (i + 1, f[1], u[:80], f[4][:80]))
    if len(rs) != k:
        return "%d replies for %d queries" % (len(rs), k)
    for i, r in enumerate(rs):
        if r in ("TIMEOUT", "ERR", "close", "SHORT"):
            return "query %d of %d got no reply (%s)" % (i + 1, k, r)
        b = unhex(r)
        want = p[:2] + bytes([0x81, 0x80, 0, 1, 0, 1, 0, 0, 0, 0]) + p[12:] + bytes([0xc0, 0x0c, 0, 1, 0, 1, 0, 0, 0, 0, 0, 4, 10, 0, (i + 1) >> 8, (i + 1) & 255])
        if b != want:
            return "reply %d is %s, the upstream answered that request with %s" % (i + 1, r[:100], want.hex()[:100])
    return None


SPEC = dict(
    lean_module="NV.Props.C01",
    areas=[dict(name="staleq", n_quick=12, n_thorough=200, shards_thorough=2, oracle=oracle_staleq, timeout=600),
           dict(name="sock", n_quick=3000, n_thorough=40000, shards_thorough=8, oracle=oracle_c01,
                nontrivial=lambda c, i: len(i) > 8),
           dict(name="sockconc", n_quick=2400, n_thorough=32000, shards_thorough=4, oracle=oracle_conc,
                nontrivial=lambda c, i: len(i) > 8),
           dict(name="e2e", n_quick=1500, n_thorough=24000, shards_thorough=8, oracle=oracle_e2e, timeout=900,
                nontrivial=lambda c, i: len(i) > 8),
           # more queries in flight than capacity units (area shared with C04): every one is answered in the end
           dict(name="cap", n_quick=3, n_thorough=30, shards_thorough=3, oracle=oracle_cap_answered, timeout=600),
           # one wildcard UDP listener, clients on several local addresses in flight together
           dict(name="localaddr", n_quick=25, n_thorough=300, shards_thorough=2, oracle=oracle_localaddr, timeout=600),
           # one TCP connection as a byte stream: framing, write boundaries, small / incomplete frames, half-close
           dict(name="tcpstream", n_quick=400, n_thorough=8000, shards_thorough=4, oracle=oracle_tcpstream, timeout=900),
           # the cache-hit leg: a served entry is the answer to this very question
           dict(name="cache", n_quick=600, n_thorough=8000, shards_thorough=8, oracle=oracle_cache_faithful, timeout=1500,
                nontrivial=lambda c, i: "fc=1" in i)],
    level_text="Theorems over the handler model: exactly one write on every normal path of both handler closures (regenerated CFGs), "
               "SERVFAIL exactly on error/out-of-range size with the query's ID, upstream message passed byte for byte on TCP and as a "
               "prefix except the TC bit on UDP. The model is compared byte for byte with the real proxy over real sockets, "
               "sequentially and with 12 UDP + 4 pipelined TCP clients concurrently.",
    level_note="Partial for the schedule quantifier: goroutine scheduling, sync.Pool buffer ownership and kernel socket delivery are "
               "exercised, not modelled. Known finding: TC is set without shortening for 4094 < size <= advertised.",
    trusted=COMMON_TRUST + ["sync.Pool semantics (a buffer is owned by one handler between Get and Put)", "kernel loopback sockets",
                            "go/cfg + extract/proxycfg.go (write projection)"],
    assumptions=["cache hits are covered by C06/C07; here the upstream is a scripted resolver",
                 "advertised sizes above 65507 are outside the quantifier"],
)
