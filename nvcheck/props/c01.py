from props.common import *
from props.c05 import oracle_sock

def oracle_c01(case, impl):
    return oracle_sock(case, impl, check_question=True)

def oracle_conc(case, impl):
    if impl in ("TIMEOUT", "DUP"):
        return "well-formed query got %s instead of exactly one reply" % impl
    return oracle_sock(case, impl, check_question=True)

SPEC = dict(
    lean_module="NV.Props.C01",
    areas=[dict(name="sock", n_quick=3000, n_thorough=40000, shards_thorough=8, oracle=oracle_c01,
                nontrivial=lambda c, i: len(i) > 8),
           dict(name="sockconc", n_quick=2400, n_thorough=32000, shards_thorough=4, oracle=oracle_conc,
                nontrivial=lambda c, i: len(i) > 8)],
    level_text="Theorems over the handler model: exactly one write on every normal path of both handler closures (regenerated CFGs), "
               "SERVFAIL exactly on error/out-of-range size with the query's ID, upstream message passed byte for byte on TCP and as a "
               "prefix except the TC bit on UDP. The model is compared byte for byte with the real proxy over real sockets, "
               "sequentially and with 12 UDP + 4 pipelined TCP clients concurrently.",
    level_note="Partial for the schedule quantifier: goroutine scheduling, sync.Pool buffer ownership and kernel socket delivery are "
               "exercised, not modelled. Known finding: TC is set without shortening for 4094 < size <= advertised.",
    trusted=COMMON_TRUST + ["sync.Pool semantics (a buffer is owned by one handler between Get and Put)", "kernel loopback sockets",
                            "go/cfg + extract/proxycfg.go (write projection)"],
    assumptions=["cache hits are covered by C06/C07; here the upstream is a scripted resolver",
                 "advertised sizes above 65507 are outside the quantifier"],
)
