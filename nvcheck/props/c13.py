from props.common import *

# ------------------------------------------------------------------ C13
def strict_opts(p):
    """Independent strict reading of a query of the property's shape: header, one or more questions with
    uncompressed ordinary labels, no answers/authorities, ARCOUNT additional records with uncompressed owners of which exactly
    one is an OPT RR, with root owner, whose options tile its RDATA (other records - a TSIG, say - may stand before AND after
    it), the last record ending the message.  Returns [(offset of OPTION-CODE, code, data length)] or None."""
    try:
        if len(p) < 12:
            return None
        qd, an, ns, ar = (int.from_bytes(p[i:i + 2], "big") for i in (4, 6, 8, 10))
        if qd < 1 or an or ns or ar < 1:
            return None

        def name(off):
            n = 0
            while True:
                l = p[off]
                if l == 0:
                    return off + 1
                if l & 0xC0:
                    return None
                n += l + 1
                if n > 255:
                    return None
                off += 1 + l
        off = 12
        for _ in range(qd):          # one question, or several (RFC 1035 allows it; the proxy forwards them)
            off = name(off)
            if off is None:
                return None
            off += 4
            if off > len(p):
                return None
        opts = None
        for k in range(ar):
            o = name(off)
            if o is None or o + 10 > len(p):
                return None
            typ = int.from_bytes(p[o:o + 2], "big")
            rdlen = int.from_bytes(p[o + 8:o + 10], "big")
            if typ == 41:
                if opts is not None:
                    return None          # a second OPT record: not a well-formed query
                if o != off + 1:
                    return None          # OPT owner must be the root
                cur, end = o + 10, o + 10 + rdlen
                if end > len(p):
                    return None
                opts = []
                while cur < end:
                    if cur + 4 > end:
                        return None
                    code = int.from_bytes(p[cur:cur + 2], "big")
                    dl = int.from_bytes(p[cur + 2:cur + 4], "big")
                    if cur + 4 + dl > end:
                        return None
                    opts.append((cur, code, dl))
                    cur += 4 + dl
            off = o + 10 + rdlen
            if off > len(p):
                return None
        if opts is None or off != len(p):
            return None
        return opts
        return None
    except IndexError:
        return None


def is_ecs(p, off, code, dl):
    return code == 8 and dl >= 8 and p[off + 5] in (1, 2)


def check_consumed(inp, out, peer=None):
    """the property, checked directly on bytes in / bytes out"""
    if len(out) != len(inp):
        return "payload length changed from %d to %d" % (len(inp), len(out))
    opts = strict_opts(inp)
    if opts is None:
        return None
    exp = bytearray(inp)
    dontcare = set()
    want_peer = None
    for off, code, dl in opts:
        if is_ecs(inp, off, code, dl):
            d = inp[off + 4:off + 4 + dl]
            if d[1] == 1 and d[2] == 32:
                want_peer = d[4:8]
            elif d[1] == 2 and d[2] == 128 and dl >= 20:
                want_peer = d[4:20]
            if dl <= 255:
                exp[off:off + 2] = b"\xff\xff"
                exp[off + 4:off + 4 + dl] = bytes(dl)
            else:
                # outside RFC 7871's format; recorded as known finding C13-ecs-len-ge-256
                dontcare.update(range(off, off + 2))
                dontcare.update(range(off + 4, off + 4 + dl))
    for i, (a, b) in enumerate(zip(out, exp)):
        if a != b and i not in dontcare:
            for off, code, dl in opts:
                if off <= i < off + 4 + dl:
                    if is_ecs(inp, off, code, dl):
                        return "ECS option at offset %d (len %d) not neutralised: byte %d is %02x" % (off, dl, i, a)
                    return "byte %d inside option code=%d at %d changed: %02x -> %02x" % (i, code, off, inp[i], a)
            return "byte %d outside the options changed: %02x -> %02x" % (i, inp[i], a)
    if peer is not None:
        got = None if peer == "none" else unhex(peer)
        if got != (bytes(want_peer) if want_peer is not None else None):
            # the harness prints 'none' when PeerIP still equals the socket peer 127.0.0.1
            if not (got is None and want_peer is not None and bytes(want_peer) == bytes([127, 0, 0, 1])):
                return "PeerIP is %s, the last full-address ECS option carries %s" % (peer, want_peer.hex() if want_peer else None)
    return None


def oracle_parse(case, impl):
    if impl.startswith("PANIC") or impl.startswith("TIMEOUT"):
        return "query.New did not return normally: " + impl[:80]
    inp = unhex(case.split(" ")[1])
    d = kv(impl)
    out = unhex(d.get("payload", "-"))
    if strict_opts(inp) is not None and d["_"] != "ok":
        return "well-formed query rejected at stage " + d["_"]
    return check_consumed(inp, out, d.get("peer"))


def oracle_ecs(case, impl):
    f = case.split(" ")
    if impl.startswith(("PANIC", "TIMEOUT", "ERR", "BUILDER-ERR")):
        return "real code did not complete: " + impl[:80]
    if f[0] == "post":
        return check_consumed(unhex(f[1]), unhex(impl))
    if f[0] == "post53":
        r = check_consumed(unhex(f[1]), unhex(impl))
        return None if r is None else "datagram sent to the plain-DNS upstream: " + r
    if f[0] == "encq":
        d = kv("x " + impl)
        enc, out = unhex(d["enc"]), unhex(d["payload"])
        opts = strict_opts(enc)
        if opts is None:
            return "Builder output is not of the structured shape"
        # the options the Builder wrote are the ones of the case line, in order
        want = [] if f[9] == "-" else [(int(c), len(unhex(x))) for c, x in (o.split(":") for o in f[9].split(","))]
        if [(c, l) for _, c, l in opts] != want:
            return "options in the built message differ from the case"
        if impl.split(" ")[1] != "ok":
            return "structured query rejected at stage " + impl.split(" ")[1]
        return check_consumed(enc, out, d.get("peer"))
    return None


def nontrivial_parse(c, i):
    # an ECS-shaped option was present and rewritten
    return "ffff" in i and not i.startswith("query ")


SPEC = dict(
        lean_module="NV.Props.C13",
        level_text="Kernel-checked theorems over every structured query (any number/order of EDNS options, any question, any pre-OPT "
                   "additional records): after query.parse the payload equals the encoding of the same query with each client-subnet option "
                   "(FAMILY 1/2, >= 8 data bytes, length <= 255) replaced by code 0xFFFF + zeros and every other byte unchanged; PeerIP = last "
                   "full-address option else the socket peer; length preserved and no out-of-bounds access for every byte string; the POST "
                   "body is q.Payload. The spec encoder is compared with the repository's dnsmessage.Builder, the parser model with the real "
                   "query.New, the POST body with the real DOH.resolve through a recording RoundTripper; option codes and the bytes written "
                   "by nutterECSOption are regenerated from the source.",
        level_note="Trusted: Lean kernel; translator for the constants; correspondence harness. ECS options longer than 255 bytes (outside RFC 7871) "
                   "keep their address: negative theorem ecs_len_ge_256_witness + known finding. A query whose OPT RDATA is malformed is forwarded "
                   "unmodified (proxy logs the parse error and resolves anyway): outside the property's quantifier, noted.",
        areas=[dict(name="parse", n_quick=30000, n_thorough=900000, shards_thorough=8, oracle=oracle_parse, nontrivial=nontrivial_parse),
               dict(name="ecs", n_quick=15000, n_thorough=450000, shards_thorough=8, oracle=oracle_ecs,
                    nontrivial=lambda c, i: "ffff" in i)],
        trusted=COMMON_TRUST + ["translator /verif/extract (EDNS option codes, bytes written by nutterECSOption)",
                                "net/http request construction: bytes.NewReader(q.Payload) is delivered unchanged to the RoundTripper (observed by the ecs area)"],
        assumptions=["the property's queries are those of NV.Spec.QueryMsg: one question with ordinary labels, no answer/authority records, "
                     "non-OPT additional records only before the OPT, OPT with root owner last, options tiling its RDATA",
                     "options longer than 255 bytes are excluded from the headline theorem (known finding C13-ecs-len-ge-256)"],
)
