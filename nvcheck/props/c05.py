from props.common import *

# ------------------------------------------------------------------ C05 / C01 (socket level)
def adv_size(payload):
    """independent re-implementation of 'advertised EDNS size' for strictly WELL-FORMED queries:
    header, one question (uncompressed name, <= 255 bytes), then nothing or exactly one OPT RR
    with root owner whose options tile its RDATA and which ends the message; None otherwise"""
    try:
        if len(payload) < 17: return None
        qd, an, ns, ar = (int.from_bytes(payload[i:i+2], "big") for i in (4, 6, 8, 10))
        if qd != 1 or an or ns or ar > 1: return None
        off = 12
        nlen = 0
        while True:
            l = payload[off]
            if l == 0: off += 1; break
            if l & 0xC0: return None
            off += 1 + l
            nlen += 1 + l
            if nlen > 254: return None
        off += 4
        if off > len(payload): return None
        if ar == 0:
            return 512 if off == len(payload) else None
        if payload[off] != 0: return None
        typ = int.from_bytes(payload[off+1:off+3], "big")
        if typ != 41: return None
        adv = int.from_bytes(payload[off+3:off+5], "big")
        rdlen = int.from_bytes(payload[off+9:off+11], "big")
        o = off + 11
        end = o + rdlen
        if end != len(payload): return None
        while o < end:
            if o + 4 > end: return None
            o += 4 + int.from_bytes(payload[o+2:o+4], "big")
        if o != end: return None
        return adv
    except IndexError:
        return None

def oracle_sock(case, impl, check_question=False):
    """C05/C01 direct checks on what the real proxy sent."""
    f = case.split(" ")
    proto, payload = f[0], unhex(f[1])
    if len(payload) <= 14:
        return None
    if impl in ("TIMEOUT", "drop", "SHORT", "close") or impl.startswith("ERR"):
        return "no reply to a %d-byte %s query: %s" % (len(payload), proto, impl)
    rep = unhex(impl)
    if proto == "tcp":
        if len(rep) < 2 or int.from_bytes(rep[:2], "big") != len(rep) - 2:
            return "TCP length prefix does not match the body"
        rep = rep[2:]
    adv = adv_size(payload)
    if adv is None:
        return None   # not a well-formed query of the harness's own shape: only the model diff applies
    if f[2] in ("S", "E", "T") and len(rep) >= 2 and rep[:2] != payload[:2]:
        return "reply carries another ID"   # (an 'H' outcome is an upstream message with its own bytes)
    if check_question and f[2] in ("E", "T"):
        # resolution failed: a SERVFAIL carrying this query's question, byte for byte
        qend = 12
        while payload[qend] != 0:
            qend += 1 + payload[qend]
        qend += 5
        if not (len(rep) >= 12 and rep[2] & 0x80 and rep[3] & 0x0f == 2):
            return "resolution failed but the reply is not a SERVFAIL"
        if rep[12:qend] != payload[12:qend] or rep[4:6] != b"\x00\x01":
            # a label containing '.' is re-split at the dot when the proxy rebuilds the question
            # (recorded finding dotted-label, same root cause as C06's cache-key alias)
            off, dotted = 12, False
            while payload[off] != 0:
                if b"." in payload[off + 1:off + 1 + payload[off]]:
                    dotted = True
                off += 1 + payload[off]
            if dotted:
                return "KNOWN:dotted-label: SERVFAIL question differs for a label containing '.'"
            return "SERVFAIL does not carry the query's question"
    up = None
    if f[2] == "S":
        up = int(f[3])
    if proto == "udp":
        lim = max(512, adv)
        if len(rep) > lim:
            return "UDP reply of %d bytes exceeds the client's limit %d" % (len(rep), lim)
        if up is not None and 12 <= up <= 65535:
            if len(rep) < up and not (len(rep) >= 3 and rep[2] & 2):
                return "UDP reply shortened from %d to %d bytes without TC" % (up, len(rep))
            if up <= lim and len(rep) != up:
                return "answer of %d bytes fits the limit %d but %d bytes were sent" % (up, lim, len(rep))
    else:
        if up is not None and 1 <= up <= 65535 and len(rep) != up:
            return "TCP reply has %d bytes, upstream answer had %d" % (len(rep), up)
    return None


def oracle_upf_size(case, impl):
    """C05 on the REAL upstream transports (area upfault: proxy -> resolver.DNS -> DoH / plain DNS over UDP): when the
    upstream delivered a complete message of `up` bytes, the client's reply obeys the same size rules as with a scripted
    upstream - a transport that cuts the message on its way in produces a shortened reply without TC."""
    f = case.split(" ")
    if len(f) < 5 or f[0] != "upf":
        return None
    which, proto, payload, fault = f[1], f[2], unhex(f[3]), f[4:]
    parts = impl.split(" ")
    if len(parts) != 2 or parts[0] in ("TIMEOUT", "ERR", "close", "SHORT"):
        return None          # liveness under faults is C03's
    adv = adv_size(payload)
    if adv is None:
        return None
    up = None
    if which == "doh" and fault[0] == "ok" and len(fault) >= 2:
        up = int(fault[1])
    if which == "dns53" and fault[0] != "none":
        good = [d.split(":") for d in fault[0].split(",")
                if d.split(":")[1] in ("match", "garbage") and int(d.split(":")[0]) < 300 and int(d.split(":")[2]) >= 2]
        if good and good[0][1] == "match":
            up = int(good[0][2])
    if up is None or not (12 <= up <= 65000):
        return None
    rep = unhex(parts[0])
    if proto == "tcp":
        if len(rep) < 2 or int.from_bytes(rep[:2], "big") != len(rep) - 2:
            return "TCP length prefix does not match the body"
        rep = rep[2:]
        if len(rep) != up:
            return "TCP reply has %d bytes, the %s upstream's answer had %d" % (len(rep), which, up)
        return None
    lim = max(512, adv)
    if len(rep) > lim:
        return "UDP reply of %d bytes exceeds the client's limit %d" % (len(rep), lim)
    if len(rep) < up and not (len(rep) >= 3 and rep[2] & 2):
        return "UDP reply shortened from the %s upstream's %d bytes to %d without TC" % (which, up, len(rep))
    if up <= lim and len(rep) != up:
        return "the %s upstream's answer of %d bytes fits the limit %d but %d bytes were sent" % (which, up, lim, len(rep))
    return None


def _oracle_tcpstream(case, impl):
    from props.c01 import oracle_tcpstream
    return oracle_tcpstream(case, impl)


SPEC = dict(
        lean_module="NV.Props.C05",
        level_text="Kernel-checked theorems for every (advertised size, response length) pair: reply length <= max(512, advertised), "
                   "a cut always sets TC, a fitting answer keeps its length, TCP prefix exact; the truncation block and constants are "
                   "re-translated from proxy/udp.go on every run and proved equal to the model; real sockets are driven on boundary grids.",
        level_note="Trusted: Lean kernel; translator for the truncation block; loopback sockets. TC-without-cut above 4094 bytes is a recorded finding (C01).",
        areas=[dict(name="sock", n_quick=4000, n_thorough=60000, shards_thorough=8, oracle=oracle_sock,
                    nontrivial=lambda c, i: len(i) > 8),
               # the same rules with the real upstream transports in between (DoH over HTTP/2, plain DNS over UDP)
               dict(name="upfault", n_quick=70, n_thorough=1500, shards_thorough=8, oracle=oracle_upf_size, timeout=1200,
                    nontrivial=lambda c, i: True),
               # one TCP connection as a stream; op stallread: pipelined 60000-byte replies to a client that reads late
               dict(name="tcpstream", n_quick=60, n_thorough=2000, shards_thorough=2, oracle=_oracle_tcpstream, timeout=900)],
        trusted=COMMON_TRUST + ["kernel UDP/TCP loopback delivery", "translator /verif/extract (constants, truncation block)"],
        assumptions=["advertised sizes above 65507 are outside the property's quantifier (a UDP datagram cannot carry them)"],
)
