from props.common import *
import props.c08 as _c08
from props.c08 import oracle_mgr, nontrivial_mgr

SOAK_OK = "returned=all once=1 offered=1 overlap=0 quiesce=1 lock=free"


def oracle_soak(case, impl):
    """C09 direct check on the concurrent soak of the real manager."""
    if impl.startswith("PANIC"):
        return "the manager panicked under concurrent load (%s)" % impl[:120]
    d = kv("x " + impl)
    if d.get("returned") != "all":
        return "liveness: concurrent Do callers did not all return within 10 s"
    if d.get("once") != "1":
        return "a Do ran its action zero or several times"
    if d.get("offered") != "1":
        return "an action received an endpoint nobody offered (or nil)"
    if d.get("overlap") != "0":
        return "two elections overlapped (concurrent GetEndpoints calls)"
    if d.get("quiesce") != "1" or d.get("lock") != "free":
        return "the manager did not quiesce: testing flag or m.mu still held after all callers returned"
    return None


def oracle_epeq(case, impl):
    """endpoint identity: identical endpoints are equal, endpoints that differ in kind, host, path or in the SET of
    bootstrap addresses are not (the election installs a new endpoint / fires OnChange only when Equal says 'different')."""
    import re
    f = case.split(" ")
    m = re.match(r"ab=([01]) ba=([01]) aa=([01])$", impl)
    if not m:
        return "unexpected harness output " + impl[:60]
    ab, ba, aa = m.groups()
    def norm(s):
        g = s.split(";")
        return (g[0], g[1], g[2] if len(g) > 2 else "", tuple(sorted(g[3].split(","))) if len(g) > 3 else ())
    same = norm(f[1]) == norm(f[2])
    if aa != "1":
        return "an endpoint is not Equal to an identical copy of itself"
    if ab != ba:
        return "Equal is not symmetric on %s / %s" % (f[1][:60], f[2][:60])
    if same and ab != "1":
        return "identical endpoints compare different"
    if not same and ab != "0":
        return ("two different servers compare Equal (%s vs %s): an election that finds the healthy one of them keeps the other"
                % (f[1][:80], f[2][:80]))
    return None


def oracle_failover(case, impl):
    """C09 at the resolver/manager joint: error-threshold consecutive failed queries on the active endpoint start an
    election, and with a healthy alternative later queries use it."""
    import re
    m = re.match(r"final=(\w+) changed=([01])$", impl)
    if not m:
        return "failover run did not complete: " + impl[:80]
    if m.group(1) != "B":
        f = case.split(" ")
        return ("the active endpoint failed every one of %s queries (error threshold %s) while a healthy alternative existed, "
                "but later queries are %s: no failover" % (f[2], f[1], "still sent to the dead endpoint" if m.group(1) == "fail" else "answered by A"))
    return None


SPEC = dict(
    lean_module="NV.Props.C09",
    areas=[dict(name="failover", n_quick=4, n_thorough=40, shards_thorough=4, oracle=oracle_failover, timeout=600),
           dict(name="epeq", n_quick=20000, n_thorough=400000, shards_thorough=4, oracle=oracle_epeq),
           dict(name="mgr", n_quick=4000, n_thorough=160000, shards_thorough=8,
                oracle=lambda c, i: oracle_mgr(c, i, "c09"), nontrivial=nontrivial_mgr, timeout=1200),
           dict(name="mgrc", n_quick=40, n_thorough=1600, shards_thorough=8, oracle=oracle_soak, timeout=1200),
           # a probe that only returns at its own 5 s deadline must not starve the next candidate's probe (failover)
           dict(name="mgrx", n_quick=1, n_thorough=3, shards_thorough=1, oracle=_c08.oracle_mgrx, timeout=300)],
    level_text="(1) Lock discipline from the source: the control-flow graphs of every Manager/activeEnpoint method that touches a lock are "
               "regenerated (go/cfg) on every run and projected on m.mu write/read and e.mu write/read/any; a kernel-checked certificate "
               "(mu_balanced, lifted to EVERY path of any length by cert_sound) shows each exit gives back what it took, every …Locked "
               "callee is entered with its lock held, and the whole election runs with m.mu write-held (elections are serialised). "
               "(2) Progress on the manager model, for all operation lists: no reachable state blocks any operation (never_stuck, run_total); "
               "per object at most one started election, exactly while its testing flag is set (single_flight); the failed query that "
               "brings the error count to exactly the threshold starts one election (threshold_starts_election); a started election whose "
               "active endpoint fails its probe installs the first healthy candidate and later queries use it (failover); once the interval "
               "has elapsed the next query starts exactly one election which returns to the preferred healthy endpoint (recovery). "
               "The model is tied to the real Manager by gated scripts (Do calls interleaved with started elections) and a concurrent soak.",
    level_note="Partial for the schedule quantifier on the implementation side: model steps are atomic (Do up to its action, action return, "
               "election); the Go scheduler is sampled by the soak (40-1600 runs with 2-8 concurrent callers, elections ungated), the "
               "narrow windows inside shouldTest/setTesting are covered by the e.mu certificate only. Trusted: go/cfg, the event "
               "classifier of extract/managercfg.go, sync.RWMutex semantics. The pre-repair tree fails mu_balanced at getActiveEndpoint "
               "and the harness then finds the blocked Do (corpus/mgr/001).",
    trusted=COMMON_TRUST + ["go/cfg v0.29.0 (vendored in /verif/extract/cfg)", "extract/managercfg.go event classifier",
                            "sync.RWMutex / goroutine semantics", "harness gate: VerifUnlock/VerifLock at the first statement of findBestEndpointLocked"],
    assumptions=["callbacks (OnChange, OnError, OnProviderError, DebugLog, providers, testers) return and do not call back into the Manager",
                 "a panic between Lock and Unlock is out of scope (testLocked's OnChange window is not defer-protected)",
                 "Endpoint.Equal is key equality; fewer than 2^32 consecutive errors"],
)


# ------------------------------------------------------------------ race-detector soak (extra step)
def race_soak(run):
    """The concurrent soak once more, built with -race.  Reports that involve the manager are
    violations, except the write `ae.testInterval = minTestIntervalFailed` without e.mu (DESIGN §7 #8,
    property C15), which is only noted here."""
    import core, os, glob, re, shutil, subprocess
    src = os.path.join(core.BUILD, "hsrc")
    racebin = os.path.join(core.BUILD, "nvh-race")
    with core.Lock("gobuild"):
        rc, out = core.sh(["go", "build", "-race", "-tags", "verif", "-overlay", run.overlay, "-o", racebin, "."], cwd=src, timeout=900)
    if rc != 0:
        run.notes.append("race-detector build not available, soak ran without it: " + out[-200:].replace("\n", " "))
        return
    d = os.path.join(run.rundir, "mgrc-race")
    shutil.rmtree(d, ignore_errors=True)
    os.makedirs(d)
    n = 30 if run.tier == "quick" else 600
    env = dict(core.GOENV, GORACE="log_path=%s halt_on_error=0" % os.path.join(d, "race"))
    p = subprocess.run([racebin, "mgrc", "-seed", str(run.seed + 77), "-n", str(n), "-tier", run.tier, "-out", d],
                       env=env, stdout=subprocess.PIPE, stderr=subprocess.STDOUT, text=True, timeout=1200)
    if p.returncode != 0:
        run.add_violation("race-detector soak exited with %s: %s" % (p.returncode, p.stdout[-300:]), {"correspondence": "mgrc -race"}, concrete=False)
        return
    acov = {"cases": 0, "distinct_nontrivial": 0, "distribution": {}, "mismatches": 0}
    run.compare(dict(name="mgrc", oracle=oracle_soak), "race-detector soak", d, acov, set())
    known, other = 0, []
    for f in glob.glob(os.path.join(d, "race.*")):
        for rep in open(f, errors="replace").read().split("WARNING: DATA RACE")[1:]:
            rep = rep.split("==================")[0]
            if "resolver/endpoint" not in rep:
                continue
            is_known = False
            for path, ln in re.findall(r"(\S+/resolver/endpoint/manager\.go):(\d+)", rep):
                try:
                    if "testInterval = minTestIntervalFailed" in open(path).read().splitlines()[int(ln) - 1]:
                        is_known = True
                except Exception:
                    pass
            if is_known:
                known += 1
            else:
                other.append(rep.strip()[:1500])
    acov["race_reports_known_C15_testInterval"] = known
    acov["race_reports_other"] = len(other)
    run.cov["areas"]["mgrc-race"] = acov
    run.cov["evaluations"] += acov["cases"]
    if known:
        run.notes.append("race detector: %d report(s) of the unsynchronised write `ae.testInterval = minTestIntervalFailed` "
                         "(DESIGN §7 #8, belongs to C15; not a C09 violation)" % known)
    for rep in other[:3]:
        run.add_violation("data race in the endpoint manager under concurrent Do callers (race detector)",
                          {"correspondence": "mgrc -race", "race_report": rep}, concrete=False)


SPEC["extra"] = [race_soak]
