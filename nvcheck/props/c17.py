from props.common import *

# ------------------------------------------------------------------ C17 (configuration round trip)
# impl line:  obs0 | obs1 | fl:<saved file> | obs2      (see lean/NV/Driver/Config.lean)
#   obs0 = real Config.Parse of the initial file without arguments
#   obs1 = real Config.Parse of the initial file with the arguments, then Save
#   obs2 = real Config.Parse of the saved file in a fresh Config
# The oracle checks the property on these real observations only (the model is not consulted).

def _txt(h):
    return unhex(h).decode("latin1")

def _obs(s):
    if s in ("EXIT", "-") or ":" not in s:
        return None
    d = {}
    for part in s.split(";"):
        k, v = part.split(":", 1)
        d[k] = [] if v == "." else v.split(",")
    d["scd"] = dict(x.split("=", 1) for x in d["sc"])
    return d

def _case(case):
    sec = {}
    for tok in case.split(" ")[1:]:
        sec[tok[0]] = tok[2:]
    args = []
    if sec.get("A", ".") != ".":
        for e in sec["A"].split(";"):
            form, name, val = e.split(":")
            args.append((form, name, unhex(val)))
    lines = [] if sec.get("F", ".") == "." else [unhex(x) for x in sec["F"].split(";")]
    return args, lines

_WS = b" \t\n\v\f\r"

def _in_domain(v):
    """printable ASCII (other bytes tolerated when >= 0x80) without surrounding white space"""
    if any(b < 0x20 or b == 0x7f for b in v):
        return False
    return not v or (v[0] not in _WS and v[-1] not in _WS)

def _file_names(lines):
    names = set()
    for l in lines:
        t = l.strip(_WS)
        if not t or t.startswith(b"#"):
            continue
        names.add(t.split(b" ", 1)[0].decode("latin1"))
    return names

_PROFILE_OPTS = ("profile", "config")

_BOOL_FLAG = {b"1": "1", b"t": "1", b"T": "1", b"TRUE": "1", b"true": "1", b"True": "1",
              b"0": "0", b"f": "0", b"F": "0", b"FALSE": "0", b"false": "0", b"False": "0"}
_STRING_OPTS = ("control", "cache-size", "discovery-dns", "mdns")
_BOOL_OPTS = ("debug", "log-queries", "report-client-info", "detect-captive-portals", "bogus-priv", "use-hosts",
              "setup-router", "auto-activate")

def _set_takes_effect(args, o1):
    last = {}
    for form, name, val in args:
        last[name] = (form, val)
    for name, (form, val) in last.items():
        got = o1["scd"].get(name)
        if name in _BOOL_OPTS:
            want = "1" if form in "bB" else _BOOL_FLAG.get(val)
        elif name in _STRING_OPTS:
            if form in "sS" and val == b"-config":
                val = b"-profile"       # flagSet.Parse rewrites every argv token equal to "-config"
            want = val.hex() or "-"
        elif name == "max-inflight-requests" and val.isdigit() and (val == b"0" or not val.startswith(b"0")):
            want = str(int(val))
        else:
            continue
        if want is not None and got != want:
            return "option %s was set to %r on the command line but Parse left %s" % (name, val, got)
    return None

def oracle_config(case, impl):
    parts = impl.split(" | ")
    if len(parts) != 4:
        return "unexpected implementation output: %s" % impl[:120]
    for p in parts:
        if p.startswith(("PANIC", "TIMEOUT", "SAVE-ERROR", "WORKER-ERROR", "BADREQ", "EXIT-")):
            return "real code failed: %s" % p[:160]
    args, lines = _case(case)
    o0, o1, o2 = _obs(parts[0]), _obs(parts[1]), _obs(parts[3])
    if not args and (o0 is None) != (o1 is None):
        return "the same Parse without arguments once exits and once does not"
    if o1 is None:
        return None                       # the command line / file was not accepted: nothing was saved
    if not all(_in_domain(v) for _, _, v in args):
        return None                       # outside the property's quantifier (surrounding white space, control bytes)
    argnames = {n for _, n, _ in args}
    deprecated = "config" in argnames or "config" in _file_names(lines)
    # ---- the option that was set has the value given (scalars whose flag-side parse is plain)
    why = _set_takes_effect(args, o1)
    if why:
        return why
    # ---- round trip: the saved configuration loads, and loads to the same effective configuration
    if o2 is None:
        return "the configuration accepted and saved by Parse+Save makes the next start exit (values: %s)" % (
            ",".join("%s=%s" % (n, v.decode("latin1")) for _, n, v in args)[:200])
    for k, what in (("sc", "scalar options"), ("li", "listen addresses"), ("pg", "Profiles.Get on the client probes"),
                    ("fg", "Forwarders.Get on the name probes")):
        if o1[k] != o2[k]:
            diff = [(a, b) for a, b in zip(o1[k], o2[k]) if a != b][:2]
            return "reload differs in %s: %s" % (what, diff)
    if not deprecated:
        for k, what in (("pr", "profile list"), ("fw", "forwarder list"), ("cd", "deprecated config list")):
            if o1[k] != o2[k]:
                return "reload differs in the %s: %s vs %s" % (what, o1[k][:4], o2[k][:4])
    # ---- the saved file: every scalar once, list options in order
    fl = [unhex(x) for x in ([] if parts[2] == "fl:." else parts[2][3:].split(","))]
    names = [l.split(b" ", 1)[0].decode("latin1") for l in fl]
    for n in o1["scd"]:
        if names.count(n) != 1:
            return "scalar option %s is written %d times" % (n, names.count(n))
    # ---- setting one option leaves the other stored options unchanged
    if o0 is not None:
        for n, v in o0["scd"].items():
            if n not in argnames and o2["scd"].get(n) != v:
                return "option %s was %s before `config set %s` and is %s after" % (n, v, " ".join(sorted(argnames)), o2["scd"].get(n))
        if "listen" not in argnames and o0["li"] != o2["li"]:
            return "listen changed although it was not set: %s -> %s" % (o0["li"], o2["li"])
        if not (argnames & set(_PROFILE_OPTS)):
            if o0["pg"] != o2["pg"]:
                return "Profiles.Get changed although no profile was set: %s -> %s" % (o0["pg"][:4], o2["pg"][:4])
            if not deprecated and o0["pr"] != o2["pr"]:
                return "profile list changed although no profile was set: %s -> %s" % (o0["pr"][:4], o2["pr"][:4])
        if "forwarder" not in argnames and (o0["fg"] != o2["fg"] or o0["fw"] != o2["fw"]):
            return "forwarders changed although none was set: %s -> %s" % (o0["fw"][:4], o2["fw"][:4])
    return None


def nontrivial_config(case, impl):
    return " | EXIT | " not in impl and "A=." not in case


SPEC = dict(
        lean_module="NV.Props.C17",
        level_text="Kernel-checked theorems over an executable model of flagSet.Parse / Save / LoadConfig and of the String/Set pairs of "
                   "every entry kind: line round trip, list Set round trip, load(save c) = c for every well-formed configuration and every "
                   "map order, order irrelevance across options, set-one-preserves-others, and 'every accepted command line yields a "
                   "well-formed configuration'. The option table and the storage bit size are regenerated from config.go / "
                   "host/service/config.go on every run and proved equal to the model's; the real Parse→Save→Parse runs in child "
                   "processes on generated command lines, files and histories and is compared with the model and with a direct oracle.",
        level_note="Trusted: Lean kernel; translator (option table, ConfigUint bit size); Go stdlib behind the Env parameters "
                   "(time.ParseDuration∘Duration.String, net.ParseCIDR/ParseMAC/InterfaceByName and their String forms, bufio.Scanner, flag "
                   "syntax), stated as EnvLaws hypotheses. Interfaces are assumed unchanged between save and load. "
                   "Partial for the deprecated -config flag (migration appends without replace-same-condition: recorded finding).",
        areas=[dict(name="config", n_quick=4000, n_thorough=120000, shards_thorough=8, oracle=oracle_config,
                    nontrivial=nontrivial_config)],
        trusted=COMMON_TRUST + [
            "translator /verif/extract (config.flagSet option table, ConfigUint.Set bit size)",
            "Go standard library behind the model's Env parameters: time.ParseDuration / Duration.String, net.ParseCIDR / ParseMAC / "
            "InterfaceByName / IPNet.String / HardwareAddr.String / IPNet.Contains, resolver.New's acceptance depending on the text only, "
            "bufio.Scanner line splitting, package flag's argument syntax (-n v, -n=v, --n)"],
        assumptions=[
            "values are ASCII without surrounding white space and without control characters (the property's quantifier); "
            "strings.TrimSpace is modelled for ASCII white space",
            "the set of network interfaces and their addresses is the same when the file is saved and when it is loaded",
            "64-bit platform (uint = 64 bits); flag-side uint spellings other than plain decimal (0x.., 0b.., _) are not generated",
            "the hardened-privacy flag is bound to a throw-away variable and always saved as false (it has no effect)"],
)
