"""Per-property configuration, one module per property (cXX.py) defining SPEC (a dict):
  lean_module   Lean module holding the property theorems (NV.Props.CXX)
  areas         correspondence areas: dict(name, n_quick, n_thorough, shards_thorough, oracle, nontrivial, args)
  extra         optional list of callables(run) for property-specific steps
  level_text / level_note / technique / trusted / assumptions   MANIFEST + evidence texts
A property without a module here is listed under not_applicable in MANIFEST.json with the reason
given in NOT_CLAIMED (or 'check not built yet')."""
import importlib, pkgutil, os

PROPS = {}
for m in pkgutil.iter_modules([os.path.dirname(__file__)]):
    if m.name.startswith("c") and m.name[1:].isdigit():
        mod = importlib.import_module("props." + m.name)
        PROPS[m.name.upper()] = mod.SPEC

NOT_CLAIMED = {}
