from props.common import *

# ------------------------------------------------------------------ C10 (split-horizon forwarders)
# Independent statement of the property on the implementation's own output: names and rule domains
# are split into labels, compared label-wise under ASCII case folding (RFC 4343), first rule wins,
# else the default upstream; exactly one upstream sees the query.

ROOT_RULE_HITS = [0]   # cases whose only deviation is the open finding C10-root-domain-rule


def _labels(text):
    """labels of an absolute name's text; None when the text is not a well-formed absolute name"""
    if text == b".":
        return []
    if not text.endswith(b"."):
        return None
    ls = text[:-1].split(b".")
    if any(len(l) == 0 for l in ls):
        return None
    return ls


def _fold(l):
    return bytes(c + 32 if 65 <= c <= 90 else c for c in l)


def _is_suffix(dl, nl):
    dl = [_fold(l) for l in dl]
    nl = [_fold(l) for l in nl]
    return len(dl) <= len(nl) and nl[len(nl) - len(dl):] == dl


def _expect_match(domain, name_labels, root_quirk):
    """True/False, or None when the rule's domain is malformed (outside the property's quantifier)"""
    if domain == b"":
        return True
    dl = _labels(domain)
    if dl is None:
        return None
    if dl == [] and root_quirk:
        return name_labels == []
    return _is_suffix(dl, name_labels)


def oracle_fwd(case, impl):
    f = case.split(" ")
    if impl.startswith("PANIC") or impl.startswith("TIMEOUT"):
        return "forwarder code did not return normally: " + impl[:80]
    if f[0] == "fmatch":
        nl = _labels(unhex(f[2]))
        if nl is None or impl not in ("0", "1"):
            return None
        want = _expect_match(unhex(f[1]), nl, False)
        if want is None or want == (impl == "1"):
            return None
        if _expect_match(unhex(f[1]), nl, True) == (impl == "1"):
            ROOT_RULE_HITS[0] += 1
            return None
        return "Match(domain=%r, name=%r) = %s, label-suffix rule says %s" % (unhex(f[1]), unhex(f[2]), impl, int(want))
    if f[0] == "fwdq":
        # the name of a wire query whose QUESTION is well formed (whatever follows it)
        p = unhex(f[2])
        off, labels = 12, []
        while off < len(p) and p[off] != 0 and p[off] < 64 and off + 1 + p[off] <= len(p):
            labels.append(p[off + 1:off + 1 + p[off]])
            off += 1 + p[off]
        if off >= len(p) or p[off] != 0 or off + 5 > len(p) or int.from_bytes(p[4:6], "big") != 1:
            return None
        f = ["fwd", f[1], (b".".join(labels) + b".").hex() if labels else b".".hex()] + f[3:]
        r = oracle_fwd(" ".join(f), impl)
        return None if r is None else "wire query (question %r, section after it possibly malformed): %s" % (b".".join(labels), r)
    if f[0] == "fwdseq":
        # names resolved one after the other on ONE forwarder list: each goes to the upstream it would go to alone
        if not impl.startswith("seq="):
            return None
        outs = impl[4:].split("/")
        names = f[2].split(",")
        if len(outs) != len(names):
            return "fwdseq: %d names, %d results" % (len(names), len(outs))
        for i, (n, o) in enumerate(zip(names, outs)):
            got, alone = o.split(":") if ":" in o else (o, o)
            if got != alone:
                return ("query %d of a sequence on one forwarder list, name %r, was sent to upstream %s; the same rules asked this name "
                        "alone send it to %s: where a name goes depends on what was asked before" % (i + 1, unhex(n), got, alone))
        first = {}
        for i, (n, o) in enumerate(zip(names, outs)):
            if n in first and first[n][1] != o:
                return ("the same name %r was sent to upstream %s as query %d and to upstream %s as query %d of one sequence on one "
                        "forwarder list: where a name goes depends on what was asked before" % (unhex(n), first[n][1], first[n][0] + 1, o, i + 1))
            first.setdefault(n, (i, o))
            if "," in o:
                return "query %d of the sequence was sent to several upstreams (%s)" % (i + 1, o)
        return None
    if f[0] != "fwd" or not impl.startswith("list="):
        return None
    d = kv("x " + impl)
    catch = f[1] == "1"
    name = unhex(f[2])
    entries = [] if (d["list"] == "-" and not catch) else [unhex(t) for t in d["list"].split(",")]
    calls = [] if d["calls"] == "-" else d["calls"].split(",")
    # exactly one upstream, the one Get designates, its answer handed through
    if d["get"] == "none":
        if calls or d["ret"] != "noforwarder":
            return "no forwarder chosen but calls=%s ret=%s" % (d["calls"], d["ret"])
        if catch:
            return "catch-all present but no upstream chosen"
    else:
        if calls != [d["get"]]:
            return "upstream %s chosen but the query was sent to %s" % (d["get"], d["calls"])
        if d["ret"] != str(1000 + int(d["get"])):
            return "result of upstream %s not handed through (ret=%s)" % (d["get"], d["ret"])
        # the same query with every upstream down: still only the chosen upstream, its error returned
        if "fcalls" in d:
            fcalls = [] if d["fcalls"] == "-" else d["fcalls"].split(",")
            if fcalls != [d["get"]]:
                return "upstream %s is down and the query was (also) sent to %s: a query must reach exactly one upstream" % (d["get"], d["fcalls"])
            if d.get("fret") != "err":
                return "the chosen upstream failed but Resolve returned %s" % d.get("fret")
    nl = _labels(name)
    if nl is None:
        return None          # not an absolute well-formed name: only the model diff applies
    doms = [e.split(b"=", 1)[0] if b"=" in e else b"" for e in entries]
    # the configured rules, read independently from the values of the case: DOMAIN = text before the
    # first '=', white space trimmed, made absolute; a later value with the same DOMAIN replaces in place
    conf = []
    for v in (unhex(t) for t in f[3:]):
        dom = b""
        if b"=" in v:
            dom = v.split(b"=", 1)[0].strip(b" \t\n\v\f\r")
            if not dom.endswith(b"."):
                dom += b"."
        if dom in conf:
            continue
        conf.append(dom)
    if catch:
        conf.append(b"")
    if conf != doms:
        return "configured rule domains %r differ from what the -forwarder values say: %r" % (doms, conf)

    def choose(quirk):
        for i, dom in enumerate(doms):
            m = _expect_match(dom, nl, quirk)
            if m is None:
                return "skip"
            if m:
                return str(i)
        return "none"
    want = choose(False)
    if want == "skip" or want == d["get"]:
        return None
    if choose(True) == d["get"]:
        ROOT_RULE_HITS[0] += 1
        return None
    return "name %r went to upstream %s; first rule whose domain is the name or a parent of it (case-insensitive) is %s (rules %r)" % (
        name, d["get"], want, doms)


def confirm_known(run, k):
    if k.get("id") == "C10-root-domain-rule":
        # re-confirmed only when the implementation actually deviated from the label-suffix rule in
        # exactly the way the finding describes (not merely because a root-domain rule was generated)
        return ROOT_RULE_HITS[0] > 0
    return k.get("_hit", 0) > 0


def _oracle_realep(case, impl):
    from props.c11 import oracle_realep
    return oracle_realep(case, impl)


SPEC = dict(
        lean_module="NV.Props.C10",
        level_text="Kernel-checked theorems for every forwarder list, name and upstream behaviour: Match is invariant under ASCII case "
                   "folding of rule and name; for absolute names Match holds exactly when the rule's labels are a label-wise suffix of the "
                   "name's (so notcorp. never matches corp.); Get returns the first matching rule's upstream, with run.go's catch-all the "
                   "default exactly when no rule matches; Resolve calls exactly that upstream once and no other. The model is tied to the "
                   "code by running generated ordered rule lists x names through the real Forwarders.Set/Get/Resolve with recording "
                   "resolvers, plus an independent label-suffix oracle on the implementation's output; the catch-all block of run.go is "
                   "re-read by the translator.",
        level_note="Trusted: Lean kernel; harness/generator; resolver.New (server syntax) and strings.TrimSpace for non-ASCII space are not "
                   "modelled. Rule domains with a '.' inside a label cannot be written in the text form and are out of scope (C06 finding). "
                   "Open finding: a rule for the root domain ('.=addr') matches only the root name (match_root_rule_only_root). The "
                   "case-insensitivity defect (DESIGN §7 #4) is repaired by a fix: commit and now proved (match_case_insensitive).",
        areas=[dict(name="realep", n_quick=25, n_thorough=400, shards_thorough=2, oracle=_oracle_realep, timeout=900),
               dict(name="fwd", n_quick=120000, n_thorough=2400000, shards_thorough=8, oracle=oracle_fwd,
                    nontrivial=lambda c, i: "get=none" not in i and i not in ("0",))],
        confirm_known=confirm_known,
        trusted=COMMON_TRUST + ["translator /verif/extract (shape of the catch-all block in run.go)",
                                "resolver.New accepts the generated server lists; upstream objects are opaque (identified by position)"],
        assumptions=["query names are the text form produced by dnsmessage (absolute, labels separated by '.'); labels containing '.' are indistinguishable in that form",
                     "ASCII case folding only (RFC 4343): bytes >= 0x80 and the non-letters adjacent to the letter ranges are compared exactly"],
)
