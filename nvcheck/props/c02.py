from props.common import *

# ------------------------------------------------------------------ C02
def oracle_parse_total(case, impl):
    """C02: the real parser must return (no panic, no hang) on every byte string."""
    if impl.startswith("PANIC") or impl.startswith("TIMEOUT"):
        return "query.New did not return normally: " + impl[:80]
    return None


SPEC = dict(
        lean_module="NV.Props.C02",
        level_text="Termination of query.parse and of every dnsmessage loop it reaches is proved for all byte strings (fuel bound / "
                   "Lean termination checker); the handler model always emits a reply; the model is tied to the real parser by a "
                   "differential run over structured and malformed messages with a per-input deadline (hang/panic oracle).",
        level_note="Trusted: Lean kernel; the correspondence harness and generator. Slice-bounds panics inside dnsmessage are excluded by the "
                   "differential run (PANIC output), not by a theorem; goroutine scheduling is observed, not modelled.",
        areas=[dict(name="parse", n_quick=20000, n_thorough=400000, shards_thorough=8,
                    oracle=oracle_parse_total,
                    nontrivial=lambda c, i: not i.startswith("query "))],
        trusted=COMMON_TRUST + ["Go runtime: recover/defer, goroutine scheduling (deadline used as hang oracle)"],
        assumptions=["socket layer and goroutine scheduling are not modelled; liveness of the daemon after hostile input is observed through the C01 socket harness"],
)
