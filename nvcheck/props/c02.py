from props.common import *

# ------------------------------------------------------------------ C02
def oracle_parse_total(case, impl):
    """C02: the real parser must return (no panic, no hang) on every byte string."""
    if impl.startswith("PANIC") or impl.startswith("TIMEOUT"):
        return "query.New did not return normally: " + impl[:80]
    return None


def oracle_wedge(case, impl):
    """C02 liveness on the real sockets: every hostile message longer than 14 bytes is answered and the daemon keeps
    answering well-formed queries afterwards."""
    import re
    m = re.match(r"answered=(\d+)/(\d+) after=(\w+)", impl)
    if not m:
        return "unexpected harness output: " + impl[:80]
    a, n, after = int(m.group(1)), int(m.group(2)), m.group(3)
    f = case.split(" ")
    if after != "ok":
        return ("after a burst of %d hostile %s messages (max-inflight-requests=%s) the proxy no longer answers well-formed queries "
                "(%d/%d of the burst were answered)" % (len(f[3].split(",")), f[2], f[1], a, n))
    if a != n:
        return "%d of %d hostile %s messages longer than 14 bytes got no reply (max-inflight-requests=%s)" % (n - a, n, f[2], f[1])
    return None


def _oracle_tcpstream(case, impl):
    from props.c01 import oracle_tcpstream
    return oracle_tcpstream(case, impl)


SPEC = dict(
        lean_module="NV.Props.C02",
        level_text="Termination of query.parse and of every dnsmessage loop it reaches is proved for all byte strings (fuel bound / "
                   "Lean termination checker); the handler model always emits a reply; the model is tied to the real parser by a "
                   "differential run over structured and malformed messages with a per-input deadline (hang/panic oracle). Bursts of hostile "
                   "messages (3K..5K of them, capacity K=2..4) are sent to the real UDP/TCP sockets: each must be answered and the proxy must "
                   "keep answering well-formed queries; the capacity certificate of the handlers (every path returns its unit) is an obligation here too.",
        level_note="Trusted: Lean kernel; the correspondence harness and generator. Slice-bounds panics inside dnsmessage are excluded by the "
                   "differential run (PANIC output), not by a theorem; goroutine scheduling is observed, not modelled.",
        areas=[dict(name="parse", n_quick=20000, n_thorough=400000, shards_thorough=8,
                    oracle=oracle_parse_total,
                    nontrivial=lambda c, i: not i.startswith("query ")),
               dict(name="wedge", n_quick=8, n_thorough=120, shards_thorough=8, oracle=oracle_wedge, timeout=900),
               # one TCP connection as a byte stream (area shared with C01): frames of every announced length up to 65535, unparsable
               # frames, empty / small / short tails - each frame longer than 14 bytes is answered, the daemon lives on
               dict(name="tcpstream", n_quick=400, n_thorough=8000, shards_thorough=4, oracle=_oracle_tcpstream, timeout=900)],
        trusted=COMMON_TRUST + ["Go runtime: recover/defer, goroutine scheduling (deadline used as hang oracle)"],
        assumptions=["socket layer and goroutine scheduling are not modelled; liveness of the daemon after hostile input is observed by the wedge area (real sockets)"],
)
