"""Shared helpers for property specs (nvcheck/props/cXX.py)."""

def kv(line):
    """parse 'stage k=v k=v ...' lines"""
    parts = line.split(" ")
    d = {"_": parts[0]}
    for p in parts[1:]:
        if "=" in p:
            k, v = p.split("=", 1)
            d[k] = v
    return d

def unhex(s):
    return b"" if s in ("-", "none", "") else bytes.fromhex(s)

COMMON_TRUST = [
    "correspondence harness /verif/harness (Go, built from the current tree with -overlay exports) and its generators",
    "Lean driver (lean_exe nvdriver) runs the same definitions the theorems are about",
]
