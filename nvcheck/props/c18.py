from props.common import *

# ------------------------------------------------------------------ C18: discovery tables
# Independent set-based reference (python dict/set, no sorted-list tricks) for what the tables must
# hold; run on the REAL implementation's output for every case.

WS = b" \t\n\r\x0b\x0c"


def dstr(s):
    return b"" if s == "_" else bytes.fromhex(s)


def dlist(s):
    return [] if s == "-" else [dstr(e) for e in s.split(",")]


def dtbl(s):
    t = {}
    if s == "-":
        return t
    for ent in s.split(";"):
        k, v = ent.split(":")
        t[dstr(k)] = [dstr(e) for e in v.split(",")] if v else []
    return t


def absn(n):
    return n if n.endswith(b".") else n + b"."


def fold(n):
    return absn(n.lower())


def strictly_sorted(l):
    return all(l[i] < l[i + 1] for i in range(len(l) - 1))


def valid_name(n):
    if n in (b"", b"*"):
        return False
    if len(n) == 36 and all(n[i] == 0x2d for i in (8, 13, 18, 23)) and all(c in b"0123456789abcdef-" for c in n):
        return False
    if len(n) == 17 and all(n[i] == 0x5f for i in (2, 5, 8, 11, 14)) and all(c in b"0123456789ABCDEF_" for c in n):
        return False
    if 7 <= len(n) <= 15 and all(c in b"0123456789-" for c in n):
        return False
    return True


def oracle_dset(case, impl):
    f = case.split(" ")
    if f[0] == "validname":
        exp = "1" if valid_name(dstr(f[1])) else "0"
        return None if impl == exp else "isValidName(%r) = %s, expected %s" % (dstr(f[1]), impl, exp)
    if f[0] != "appuniq":
        return None
    s, adds = dlist(f[1]), dlist(f[2])
    if len(adds) != 1 or not strictly_sorted(s):
        return None       # the specification speaks about one value added to a sorted duplicate-free list
    if impl.startswith(("PANIC", "TIMEOUT")):
        return "appendUniq: " + impl
    r = dlist(impl)
    if not strictly_sorted(r):
        return "appendUniq(%r, %r) = %r is not sorted and duplicate-free" % (s, adds[0], r)
    if set(r) != set(s) | {adds[0]}:
        return "appendUniq(%r, %r) = %r: the set is not insert(x, s)" % (s, adds[0], r)
    return None


def lines_of(content):
    ls = content.split(b"\n")
    if ls and ls[-1] == b"":
        ls.pop()
    return [l[:-1] if l.endswith(b"\r") else l for l in ls]


def parse_out(impl):
    d = {}
    for part in impl.split(" "):
        k, v = part.split("=", 1)
        d[k] = v
    return d


def answers_ok(queries, out_q, names, addrs, macs):
    if queries == "-":
        return None
    res = out_q.split("/")
    for q, r in zip(queries.split(","), res):
        kind, v = q.split(":")
        v = dstr(v).lower()
        if r.startswith("DIRECT-LOOKUP-DIFFERS"):
            return "the source's LookupHost(%r) does not fold the name: %s" % (dstr(q.split(":")[1]), r[:120])
        got = dlist(r)
        if kind == "h":
            exp = names.get(fold(v), [])
        elif kind == "a":
            exp = addrs.get(v, [])
        else:
            exp = macs.get(v, [])
        if got != exp:
            return "lookup %s %r returned %r, the source says %r" % (kind, v, got, exp)
    return None


def literal_ip(tok, canon):
    i = next((j for j, c in enumerate(tok) if c in b".:"), -1)
    if i < 0:
        return None
    if tok[i] == 0x2e:
        return canon.get(tok)
    host, zone = tok, b""
    j = tok.rfind(b"%")
    if j > 0:
        host, zone = tok[:j], tok[j + 1:]
    ip = canon.get(host)
    if ip is None:
        return None
    return ip + b"%" + zone if zone else ip


def oracle_dfiles(case, impl):
    f = case.split(" ")
    if impl.startswith(("PANIC", "TIMEOUT", "VISIT-DIFFERS", "ERR")):
        return f[0] + ": " + impl[:200]
    if f[0] == "hosts":
        content = unhex(f[1])
        canon = {}
        if f[2] != "-":
            for it in f[2].split(","):
                a, b = it.split(">")
                canon[dstr(a)] = dstr(b)
        names, addrs = {}, {}
        for line in lines_of(content):
            flds = line.split(b"#")[0].split()
            if len(flds) < 2:
                continue
            ip = literal_ip(flds[0], canon)
            if ip is None:
                continue
            for n in flds[1:]:
                names.setdefault(fold(n), []).append(ip)
                addrs.setdefault(ip, []).append(absn(n))
        for lh in (b"localhost", b"localhost.localdomain."):
            if not names.get(lh):
                names[lh] = [b"127.0.0.1", b"::1"]
        out = parse_out(impl)
        if dtbl(out["names"]) != names:
            return "hosts: name table differs from the associations written in the file"
        if dtbl(out["addrs"]) != addrs:
            return "hosts: address table differs from the associations written in the file"
        return answers_ok(f[3], out["q"], names, addrs, {})
    if f[0] in ("dnsmasq", "dhcpd"):
        content = unhex(f[1])
        recs = []
        if f[0] == "dnsmasq":
            for line in lines_of(content):
                flds = line.split()
                if len(flds) >= 5 and flds[3] != b"*":
                    recs.append((absn(flds[3]), flds[2].lower(), flds[1].lower()))
        else:
            name = ip = mac = b""
            for line in lines_of(content):
                if line.startswith(b"}"):
                    if name:
                        recs.append((absn(name), ip, mac))
                    name = ip = mac = b""
                    continue
                flds = line.split()
                if len(flds) < 2:
                    continue
                if flds[0] == b"lease":
                    ip = flds[1].lower()
                elif flds[0] == b"hardware":
                    if len(flds) >= 3:
                        mac = flds[2].rstrip(b";").lower()
                elif flds[0] == b"client-hostname":
                    name = flds[1].strip(b'";')
        names, addrs, macs = {}, {}, {}
        for n, ip, mac in recs:
            if ip:
                names.setdefault(fold(n), set()).add(ip)
                names.setdefault(fold(n) + b"local.", set()).add(ip)
                addrs.setdefault(ip, set()).add(n)
            if mac:
                macs.setdefault(mac, set()).add(n)
        out = parse_out(impl)
        exp = {}
        for label, t in (("names", names), ("addrs", addrs), ("macs", macs)):
            got = dtbl(out[label])
            for k, v in got.items():
                if not strictly_sorted(v):
                    return "%s: %s[%r] = %r lists a value twice or out of order" % (f[0], label, k, v)
            if {k: set(v) for k, v in got.items()} != t:
                return "%s: %s table differs from the associations written in the file" % (f[0], label)
            exp[label] = {k: sorted(v) for k, v in t.items()}
        return answers_ok(f[2], out["q"], exp["names"], exp["addrs"], exp["macs"])
    return None


class RefMDNS:
    """set-based reference: names: key -> [stamp, set(addr)], addrs: addr -> set(announced names)"""

    def __init__(self, cap):
        self.cap, self.names, self.addrs, self.clock = cap, {}, {}, 0

    def evict(self):
        if not self.names:
            return
        k = min(self.names, key=lambda x: self.names[x][0])
        for a in self.names.pop(k)[1]:
            keep = {n for n in self.addrs.get(a, set()) if fold(n) != k}
            if keep:
                self.addrs[a] = keep
            else:
                self.addrs.pop(a, None)

    def ingest(self, addr, name):
        if not valid_name(name):
            return
        name = absn(name)
        self.clock += 1
        self.addrs.setdefault(addr, set()).add(name)
        e = self.names.setdefault(fold(name), [0, set()])
        e[0] = self.clock
        e[1].add(addr)
        while len(self.names) > self.cap:
            self.evict()


def mdns_check(ref, impl, lru):
    out = parse_out(impl)
    names, addrs = dtbl(out["names"]), dtbl(out["addrs"])
    if len(names) > ref.cap:
        return "name table holds %d keys, cap is %d" % (len(names), ref.cap)
    for label, t in (("names", names), ("addrs", addrs)):
        for k, v in t.items():
            if not strictly_sorted(v):
                return "%s[%r] = %r lists a value twice or out of order" % (label, k, v)
    for k, v in names.items():
        for a in v:
            if not any(fold(n) == k for n in addrs.get(a, [])):
                return "views disagree: %r is listed under name %r but no spelling of it under the address" % (a, k)
    for a, v in addrs.items():
        for n in v:
            if a not in names.get(fold(n), []):
                return "views disagree: name %r is listed under address %r but the name table does not list the address" % (n, a)
    if {k: set(v) for k, v in names.items()} != {k: e[1] for k, e in ref.names.items()}:
        missing = set(ref.names) - set(names)
        extra = set(names) - set(ref.names)
        return "name table differs from the announcements minus LRU evictions (missing %r, unexpected %r)" % (
            sorted(missing)[:3], sorted(extra)[:3])
    if {k: set(v) for k, v in addrs.items()} != ref.addrs:
        return "address table differs from the announcements minus LRU evictions"
    if lru and out["lru"] not in ("-",):
        if out["lru"] == "TIE":
            return None
        if dlist(out["lru"]) != sorted(ref.names, key=lambda x: ref.names[x][0]):
            return "lastUpdate order of the name table differs from the announcement order"
    return None


def _oracle_hrefresh(case, impl):
    from props.c12 import oracle_hrefresh
    return oracle_hrefresh(case, impl)


def oracle_flood(case, impl):
    """one packet announcing n hosts, then a late announcement: the reader survives, the table is bounded, the late name is there"""
    import re
    f = case.split(" ")
    cap, n = int(f[1]), int(f[2])
    if impl.startswith(("STUCK", "TIMEOUT", "PANIC")):
        return ("after ONE mDNS response packet announcing %d hosts (table size %d) %s: every later lookup of a client's name blocks"
                % (n, cap, impl[:120]))
    m = re.match(r"size=(\d+) addrs=(\d+) late=([01])$", impl)
    if not m:
        return "unexpected harness output " + impl[:80]
    if int(m.group(1)) > cap:
        return "the mDNS name table holds %s entries, the bound is %d" % (m.group(1), cap)
    if int(m.group(1)) != min(cap, n + 1):
        return "after %d distinct announcements and one more the table holds %s names, expected %d" % (n, m.group(1), min(cap, n + 1))
    if m.group(3) != "1":
        return "an announcement that arrived after the flood was not learned"
    return None


def oracle_mdns(case, impl):
    f = case.split(" ")
    if f[0] == "mdnsflood":
        return oracle_flood(case, impl)
    if impl.startswith(("PANIC", "TIMEOUT", "LOST", "ERR")):
        return f[0] + ": " + impl[:200]
    if f[0] == "mdnsops":
        if "r:" in f[2]:
            return None     # raw removeEntry calls are outside the ingest protocol: model diff only
        ref = RefMDNS(int(f[1]))
        if f[2] != "-":
            for op in f[2].split(";"):
                p = op.split(":")
                if p[0] == "a":
                    ref.ingest(dstr(p[1]), dstr(p[2]))
                elif p[0] == "x":
                    ref.evict()
        return mdns_check(ref, impl, True)
    if f[0] == "mdnspkt":
        ref = RefMDNS(int(f[1]))
        single = True
        for pk in f[2].split("|"):
            parts = pk.split(";")
            if parts[0] != "ok":
                continue
            ent = {}
            for sec in ("0", "2"):
                for r in parts[1:]:
                    s, kind, n, a = r.split(".")
                    if s == sec and kind in ("4", "6"):
                        ent.pop(dstr(a), None)
                        ent[dstr(a)] = dstr(n)
            if len(ent) > 1:
                single = False
            for a in sorted(ent):
                ref.ingest(a, ent[a])
        return mdns_check(ref, impl, single)
    return None


SPEC = dict(
        lean_module="NV.Props.C18",
        level_text="Kernel-checked theorems over all inputs: appendUniq on a sorted duplicate-free list is sorted insertion "
                   "(exact binary search of sort.Search modelled); hosts/dnsmasq/ISC-dhcpd readers: for every file content the "
                   "lookup tables hold exactly the associations written (names case-folded, .local aliases, each lease value once); "
                   "mDNS: for every packet sequence, every per-packet entry order and every cap: the name and address views agree, "
                   "|names| <= cap, each value once, and eviction removes exactly the key with the least lastUpdate. The cap, the "
                   "shift index of appendUniq and the table/spelling used by removeOldestEntry are re-read from the source on every "
                   "run; the real readers, Resolver lookups, addEntry/removeEntry/removeOldestEntry and MDNS.read (loopback UDP, "
                   ">1000 names) are run against the model and against an independent set-based reference.",
        level_note="Trusted: Lean kernel; bufio.Scanner/strings.Fields/ToLower on ASCII (model exact there; non-ASCII outside the "
                   "domain); net.ParseIP().String() and net.IP.String() as given parameters; strictly increasing time.Now() readings; "
                   "dnsmessage wire parsing modelled at record level (real packets are parsed by the real code). Three defects "
                   "repaired by fix: commits (appendUniq index; removeOldestEntry table; removeOldestEntry spelling).",
        areas=[dict(name="dset", n_quick=6000, n_thorough=160000, shards_thorough=8, oracle=oracle_dset,
                    nontrivial=lambda c, i: c.startswith("appuniq") and i != "-"),
               dict(name="dfiles", n_quick=4000, n_thorough=100000, shards_thorough=8, oracle=oracle_dfiles,
                    nontrivial=lambda c, i: "names=-" not in i),
               # a source that was rewritten and could not be read at one refresh must be read at the next (area shared with C12)
               dict(name="hrefresh", n_quick=150, n_thorough=3000, shards_thorough=4, oracle=_oracle_hrefresh),
               dict(name="mdns", n_quick=2000, n_thorough=40000, shards_thorough=8, oracle=oracle_mdns,
                    nontrivial=lambda c, i: "names=-" not in i)],
        trusted=COMMON_TRUST + [
            "translator /verif/extract (mdnsMaxEntries, appendUniq shift index, removeOldestEntry table and spelling test)",
            "Go stdlib on ASCII: bufio.Scanner(ScanLines), strings.Fields/ToLower/Trim*, bytes.ToLower, sort.SearchStrings (= sort.Search, modelled exactly)",
            "net.ParseIP(s).String() (parameter canonIP, supplied per case by the harness from the real net package) and net.IP.String()",
            "time.Now(): successive readings strictly increase (the harness spaces direct calls; UDP packets are microseconds apart)",
            "internal/dnsmessage wire parsing (modelled at record level: answers+additionals, last record of an address wins, a rejected message is dropped whole)",
            "kernel UDP loopback delivery in order",
        ],
        assumptions=[
            "file contents are ASCII and every line is shorter than 64 KiB (bufio.Scanner limit); bytes >= 0x80 are non-space non-letters in the model",
            "hosts tables use plain append: a pair written twice is listed twice (the property claims 'each listed once' for lease and mDNS sources only)",
            "the built-in key \"localhost\" (no trailing dot) can never be hit by LookupHost, which absolutizes; modelled as is",
            "appendUniq with several values returns at the first duplicate (remaining values dropped); no caller in package discovery passes more than one",
            "per-packet entry order is Go's random map order: theorems hold for every order; the correspondence uses multi-entry packets only where the order cannot matter (the driver double-checks and would print order-dependent)",
        ],
)
