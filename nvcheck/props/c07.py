from props.common import *
import props.c06 as _c06

# ------------------------------------------------------------------ C07 (message level)
U32 = 0xFFFFFFFF


def skip_name(b, off):
    """length-only reading of a wire name at off (labels until a zero byte or a 2-byte pointer);
    returns the offset after the name or None.  Deliberately as lenient as a TTL rewriter may be:
    no 255-byte limit, pointer targets are not followed."""
    n = len(b)
    while True:
        if off >= n:
            return None
        c = b[off]
        off += 1
        if c & 0xC0 == 0:
            if c == 0:
                return off
            off += c
            if off > n:
                return None
        elif c & 0xC0 == 0xC0:
            return off + 1
        else:
            return None


def walk(msg):
    """Independent reading of the message layout.  Returns (fields, complete, lying): fields = list of
    (ttl_offset, type, section 0/1/2) of the records found by following the header counts
    (python ints: no wrap-around) while the data lasts; complete = every count was satisfied
    exactly, the message ends after the last record and the record count fits 16 bits;
    lying = the header announces 65536 or more records (no byte string of at most 65535 bytes can
    hold them: each record takes at least 11 bytes) - the 16-bit count arithmetic of the code is
    then free to stop early, and only the never-increases / frame checks apply."""
    if len(msg) < 12:
        return [], False, False
    qd, an, ns, ar = (int.from_bytes(msg[i:i + 2], "big") for i in (4, 6, 8, 10))
    off = 12
    for _ in range(qd):
        e = skip_name(msg, off)
        if e is None or e + 4 > len(msg):
            return [], False, False
        off = e + 4
    fields = []
    total = an + ns + ar
    for i in range(total):
        if off >= len(msg):
            return fields, False, total >= 65536
        e = skip_name(msg, off)
        if e is None or e + 10 > len(msg):
            return fields, False, total >= 65536
        typ = int.from_bytes(msg[e:e + 2], "big")
        rdlen = int.from_bytes(msg[e + 8:e + 10], "big")
        fields.append((e + 4, typ, 0 if i < an else 1 if i < an + ns else 2))
        off = e + 10 + rdlen
        if off > len(msg):
            return fields, False, total >= 65536
    return fields, off == len(msg) and total < 65536, total >= 65536


def check_rewrite(inp, out, minttl, age, max_age, max_ttl, skip_id):
    """the C07 message-level property on one (input, output) pair of the real code"""
    if len(out) != len(inp):
        return "output has %d bytes, input %d" % (len(out), len(inp))
    fields, complete, lying = walk(inp)
    allowed = set()
    for o, typ, _ in fields:
        if typ != 41:
            allowed.update(range(o, o + 4))
    for i in range(2 if skip_id else 0, len(inp)):
        if inp[i] != out[i] and i not in allowed:
            return "byte %d changed (%02x -> %02x) outside every non-OPT TTL field" % (i, inp[i], out[i])
    exp_min = U32
    for o, typ, sec in fields:
        if typ == 41:
            continue
        old = int.from_bytes(inp[o:o + 4], "big")
        new = int.from_bytes(out[o:o + 4], "big")
        left = old - age if old >= age else 0
        if new > old:
            return "TTL at %d increased: %d -> %d" % (o, old, new)
        if new > left and not lying:
            return "TTL at %d: served %d + age %d exceeds original %d (expiry moved later)" % (o, new, age, old)
        if complete:
            want = max_ttl if (max_ttl > 0 and left > max_ttl) else left
            if new != want:
                return "TTL at %d: %d aged by %d capped by %d should be %d, got %d" % (o, old, age, max_ttl, want, new)
            if sec < 2:
                if max_age > 0 and age > max_age:
                    exp_min = 0
                exp_min = min(exp_min, left)
    if complete:
        if exp_min == U32:
            exp_min = 0   # no answer/authority record (or the documented all-ones quirk)
        if minttl != exp_min:
            return "minTTL %d, expected %d" % (minttl, exp_min)
    return None


def oracle_ttl(case, impl):
    f = case.split(" ")
    if impl.startswith("PANIC") or impl.startswith("TIMEOUT"):
        return "the real code did not return normally: " + impl[:80]
    if f[0] == "skipname":
        b = unhex(f[1])
        e = skip_name(b, 0)
        want = 0 if e is None else e
        return None if impl == str(want) else "skipName returned %s, an independent reading gives %d" % (impl, want)
    d = kv("x " + impl)
    if f[0] == "uttl":
        inp = unhex(f[1])
        age, max_age, max_ttl = int(f[2]), int(f[3]), int(f[4])
        return check_rewrite(inp, unhex(d["buf"]), int(d["min"]), age, max_age, max_ttl, False)
    if f[0] == "adj":
        stored = unhex(f[1])
        buflen, qid, delta, max_age, max_ttl = (int(x) for x in f[2:7])
        if d.get("stored") != "same":
            return "the stored cache entry was modified"
        n = int(d["n"])
        out = unhex(d["buf"])
        if len(stored) < 12 or buflen < len(stored):
            return None if (n == 0 and int(d["min"]) == 0) else "expected n=0 min=0 for an unusable entry/buffer"
        if n != len(stored):
            return "n=%d for a stored message of %d bytes" % (n, len(stored))
        if out[:2] != qid.to_bytes(2, "big"):
            return "reply id %s is not the query id %d" % (out[:2].hex(), qid)
        secs = abs(delta) // 10**9
        age = (secs if delta >= 0 else -secs) % 2**32
        return check_rewrite(stored, out, int(d["min"]), age, max_age, max_ttl, True)
    return "unknown case"


def nontrivial_ttl(case, impl):
    f = case.split(" ")
    if f[0] == "skipname":
        return impl != "0"
    d = kv("x " + impl)
    if "buf" not in d:
        return False
    src = f[1]
    return d["buf"][4:] != src[4:] or d.get("min", "0") != "0"


SPEC = dict(
        lean_module="NV.Props.C07",
        level_text="Kernel-checked theorems about an executable model of resolver/cache.go (updateTTL, skipName, AdjustedResponse): "
                   "for every byte string no panic, same length, only TTL fields of non-OPT records change and none increases; for every "
                   "well-formed message the result is the message with each non-OPT TTL replaced by cap(ttl - age) and minTTL is the "
                   "least remaining answer/authority TTL before capping (0 when none, expired or older than max-age); served + age <= "
                   "original. The model is tied to the real code by a differential run (overlay exports) over generated responses x "
                   "boundary (age, max-age, max-ttl) and a python oracle that re-reads the messages independently.",
        level_note="Message-level half of C07 (the history half - when an entry is served - is checked with C06's cache model). Trusted: Lean "
                   "kernel; harness/generator; time.Time.Sub exactness below 292 years. Records of messages whose header counts lie "
                   "(sum >= 65536) are outside WF; for those only the all-bytes theorems apply.",
        areas=[dict(name="ttl", n_quick=150000, n_thorough=3000000, shards_thorough=8, oracle=oracle_ttl,
                    nontrivial=nontrivial_ttl),
               # the history-level half (served only while fresh, fetched after the latest announced profile change, PTR never
               # from cache): model NV.Model.Cache and theorems NV.C06.served_only_fresh_* / stored_time_doh, shared with C06
               dict(name="cache", n_quick=1200, n_thorough=24000, shards_thorough=8, oracle=_c06.oracle_cache,
                    nontrivial=_c06.nontrivial, timeout=2400)],
        trusted=COMMON_TRUST + ["time.Time.Add/Sub are exact for |d| < 2^62 ns (used to place `now`)",
                                "python oracle nvcheck/props/c07.py (independent reading of the RR layout)"],
        assumptions=["TTLs 0..2^32-1 (uint32) are covered; RFC 2181's 'treat the top bit as zero' is not implemented by the code and not required by the property's range 0..2^31-1",
                     "age < 2^32 seconds (uint32 conversion in AdjustedResponse wraps beyond 136 years; modelled and exercised, outside the property)",
                     "sub-second remainders are floored (the property speaks of whole seconds)"],
)
