from props.common import *
import re

# ------------------------------------------------------------------ C08 / C09: scripts against the real endpoint.Manager
# The oracle re-reads the script and the log of the REAL manager and checks the properties directly,
# independently of the Lean model: its own flat left-to-right election (python), its own tracking of
# the environment, of the previously active object and of each object's counters.

TOK = re.compile(r"^([SFRX])\[([^\]]*)\](?:@(\S+?))?(?:~(\S+))?$")


def parse_obj(s):
    """#id:ep:lastTest:interval:testing:errs  (or #-)"""
    if s is None or s == "#-":
        return None
    f = s[1:].split(":")
    return dict(id=int(f[0]), ep=f[1], lt=int(f[2]), iv=int(f[3]), t=int(f[4]), errs=int(f[5]))


def key(ep):
    return ep.split(".")[0]


def expected_election(provs, health):
    """flat provider-major scan: (events, outcome) with outcome ('ok', ep, short) | ('err',)"""
    evs, first = [], None
    for i, p in enumerate(provs):
        evs.append("g%d" % i)
        if p == "U":
            return evs, ("err",)
        if p == "E":
            evs.append("pe%d" % i)
            continue
        for ep in p:
            if first is None:
                first = ep
            h = health.get(key(ep), "O")
            evs.append("p%s=%s" % (ep, h))
            if h == "O":
                return evs, ("ok", ep, False)
            if h == "U":
                return evs, ("err",)
            evs.append("oe" + ep)
    if first is None:
        return evs, ("err",)
    return evs, ("ok", first, True)


def oracle_mgr(case, impl, want="all"):
    f = case.split(" ")
    if len(f) < 6 or f[0] != "mgr":
        return None
    if impl.startswith("PANIC"):
        return "the manager panicked (%s)" % impl[:120]
    try:
        thr = int(f[1][1:]) or 10
        init = None if f[3] == "I-" else f[3][1:]
        nprov = int(f[5][1:])
    except ValueError:
        return None
    if impl == "bad-op":
        return None
    provs = [[] for _ in range(nprov)]
    health = {}
    toks = impl.split(" ")
    ti = 0
    prev_active = None          # last seen digest of the active object
    objs = {}                   # id -> last known digest
    inflight = []               # object ids (None = unknown) per in-flight Do, in start order
    pend = []                   # ids of objects with a started, not yet run election, in start order
    streak = {}                 # endpoint key -> failed queries in a row (see the c09 rules)
    clock = 10 ** 9
    for op in f[6:]:
        if op[0] == "P":
            i, spec = op[1:].split("=", 1)
            provs[int(i)] = spec if spec in ("E", "U") else ([] if spec == "-" else spec.split(","))
            continue
        if op[0] == "H":
            k, r = op[1:].split("=", 1)
            health[k] = r
            continue
        if op[0] == "A":
            clock += int(op[1:])
            continue
        if ti >= len(toks):
            return "the log of the real manager ends before the script does"
        t = toks[ti]
        ti += 1
        if t == "TIMEOUT":
            return "liveness: `%s` did not get through within the deadline (a Do or an election is blocked)" % op
        if t == "BLOCKED":
            return "liveness: blocked"
        if t in ("F[skip]", "R[none]"):
            continue
        m = TOK.match(t)
        if not m or m.group(1) != op[0]:
            return "unexpected token %r for op %r" % (t, op)
        kind, evs, act, obj = m.group(1), [e for e in m.group(2).split(",") if e], parse_obj(m.group(3)), parse_obj(m.group(4))
        if "nil" in (m.group(2) + (m.group(3) or "")):
            return "a nil endpoint was elected / used (%s)" % t[:80]
        elect = [e for e in evs if e[0] in "gp" or e.startswith("oe")]
        acts = [e[1:] for e in evs if e[0] == "a"]
        ocs = [e[2:] for e in evs if e.startswith("oc")]
        ran_election = kind in "RX" or (kind == "S" and prev_active is None and init is None)
        if want in ("all", "c08"):
            if ran_election:
                exp, out = expected_election(provs, health)
                if elect != exp:
                    return "election order: probes/calls %s, expected %s (first healthy candidate in provider-major order)" % (
                        ",".join(elect), ",".join(exp))
                if out[0] == "ok":
                    if act is None or key(act["ep"]) != key(out[1]):
                        return "the election should have made %s active, active is %s" % (out[1], act and act["ep"])
                    changed = prev_active is None or key(prev_active["ep"]) != key(out[1])
                    if changed != (len(ocs) == 1) or len(ocs) > 1 or (ocs and ocs[0] != out[1]):
                        return "OnChange called %s, elected %s, previously active %s" % (ocs, out[1], prev_active and prev_active["ep"])
                    if not changed and act["id"] != prev_active["id"]:
                        return "the active object was replaced although the elected endpoint is Equal"
                    if out[2] and act["iv"] != 10:
                        return "fallback election without the short retry interval (interval %d)" % act["iv"]
                    offered = {key(e) for p in provs if isinstance(p, list) for e in p}
                    if key(act["ep"]) not in offered:
                        return "active endpoint %s is not offered by any provider in the election that just completed" % act["ep"]
                else:
                    if ocs:
                        return "OnChange called by a failed election"
                    if (act and act["id"]) != (prev_active and prev_active["id"]):
                        return "a failed election changed the active endpoint"
            elif elect or ocs:
                return "election events %s outside an election step" % evs
            if kind == "S":
                failed = "r0" in evs
                if failed:
                    if acts or not (prev_active is None and init is None):
                        return "Do returned an error before its action although an endpoint was available"
                else:
                    if len(acts) != 1:
                        return "a Do ran its action %d times" % len(acts)
                    want_ep = prev_active["ep"] if prev_active is not None else (act and act["ep"])
                    if acts[0] != want_ep:
                        return "Do ran on %s, the endpoint active when it started is %s" % (acts[0], want_ep)
            elif acts:
                return "an action ran outside a Do start"
        if want in ("all", "c09"):
            if ran_election:
                _exp, _out = expected_election(provs, health)
                if _out[0] == "ok" and _out[2] and act is not None and act["iv"] != 10:
                    return ("recovery: every probe of the election failed and the manager fell back on %s, but its retry interval is %d s "
                            "instead of the short one: with the error count already past the threshold nothing starts another election "
                            "for that long, so later queries keep failing on it after an alternative has recovered" % (act["ep"], act["iv"]))
            if kind == "S" and "r0" not in evs and act is not None:
                before = objs.get(act["id"])
                if before is not None:
                    elapsed = clock - before["lt"]
                    if before["t"] == 0 and elapsed > before["iv"]:
                        if not (act["t"] == 1 and act["lt"] == clock):
                            return "the test interval has elapsed (%d s > %d s) and the Do did not start an election" % (elapsed, before["iv"])
                    elif act["t"] != before["t"] or act["lt"] != before["lt"]:
                        return "a Do started an election / reset the test timer with %d s elapsed of %d s (testing=%d)" % (
                            elapsed, before["iv"], before["t"])
                if act["t"] == 1 and act["id"] not in pend:
                    pend.append(act["id"])
            # failures in a row on the ACTIVE OBJECT, counted from the history alone: since the election that made it the
            # active endpoint (OnChange) or its last successful query, whatever the object says its count is.  Queries that
            # were started on an earlier object (still in flight when the manager moved on) do not count for the new one.
            if ocs and act is not None:
                streak[act["id"]] = 0
            if kind == "F" and obj is not None:
                before = objs.get(obj["id"])
                ok = op[-1] == "o"
                streak[obj["id"]] = 0 if ok else streak.get(obj["id"], 0) + 1
                if (not ok and streak[obj["id"]] == thr and before is not None and before["t"] == 0 and obj["t"] != 1
                        and act is not None and act["id"] == obj["id"]):
                    return ("%d queries in a row have failed on %s since it became the active endpoint / last answered one "
                            "(error threshold %d) and no election was started (the manager counts %d)" % (thr, obj["ep"], thr, obj["errs"]))
                if ok and obj["errs"] != 0:
                    return "a successful query did not reset the consecutive-error count"
                if before is not None and not ok:
                    if obj["errs"] != before["errs"] + 1:
                        return "a failed query changed the error count from %d to %d" % (before["errs"], obj["errs"])
                    if obj["errs"] == thr and before["t"] == 0 and obj["t"] != 1:
                        return "the error threshold (%d) was reached and no election was started" % thr
                    if obj["errs"] != thr and obj["t"] != before["t"]:
                        return "an election was started at %d consecutive errors (threshold %d)" % (obj["errs"], thr)
                if obj["t"] == 1 and obj["id"] not in pend:
                    pend.append(obj["id"])
            if kind == "R":
                head = pend.pop(0) if pend else None
                if head is not None and act is not None and act["id"] == head:
                    _, out = expected_election(provs, health)
                    if act["t"] != 0:
                        return "the testing flag is still set after the object's election has run"
                    if out[0] == "ok" and act["lt"] != clock:
                        return "a successful background election did not reset the test timer"
                    if out[0] == "err" and prev_active is not None and prev_active["id"] == head and act["lt"] != prev_active["lt"]:
                        return "a failed background election reset the test timer"
                objs.clear()   # the object whose election ran may be a non-active one: its flags changed unseen
        if act is not None:
            objs[act["id"]] = act
        if obj is not None:
            objs[obj["id"]] = obj
        prev_active = act
    # end marker
    tail = toks[ti:]
    for t in tail:
        if t == "TIMEOUT":
            return "liveness: a started election did not finish within the deadline"
        if t == "end:held":
            return "m.mu is still locked after everything returned"
        if t == "end:stray-election":
            return "two background elections were started for one object (single flight broken)"
        if "nil" in t:
            return "a nil endpoint was elected (%s)" % t[:80]
    if not tail or tail[-1] != "end:free":
        return "the script did not run to its end: %s" % (tail[-1] if tail else toks[-1])[:80]
    return None


def nontrivial_mgr(case, impl):
    return ("oc" in impl) and ("R[g" in impl or "X[" in impl)


def oracle_mgrx(case, impl):
    """direct checks of the two extra scenarios"""
    if case == "mgrx overlap":
        # most recent election offered only endpoint 0 (healthy): queries must run on it; callbacks 0,1,0
        if impl != "active=0 changes=0,1,0":
            return "after overlapping elections the most recent one (endpoint 0 only, healthy) must be in force with changes 0,1,0: " + impl
    if case == "mgrx slow":
        if impl != "active=1 changes=1":
            return "candidate 0's probe timed out, candidate 1 is healthy: 1 must be elected (each probe has its own time budget): " + impl
    return None


def oracle_epeq(case, impl):
    """endpoint identity: identical endpoints are equal, endpoints that differ in kind, host, path or in the SET of
    bootstrap addresses are not (the election installs a new endpoint / fires OnChange only when Equal says 'different')."""
    import re
    f = case.split(" ")
    m = re.match(r"ab=([01]) ba=([01]) aa=([01])$", impl)
    if not m:
        return "unexpected harness output " + impl[:60]
    ab, ba, aa = m.groups()
    def norm(s):
        g = s.split(";")
        return (g[0], g[1], g[2] if len(g) > 2 else "", tuple(sorted(g[3].split(","))) if len(g) > 3 else ())
    same = norm(f[1]) == norm(f[2])
    if aa != "1":
        return "an endpoint is not Equal to an identical copy of itself"
    if ab != ba:
        return "Equal is not symmetric on %s / %s" % (f[1][:60], f[2][:60])
    if same and ab != "1":
        return "identical endpoints compare different"
    if not same and ab != "0":
        return ("two different servers compare Equal (%s vs %s): an election that finds the healthy one of them keeps the other"
                % (f[1][:80], f[2][:80]))
    return None


def oracle_svcprov(case, impl):
    """the HTTPS-record provider: every address of every ipv4hint / ipv6hint parameter of the answer appears among the candidates'
    bootstrap addresses, in record order, and nothing else does; an unaligned hint or an overflowing alpn string is an error"""
    spec = case.split(" ")[1]
    if impl.startswith(("PANIC", "TIMEOUT", "ERR")):
        return "svcprov did not complete: " + impl[:120]
    rrs = []
    if spec != "-":
        for r in spec.split(";"):
            pr, ps = r.split(":", 1)
            params = [] if ps == "-" else [(int(k), b"" if v == "_" else unhex(v)) for k, v in (p.split("=", 1) for p in ps.split(","))]
            rrs.append((int(pr), params))
    want_ips, bad = [], False
    for _pr, params in rrs:
        for k, v in params:
            if k == 4:
                if len(v) % 4:
                    bad = True
                want_ips += [bytes(10) + b"\xff\xff" + v[i:i + 4] for i in range(0, len(v) - len(v) % 4, 4)]
            elif k == 6:
                if len(v) % 16:
                    bad = True
                want_ips += [v[i:i + 16] for i in range(0, len(v) - len(v) % 16, 16)]
            elif k == 1:
                off = 0
                while off < len(v):
                    l = v[off]
                    off += 1
                    if off + l > len(v):
                        bad = True
                        break
                    off += l
            if bad:
                break
        if bad:
            break
    if bad:
        return None if impl == "err" else "a malformed hint / alpn value did not make GetEndpoints fail: " + impl[:100]
    if impl == "err":
        return "GetEndpoints failed on a well-formed answer"
    if not rrs:
        return None if impl == "none" else "no HTTPS record in the answer but candidates were returned: " + impl[:100]
    if impl == "none":
        return "the answer has %d HTTPS record(s) but no candidate was returned" % len(rrs)
    got = []
    for e in impl.split(" "):
        ips = e.split("/")[0][4:]
        if ips != "-":
            got += [unhex(x) for x in ips.split(",")]
    if got != want_ips:
        return ("the candidates' bootstrap addresses are not, in order, the addresses of the hint parameters of the answer (%d returned, "
                "%d listed)" % (len(got), len(want_ips)))
    prios = [p for p, _ in rrs]
    groups = 1 + sum(1 for a, b in zip(prios, prios[1:]) if b > a)
    if len(impl.split(" ")) != groups:
        return ("%d candidate(s) for an answer whose priorities %s rise %d time(s): a record of higher priority value than the one "
                "before it starts a fallback candidate" % (len(impl.split(" ")), prios, groups - 1))
    return None

def oracle_srcurl(case, impl):
    """the list provider: a successful fetch returns, position by position, endpoints Equal to the ones the document lists; an
    endpoint Equal to one of the previous successful call's list is that earlier object; a failed fetch returns an error"""
    docs = case.split(" ")[1].split("|")
    outs = impl.split(" ")
    if impl.startswith(("PANIC", "TIMEOUT")) or len(outs) != len(docs):
        return "srcurl did not complete: " + impl[:100]
    prev = []          # (object, spec) of the previous successful call
    created = 0
    for k, (d, o) in enumerate(zip(docs, outs)):
        if d == "E":
            if o != "err":
                return "call %d: the body is not the JSON list, GetEndpoints returned %s instead of an error" % (k + 1, o)
            continue
        specs = [] if d == "-" else d.split(",")
        if o == "err":
            return "call %d: the document lists %d endpoint(s), GetEndpoints returned an error" % (k + 1, len(specs))
        if o.startswith("LEN") or "NE" in o.split(","):
            return "call %d: the endpoints returned are not, position by position, Equal to the ones the document lists (%s)" % (k + 1, o)
        got = [] if o == "-" else [int(x) for x in o.split(",")]
        if len(got) != len(specs):
            return "call %d: %d objects for %d listed endpoints" % (k + 1, len(got), len(specs))
        cur = []
        for obj, sp in zip(got, specs):
            same = [po for po, ps in prev if ps == sp]
            if same:
                if obj not in same:
                    return ("call %d: endpoint %s was in the previous list (object %s) but a different object (%d) was returned: its "
                            "connection pool is thrown away at every refresh" % (k + 1, sp, same, obj))
            else:
                if obj < created:
                    return "call %d: endpoint %s is not in the previous list but an older object (%d) was returned for it" % (k + 1, sp, obj)
            created = max(created, obj + 1)
            cur.append((obj, sp))
        prev = cur
    return None

def _oracle_realep(case, impl):
    from props.c11 import oracle_realep
    return oracle_realep(case, impl)


SPEC = dict(
    lean_module="NV.Props.C08",
    areas=[dict(name="svcprov", n_quick=6000, n_thorough=120000, shards_thorough=2, oracle=oracle_svcprov, timeout=600),
           dict(name="srcurl", n_quick=1500, n_thorough=30000, shards_thorough=2, oracle=oracle_srcurl, timeout=600),
           dict(name="realep", n_quick=25, n_thorough=400, shards_thorough=2, oracle=_oracle_realep, timeout=900),
           dict(name="epeq", n_quick=20000, n_thorough=400000, shards_thorough=4, oracle=oracle_epeq),
           dict(name="mgr", n_quick=4000, n_thorough=160000, shards_thorough=8,
                oracle=lambda c, i: oracle_mgr(c, i, "c08"), nontrivial=nontrivial_mgr, timeout=1200),
           # overlapping elections (one held inside OnChange while another completes): the later election must win
           dict(name="mgrx", n_quick=3, n_thorough=20, shards_thorough=1, oracle=oracle_mgrx, timeout=300)],
    level_text="Kernel-checked theorems over an executable model of resolver/endpoint/manager.go (object heap, virtual clock, started-but-"
               "not-yet-run elections): the nested election loops equal a flat left-to-right scan of the provider-major candidate list "
               "that stops at the first passing probe / first network-unreachable error and otherwise falls back to the first listed "
               "candidate with the short interval (findBest_spec, probe_log_prefix); OnChange fires exactly when the elected endpoint is not "
               "Equal to the active one (onChange_iff); each Do runs its action exactly once on the endpoint active at its start "
               "(do_once_on_active, no_action_elsewhere); for ALL operation lists the active endpoint is the InitEndpoint or Equal to a "
               "candidate of the last completed election and is never nil (active_provenance, fallback_abandoned, active_nonnil). "
               "The model is tied to the real Manager by seeded scripts (fake providers/endpoints, virtual clock, gated background "
               "elections, child-process isolation) compared event by event and object field by object field, plus an independent "
               "python oracle; constants and the two comparisons are re-extracted from the source on every run.",
    level_note="Trusted: Lean kernel; the harness gate (an election goroutine parked at its first statement gives m.mu back, i.e. behaves as "
               "not yet having reached Lock); Equal is assumed to be an equivalence that compares a key (true of DOHEndpoint/DNSEndpoint); "
               "providers return non-nil endpoints; the OnChange window in which testLocked drops m.mu is treated as atomic (callbacks only "
               "log). Two defects were found and repaired (m.mu left locked on a bootstrap error; nil endpoint elected when no provider "
               "offers a candidate). Quirk kept and modelled: the fallback writes the 10 s interval on the shared active object and it is "
               "never reset while that object stays active.",
    trusted=COMMON_TRUST + ["translator /verif/extract (manager constants, comparison operators)", "sync.RWMutex / goroutine semantics",
                            "harness gate: VerifUnlock/VerifLock at the first statement of findBestEndpointLocked"],
    assumptions=["Endpoint.Equal is key equality (an equivalence); Equal(nil) is false",
                 "GetMinTestInterval depends only on the endpoint key; intervals are whole seconds below 10^9 s",
                 "fewer than 2^32 consecutive errors (no uint32 wrap)",
                 "OnChange/OnError/OnProviderError/DebugLog callbacks return and do not call back into the Manager"],
)
