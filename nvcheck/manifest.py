#!/usr/bin/env python3
"""Regenerates MANIFEST.json from props.PROPS (claimed) and the NOT_YET table."""
import json, os, sys
sys.path.insert(0, os.path.dirname(os.path.abspath(__file__)))
import props

VERIF = os.path.dirname(os.path.dirname(os.path.abspath(__file__)))
ALL = ["C%02d" % i for i in range(1, 21)]
BASE = json.load(open("/root/.vp/BASELINE.json"))["cmd"]

checks = []
for pid in ALL:
    if pid not in props.PROPS:
        continue
    sp = props.PROPS[pid]
    checks.append({
        "property_id": pid,
        "quick_cmd": "bin/check %s --tier quick" % pid,
        "thorough_cmd": "bin/check %s --tier thorough" % pid,
        "evidence_file": "/verif/evidence/%s.json" % pid,
        "replay_cmd_template": "bin/check %s --replay {path}" % pid,
        "engine": "lean-proof+correspondence",
        "level_claimed": {"category": sp.get("level", "proof"), "text": sp["level_text"], "design_ref": sp.get("design_ref", "DESIGN.md §4 " + pid)},
        "level_note": sp["level_note"],
        "technique": sp.get("technique", "Lean 4 theorems about an executable model; model tied to the code by regenerated facts and a differential correspondence check"),
    })
na = [{"property_id": pid, "reason": props.NOT_CLAIMED.get(pid, "check not built yet")} for pid in ALL if pid not in props.PROPS]
m = {
    "version": 1,
    "setup_cmd": "bin/setup",
    "hooks": {"guard": "verif", "enable": "go build -tags verif -overlay build/overlay.json (export files under /verif/overlay are injected; /repo carries no hook code)",
              "baseline_off_cmd": BASE, "source_commits": [], "add_only": True},
    "engines": [{"name": "lean-proof+correspondence", "path": "bin/check", "serves_properties": [c["property_id"] for c in checks],
                 "kind_free_text": "Lean 4 kernel-checked theorems over executable models (lean/NV), translator extract/ regenerating NV/Gen from /repo, Go differential harness harness/ driving the real code and the compiled Lean driver through a line protocol"}],
    "checks": checks,
    "not_applicable": na,
    "notes": "See DESIGN.md. Known findings: known_findings.json. Repairs of genuine defects are 'fix:' commits in /repo.",
}
json.dump(m, open(os.path.join(VERIF, "MANIFEST.json"), "w"), indent=1)
print("MANIFEST.json: %d checks, %d not claimed" % (len(checks), len(na)))
