"""Per-property configuration: Lean module, correspondence areas, oracles (independent direct
checks of the property on the implementation's output), trusted base and assumptions."""
import re

def kv(line):
    """parse 'stage k=v k=v ...' lines"""
    parts = line.split(" ")
    d = {"_": parts[0]}
    for p in parts[1:]:
        if "=" in p:
            k, v = p.split("=", 1)
            d[k] = v
    return d

def unhex(s):
    return b"" if s in ("-", "none", "") else bytes.fromhex(s)

# ------------------------------------------------------------------ C02
def oracle_parse_total(case, impl):
    """C02: the real parser must return (no panic, no hang) on every byte string."""
    if impl.startswith("PANIC") or impl.startswith("TIMEOUT"):
        return "query.New did not return normally: " + impl[:80]
    return None

COMMON_TRUST = [
    "correspondence harness /verif/harness (Go, built from the current tree with -overlay exports) and its generators",
    "Lean driver (lean_exe nvdriver) runs the same definitions the theorems are about",
]

PROPS = {
    "C02": dict(
        lean_module="NV.Props.C02",
        areas=[dict(name="parse", n_quick=20000, n_thorough=400000, shards_thorough=8,
                    oracle=oracle_parse_total,
                    nontrivial=lambda c, i: not i.startswith("query "))],
        trusted=COMMON_TRUST + ["Go runtime: recover/defer, goroutine scheduling (deadline used as hang oracle)"],
        assumptions=["socket layer and goroutine scheduling are not modelled; liveness of the daemon after hostile input is observed through the C01 socket harness"],
    ),
}
