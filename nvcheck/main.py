#!/usr/bin/env python3
"""bin/check: one entry point for every property check.

Pipeline (DESIGN.md §2): regenerate NV/Gen from the repository, build the property's Lean
module (kernel-checked theorems), audit axioms, build the Go harness against the current tree,
run corpus + seeded correspondence, search for a failing input on any break, write evidence.
"""
import sys, os, argparse
sys.path.insert(0, os.path.dirname(os.path.abspath(__file__)))
import core, props

def main():
    ap = argparse.ArgumentParser()
    ap.add_argument("id")
    ap.add_argument("--tier", default=os.environ.get("VERIF_TIER", "quick"))
    ap.add_argument("--replay", default=None)
    a = ap.parse_args()
    tier = os.environ.get("VERIF_TIER") or a.tier
    if tier not in ("quick", "thorough"):
        tier = "quick"
    seed = int(os.environ.get("VERIF_SEED", "1") or "1")
    pid = a.id.upper()
    if pid not in props.PROPS:
        print("unknown property", pid)
        sys.exit(2)
    run = core.Run(pid, tier, seed, props.PROPS[pid], replay=a.replay)
    sys.exit(run.execute())

if __name__ == "__main__":
    main()
