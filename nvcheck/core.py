"""Engine shared by all property checks (see main.py)."""
import os, sys, json, re, subprocess, time, fcntl, shutil, glob, hashlib

VERIF = os.path.dirname(os.path.dirname(os.path.abspath(__file__)))
REPO = os.environ.get("VERIF_REPO", "/repo")
BUILD = os.path.join(VERIF, "build")
LEAN = os.path.join(VERIF, "lean")
NVH = os.path.join(BUILD, "nvh")
DRIVER = os.path.join(LEAN, ".lake", "build", "bin", "nvdriver")
ALLOWED_AXIOMS = {"propext", "Classical.choice", "Quot.sound"}
FORBIDDEN = re.compile(r"\b(sorry|admit|native_decide|bv_decide|implemented_by|unsafe)\b|^axiom |maxHeartbeats 0")

GOENV = dict(os.environ, GOFLAGS="-mod=mod", GOPROXY="off", GOSUMDB="off", GOTOOLCHAIN="local")


def sh(cmd, cwd=None, timeout=None, env=None, stdin=None, stdout=subprocess.PIPE):
    p = subprocess.run(cmd, cwd=cwd, timeout=timeout, env=env or GOENV, stdin=stdin,
                       stdout=stdout, stderr=subprocess.STDOUT, text=True, errors="replace")
    return p.returncode, (p.stdout or "")


class Lock:
    def __init__(self, name):
        os.makedirs(BUILD, exist_ok=True)
        self.path = os.path.join(BUILD, name + ".lock")

    def __enter__(self):
        self.f = open(self.path, "w")
        fcntl.flock(self.f, fcntl.LOCK_EX)
        return self

    def __exit__(self, *a):
        fcntl.flock(self.f, fcntl.LOCK_UN)
        self.f.close()


def strip_comments(src):
    src = re.sub(r"/-.*?-/", "", src, flags=re.S)
    return "\n".join(l.split("--")[0] for l in src.splitlines())


def theorem_names(lean_file):
    """(namespace-qualified theorem names, line numbers) declared in a Props file"""
    names = []
    ns = []
    for i, line in enumerate(open(lean_file).read().splitlines(), 1):
        m = re.match(r"^namespace\s+(\S+)", line)
        if m:
            ns.append(m.group(1))
        m = re.match(r"^end\s+(\S+)", line)
        if m and ns and ns[-1] == m.group(1):
            ns.pop()
        m = re.match(r"^(?:@\[[^\]]*\]\s*)?theorem\s+(\S+)", line)
        if m:
            names.append((".".join(ns + [m.group(1)]), i))
    return names


class Run:
    def __init__(self, pid, tier, seed, spec, replay=None):
        self.pid, self.tier, self.seed, self.spec, self.replay = pid, tier, seed, spec, replay
        self.violations = []      # dicts: what, replay (path), concrete (bool)
        self.known_lines = []
        self.notes = []
        self.cov = {"evaluations": 0, "distinct_nontrivial": 0, "samples": [], "traces_validated_against_impl": 0,
                    "areas": {}}
        self.obligations = []
        self.discharged = []
        self.axioms = {}
        self.rundir = os.path.join(BUILD, "run", pid)
        self.nreplay = 0
        self.known = [k for k in load_known() if (k.get("property") == pid or pid in k.get("also_properties", []))
                      and k.get("status", "open") == "open"]
        self.proof_broken = False

    # ---------------------------------------------------------------- utilities
    def log(self, *a):
        print("[%s]" % self.pid, *a, flush=True)

    def add_violation(self, what, payload, concrete):
        os.makedirs(os.path.join(VERIF, "replays"), exist_ok=True)
        self.nreplay += 1
        path = os.path.join(VERIF, "replays", "%s-%d-%d.json" % (self.pid, self.seed, self.nreplay))
        doc = {"property": self.pid, "what": what, "concrete_failing_input": concrete,
               "how_to_run": "bin/check %s --replay %s" % (self.pid, path)}
        doc.update(payload)
        with open(path, "w") as f:
            json.dump(doc, f, indent=1)
        self.violations.append({"what": what, "replay": path, "concrete": concrete})

    # ---------------------------------------------------------------- steps
    def extract(self):
        """Regenerate NV/Gen from the repository (translator). Rewrites only changed files."""
        ex = os.path.join(BUILD, "nvextract")
        with Lock("gobuild"):
            rc, out = sh(["go", "build", "-o", ex, "."], cwd=os.path.join(VERIF, "extract"))
        if rc != 0:
            # the translator is half of the tie to the source: without it NV/Gen would be stale
            self.notes.append("extractor build failed: " + out[-400:])
            self.proof_broken = True
            self.extract_failed = True
            return False
        rc, out = sh([ex, "-repo", REPO, "-out", os.path.join(LEAN, "NV", "Gen"), "-for", self.pid,
                      "-declared", os.path.join(VERIF, "extract", "declared_fresh.json")], cwd=REPO)
        self.extract_out = out
        for line in out.splitlines():
            if line.startswith("FALLBACK"):
                self.notes.append("translator: " + line)
        if rc != 0:
            self.notes.append("extractor failed: " + out[-400:])
            self.proof_broken = True
            self.extract_failed = True
            return False
        return True

    def lean_build(self):
        mod = self.spec["lean_module"]
        lean_file = os.path.join(LEAN, *mod.split(".")) + ".lean"
        self.lean_file = lean_file
        names = theorem_names(lean_file)
        self.obligations = [n for n, _ in names]
        with Lock("lake"):
            rc, out = sh(["lake", "build", mod, "nvdriver"], cwd=LEAN, timeout=3000)
        self.lean_out = out
        failed = set()
        if rc != 0:
            errs = re.findall(r"error: (\S+?\.lean):(\d+):\d+:", out)
            rel = os.path.relpath(lean_file, LEAN)
            other = False
            for f, ln in errs:
                if f.endswith(rel) or f == rel:
                    ln = int(ln)
                    owner = None
                    for n, l in names:
                        if l <= ln:
                            owner = n
                    if owner:
                        failed.add(owner)
                else:
                    other = True
            if other or not failed:
                failed = set(self.obligations)   # a dependency failed: nothing is checked
            self.proof_broken = True
        self.failed_theorems = sorted(failed)
        self.discharged = [n for n in self.obligations if n not in failed]
        return rc == 0

    def audit(self):
        """#print axioms for every property theorem + forbidden-token scan of the Lean sources."""
        bad = []
        for path in glob.glob(os.path.join(LEAN, "NV", "**", "*.lean"), recursive=True):
            for i, line in enumerate(strip_comments(open(path).read()).splitlines(), 1):
                if FORBIDDEN.search(line):
                    bad.append("%s:%d: %s" % (os.path.relpath(path, LEAN), i, line.strip()[:80]))
        if bad:
            self.proof_broken = True
            self.notes.append("forbidden tokens in Lean sources: " + "; ".join(bad[:5]))
            self.discharged = []
            return False
        if not self.discharged or self.proof_broken:
            return False
        os.makedirs(os.path.join(BUILD, "audit"), exist_ok=True)
        af = os.path.join(BUILD, "audit", self.pid + ".lean")
        with open(af, "w") as f:
            f.write("import %s\n" % self.spec["lean_module"])
            for n in self.discharged:
                f.write("#print axioms %s\n" % n)
        with Lock("lake"):
            rc, out = sh(["lake", "env", "lean", af], cwd=LEAN, timeout=900)
        cur = None
        text = out.replace("\n  ", " ")
        for m in re.finditer(r"'(\S+)' (depends on axioms: \[([^\]]*)\]|does not depend on any axioms)", text):
            name = m.group(1)
            axs = [a.strip() for a in (m.group(3) or "").split(",") if a.strip()]
            self.axioms[name] = axs
        ok = True
        for n in list(self.discharged):
            if n not in self.axioms:
                self.notes.append("axiom audit: no report for " + n)
                self.discharged.remove(n)
                ok = False
                continue
            extra = [a for a in self.axioms[n] if a not in ALLOWED_AXIOMS]
            if extra:
                self.notes.append("axiom audit: %s depends on %s" % (n, extra))
                self.discharged.remove(n)
                ok = False
        if not ok:
            self.proof_broken = True
        return ok

    def leanchecker(self):
        with Lock("lake"):
            rc, out = sh(["lake", "env", "leanchecker", self.spec["lean_module"]], cwd=LEAN, timeout=3000)
        self.cov["leanchecker"] = "ok" if rc == 0 else "FAILED: " + out[-300:]
        if rc != 0:
            self.proof_broken = True
            self.notes.append("leanchecker rejected " + self.spec["lean_module"])

    def harness_build(self):
        """Build the Go harness against the repository's current working tree, with the verif
        overlay exports.  A harness that no longer compiles is a broken correspondence."""
        with Lock("gobuild"):
            src = os.path.join(BUILD, "hsrc")
            os.makedirs(src, exist_ok=True)
            for f in glob.glob(os.path.join(src, "*.go")):
                os.remove(f)
            for f in glob.glob(os.path.join(VERIF, "harness", "*.go")):
                shutil.copy(f, src)
            req = re.search(r"require \((.*?)\)", open(os.path.join(REPO, "go.mod")).read(), re.S)
            gomod = "module nvharness\n\ngo 1.20\n\nrequire (\n\tgithub.com/nextdns/nextdns v0.0.0\n%s)\n\nreplace github.com/nextdns/nextdns => %s\n" % (
                (req.group(1).strip("\n") + "\n") if req else "", REPO)
            open(os.path.join(src, "go.mod"), "w").write(gomod)
            shutil.copy(os.path.join(REPO, "go.sum"), os.path.join(src, "go.sum"))
            ov = {}
            for f in glob.glob(os.path.join(VERIF, "overlay", "*_export*.go")):
                base = os.path.basename(f)
                pkg, rest = base.split("_export", 1)      # <pkg>_export[_suffix].go
                ov[os.path.join(REPO, pkg.replace("__", "/"), "zz_verif_export" + rest)] = f
            ovp = os.path.join(BUILD, "overlay.json")
            json.dump({"Replace": ov}, open(ovp, "w"))
            self.overlay = ovp
            rc, out = sh(["go", "build", "-tags", "verif", "-overlay", ovp, "-o", NVH, "."], cwd=src, timeout=900)
        if rc != 0:
            self.harness_err = out
            return False
        rc, out = self.testbin_build(ov)
        if rc != 0:
            self.harness_err = out
            return False
        if any(a.get("race") for a in self.spec.get("areas", [])):
            with Lock("gobuild"):
                rc, out = sh(["go", "build", "-race", "-tags", "verif", "-overlay", ovp, "-o", NVH + "-race", "."], cwd=src, timeout=1800)
            if rc != 0:
                self.harness_err = out
                return False
        return True

    def testbin_build(self, ov):
        """Areas that must run inside a package of the repository (package main cannot be imported)
        name binary="<pkg>.test" ("main" = the root package, '/' written as '__').  The harness file
        overlay/<pkg>_test.go.txt is injected as <pkgdir>/zz_verif_test.go and compiled with `go test -c`
        into build/nvh_<pkg>.test, together with all export overlays.  A test binary that does not
        build is a broken correspondence like the harness itself."""
        for b in sorted({a["binary"] for a in self.spec.get("areas", []) if a.get("binary")}):
            pkg = b[:-len(".test")]
            pkgdir = REPO if pkg == "main" else os.path.join(REPO, pkg.replace("__", "/"))
            ov2 = dict(ov)
            ov2[os.path.join(pkgdir, "zz_verif_test.go")] = os.path.join(VERIF, "overlay", pkg + "_test.go.txt")
            ovp = os.path.join(BUILD, "overlay_%s_test.json" % pkg)
            json.dump({"Replace": ov2}, open(ovp, "w"))
            with Lock("gobuild"):
                rc, out = sh(["go", "test", "-c", "-vet=off", "-tags", "verif", "-overlay", ovp,
                              "-o", testbin_path(b), "."], cwd=pkgdir, timeout=900)
            if rc != 0:
                return rc, out
        return 0, ""

    # ---------------------------------------------------------------- correspondence
    def run_area(self, area):
        name = area["name"]
        n = area["n_" + self.tier] if ("n_" + self.tier) in area else area.get("n_quick", 1000)
        shards = area.get("shards_" + self.tier, 1)
        jobs = []
        # corpus first (minimised past failures + model-guided witnesses)
        for cf in sorted(glob.glob(os.path.join(VERIF, "corpus", name, "*.txt"))):
            jobs.append(("corpus:" + os.path.basename(cf), ["-in", cf]))
        if self.replay is not None:
            # --replay FILE: a replay document written by add_violation (its case line is re-run
            # on the real code, the model and the oracle) or a plain text file of case lines
            rf = None
            try:
                doc = json.load(open(self.replay))
                if isinstance(doc, dict) and doc.get("case") and doc.get("correspondence", name) == name:
                    os.makedirs(os.path.join(self.rundir, name), exist_ok=True)
                    rf = os.path.join(self.rundir, name, "replay.txt")
                    open(rf, "w").write(doc["case"] + "\n")
            except ValueError:
                rf = self.replay
            except OSError:
                pass
            if rf:
                jobs.append(("replay:" + os.path.basename(self.replay), ["-in", rf]))
        if self.replay is None:
            per = max(1, n // shards)
            for s in range(shards):
                jobs.append(("seed:%d" % (self.seed + 1000 * s), ["-seed", str(self.seed + 1000 * s), "-n", str(per)]))
        procs = []
        for k, (label, args) in enumerate(jobs):
            d = os.path.join(self.rundir, name, "%02d" % k)
            shutil.rmtree(d, ignore_errors=True)
            os.makedirs(d)
            hargs = [name, "-tier", self.tier, "-out", d] + args + area.get("args", [])
            if area.get("binary"):
                # a `go test -c` binary: TestVerifHarness reads the nvh arguments from NVH_ARGS
                cmd, env = [testbin_path(area["binary"]), "-test.run", "^TestVerifHarness$"], dict(GOENV, NVH_ARGS=" ".join(hargs))
            else:
                cmd, env = [NVH + ("-race" if area.get("race") else "")] + hargs, GOENV
            procs.append((label, d, subprocess.Popen(cmd, stdout=subprocess.PIPE, stderr=subprocess.STDOUT, text=True, env=env)))
            if len(procs) % 16 == 0:
                for _, _, p in procs:
                    p.wait()
        acov = {"cases": 0, "distinct_nontrivial": 0, "distribution": {}, "mismatches": 0}
        seen = set()
        for label, d, p in procs:
            try:
                out, _ = p.communicate(timeout=area.get("timeout", 1500))
            except subprocess.TimeoutExpired:
                p.kill()
                out = "harness timeout"
            if p.returncode != 0:
                last = tail_line(os.path.join(d, "cases.txt"))
                cur = tail_line(os.path.join(d, "current.txt"))   # the case that was running when the process died
                payload = {"correspondence": name, "last_case": last, "harness_output": out[-2000:]}
                if cur:
                    payload["case"] = cur
                self.add_violation("harness for area %s exited with %s (%s)%s: %s" % (
                    name, p.returncode, label, " while running the case of the replay (the daemon code killed the process)" if cur else "",
                    out[-300:]), payload, concrete=bool(cur or last))
                continue
            self.compare(area, label, d, acov, seen)
        self.cov["areas"][name] = acov
        self.cov["evaluations"] += acov["cases"]
        self.cov["distinct_nontrivial"] += acov["distinct_nontrivial"]
        self.cov["traces_validated_against_impl"] += acov["cases"] - acov["mismatches"]

    def compare(self, area, label, d, acov, seen):
        name = area["name"]
        cases_p, impl_p, model_p = (os.path.join(d, x) for x in ("cases.txt", "impl.txt", "model.txt"))
        with open(cases_p) as fin, open(model_p, "w") as fout:
            p = subprocess.run([DRIVER], stdin=fin, stdout=fout, stderr=subprocess.PIPE, text=True)
        if p.returncode != 0:
            self.add_violation("Lean driver failed on area %s: %s" % (name, p.stderr[-300:]),
                               {"correspondence": name}, concrete=False)
            return
        try:
            st = json.load(open(os.path.join(d, "stats.json")))
            for k, v in st.get("distribution", {}).items():
                acov["distribution"][k] = acov["distribution"].get(k, 0) + v
            for k, v in st.items():
                if k not in ("distribution", "cases", "seed", "tier"):
                    acov.setdefault("notes", {})[k] = v
        except Exception:
            pass
        oracle = area.get("oracle")
        nontrivial = area.get("nontrivial")
        pending_concrete, pending_diff = [], []
        with open(cases_p) as fc, open(impl_p) as fi, open(model_p) as fm:
            for c, i, m in zip(fc, fi, fm):
                c, i, m = c.rstrip("\n"), i.rstrip("\n"), m.rstrip("\n")
                acov["cases"] += 1
                h = hashlib.blake2b(c.encode(), digest_size=8).digest()
                if h not in seen:
                    seen.add(h)
                    if nontrivial is None or nontrivial(c, i):
                        acov["distinct_nontrivial"] += 1
                if len(self.cov["samples"]) < 3 and acov["cases"] % 97 == 1:
                    self.cov["samples"].append({"area": name, "case": c[:300], "impl": i[:300]})
                why = None
                if oracle is not None:
                    try:
                        why = oracle(c, i)
                    except Exception as e:   # an oracle crash must not hide anything
                        why = "oracle error: %r" % (e,)
                known = self.is_known(name, c, i, why) if (self.known or (why or "").startswith("KNOWN:")) else False
                if i != m or why:
                    if known:
                        continue
                    acov["mismatches"] += 1 if i != m else 0
                    # keep a few of each kind; concrete property failures are reported first
                    bucket = pending_concrete if why else pending_diff
                    if len(bucket) < 5:
                        bucket.append((c, i, m, why))
        self.flush_pending(name, label, pending_concrete, pending_diff)

    def flush_pending(self, name, label, pending_concrete, pending_diff):
        for (c, i, m, why) in (pending_concrete + pending_diff)[:5]:
            if why:
                what = "property oracle fails on the implementation (area %s, %s): %s" % (name, label, why)
            else:
                what = "correspondence broken (area %s, %s): model and implementation differ" % (name, label)
            self.add_violation(what, {"correspondence": name, "case": c, "impl_output": i, "model_output": m,
                                      "oracle": why}, concrete=bool(why))

    def is_known(self, area, case, impl, why):
        # an oracle may attribute a failure to a recorded finding: "KNOWN:<tag>: explanation"
        if why and why.startswith("KNOWN:"):
            tag = why.split(":", 2)[1]
            for k in self.known:
                if k.get("oracle_tag") == tag and k.get("area") in (None, area):
                    k["_hit"] = k.get("_hit", 0) + 1
                    return True
            return False
        for k in self.known:
            if "case_regex" not in k:
                continue
            if k.get("area") == area and re.search(k["case_regex"], case):
                if k.get("impl_regex") and not re.search(k["impl_regex"], impl):
                    continue
                k["_hit"] = k.get("_hit", 0) + 1
                return True
        return False

    # ---------------------------------------------------------------- main
    def execute(self):
        t0 = time.time()
        spec = self.spec
        os.makedirs(self.rundir, exist_ok=True)
        os.makedirs(os.path.join(VERIF, "evidence"), exist_ok=True)
        if os.path.isdir(os.path.join(VERIF, "extract")):
            self.extract()
        lean_ok = self.lean_build()
        self.audit()
        if self.tier == "thorough" and lean_ok:
            self.leanchecker()
        hb = self.harness_build() if spec.get("areas") or spec.get("extra") else True
        if not hb:
            self.add_violation("correspondence harness no longer builds against the current tree",
                               {"correspondence": "harness build", "go_output": self.harness_err[-3000:]}, concrete=False)
        else:
            for area in spec.get("areas", []):
                self.run_area(area)
            for fn in spec.get("extra", []):
                fn(self)
        if self.proof_broken:
            # a proof obligation no longer checks; the correspondence/oracle runs above were the
            # failing-input search.  If they found nothing, report without a concrete input.
            if not any(v["concrete"] for v in self.violations):
                self.add_violation("proof obligation(s) no longer check: %s" % (", ".join(self.failed_theorems) or "; ".join(self.notes)),
                                   {"theorems": self.failed_theorems, "lean_output": getattr(self, "lean_out", "")[-3000:],
                                    "notes": self.notes}, concrete=False)
        # known findings: re-confirm each on the current tree and print it
        for k in self.known:
            fn = spec.get("confirm_known")
            still = fn(self, k) if fn else (k.get("_hit", 0) > 0)
            if still:
                self.known_lines.append("KNOWN-FINDING: property=%s %s" % (self.pid, k["what"]))
        wall = time.time() - t0
        self.write_evidence(wall)
        for l in self.known_lines:
            print(l)
        for n in self.notes:
            self.log("note:", n)
        if self.violations:
            # concrete failing inputs first
            self.violations.sort(key=lambda v: not v["concrete"])
            for v in self.violations:
                tail = "" if v["concrete"] else " no-failing-input-found"
                print("VIOLATION property=%s replay=%s%s" % (self.pid, v["replay"], tail))
                self.log("  ", v["what"][:400])
            return 1
        self.log("OK tier=%s seed=%d obligations=%d/%d evaluations=%d wall=%.1fs" % (
            self.tier, self.seed, len(self.discharged), len(self.obligations), self.cov["evaluations"], wall))
        return 0

    def write_evidence(self, wall):
        spec = self.spec
        cov = dict(self.cov)
        cov["obligations"] = len(self.obligations)
        cov["discharged"] = len(self.discharged)
        cov["obligation_names"] = self.obligations
        cov["axioms_per_theorem"] = self.axioms
        cov["checker_cmd"] = "cd /verif/lean && lake build %s && lake env lean build/audit/%s.lean (#print axioms)%s" % (
            spec["lean_module"], self.pid, " && lake env leanchecker " + spec["lean_module"] if self.tier == "thorough" else "")
        axs = sorted({a for v in self.axioms.values() for a in v})
        cov["trusted_base"] = ["Lean 4.33.0 kernel", "axioms used: " + (", ".join(axs) or "none")] + spec.get("trusted", [])
        cov["rule"] = spec.get("rule", "cases are generated by the seeded Go harness (splitmix64 from VERIF_SEED) and run through the real "
                               "code and the Lean model; distinct = distinct case lines (blake2b), non-trivial per area predicate")
        if not cov["samples"]:
            cov["samples"] = [{"obligation": n} for n in self.obligations[:3]] or [{"note": "no cases"}]
        cov["notes"] = self.notes
        cov["known_findings_reconfirmed"] = self.known_lines
        ev = {"property_id": self.pid, "tier": self.tier, "seed": self.seed, "level": spec.get("level", "proof"),
              "coverage": cov, "assumptions": spec.get("assumptions", []), "wall_s": round(wall, 2),
              "violations": len(self.violations)}
        # self-test runs against a scratch tree (VERIF_REPO) must not overwrite the real evidence
        evdir = os.path.join(VERIF, "evidence") if REPO == "/repo" else os.path.join(BUILD, "evidence-selftest")
        os.makedirs(evdir, exist_ok=True)
        with open(os.path.join(evdir, self.pid + ".json"), "w") as f:
            json.dump(ev, f, indent=1)


def testbin_path(binary):
    return os.path.join(BUILD, "nvh_" + binary)


def tail_line(path):
    try:
        with open(path) as f:
            lines = f.read().splitlines()
        return lines[-1] if lines else ""
    except Exception:
        return ""


def load_known():
    p = os.path.join(VERIF, "known_findings.json")
    if not os.path.exists(p):
        return []
    return json.load(open(p)).get("findings", [])
