import os, struct
OUT=os.path.dirname(os.path.abspath(__file__))
MARK=bytes.fromhex("a55ac3")
def wire(*labels):
    b=b""
    for l in labels:
        l=l.encode() if isinstance(l,str) else l
        b+=bytes([len(l)])+l
    return b+b"\0"
def query(qid,name,typ=1,cls=1,opt=False):
    p=struct.pack(">HHHHHH",qid,0x0100,1,0,0,1 if opt else 0)+name+struct.pack(">HH",typ,cls)
    if opt: p+=b"\0"+struct.pack(">HHIH",41,1232,0,0)
    return p
def resp(qid,name,typ,cls,serial,ttls=(300,),ns=(),ar=()):
    rd=MARK+serial.to_bytes(3,"big")
    m=struct.pack(">HHHHHH",qid,0x8180,1,len(ttls),len(ns),len(ar))+name+struct.pack(">HH",typ,cls)
    for t in ttls: m+=b"\xc0\x0c"+struct.pack(">HHIH",typ,cls,t,len(rd))+rd
    for t in ns: m+=b"\xc0\x0c"+struct.pack(">HHIH",6,cls,t,len(rd))+rd
    for t in ar: m+=b"\xc0\x0c"+struct.pack(">HHIH",1,cls,t,len(rd))+rd
    return m
hx=lambda b: b.hex() if b else "-"
class H:
    def __init__(s,on=1,buf=65535,maxage=0,maxttl=0): s.cfg=(on,buf,maxage,maxttl); s.ops=[]; s.ser=0
    def D(s,mode,ident,name,typ=1,cls=1,qid=0x1111,out="B",ttls=(300,),lm="-",proto="HTTP/2.0",lat=0,rerr=0,ns=(),body=None,opt=False):
        p=query(qid,name,typ,cls,opt)
        if out=="B":
            s.ser+=1
            b=resp(qid,name,typ,cls,s.ser,ttls,ns) if body is None else body
            o="B,%s,%d,%s,%s"%(hx(b),rerr,lm,proto)
        else: o=out
        s.ops.append("D,%s,%s,%s,%d,%s"%(mode,hx(ident.encode()),hx(p),lat,o)); return s
    def N(s,name,typ=1,cls=1,qid=0x2222,out="G",ttls=(300,),pre=()):
        p=query(qid,name,typ,cls)
        if out=="X": s.ops.append("N,%s,X"%hx(p)); return s
        ds=[hx(d) for d in pre]
        if out=="G":
            s.ser+=1; ds.append(hx(resp(qid,name,typ,cls,s.ser,ttls)))
        s.ops.append(",".join(["N",hx(p),"G"]+ds)); return s
    def A(s,d): s.ops.append("A,%d"%d); return s
    def X(s,i): s.ops.append("X,%d"%i); return s
    def XA(s): s.ops.append("XA"); return s
    def line(s): return "cache %d %d %d %d "%s.cfg+" ".join(s.ops)
def w(name,*hs):
    open(os.path.join(OUT,name),"w").write("\n".join(h.line() for h in hs)+"\n")
foo2=wire("foo","com"); foodot=wire("foo.com"); ex=wire("example","com"); EX=wire("Example","COM")
# 001 the DESIGN §7 #5 witness: \x07foo.com\x00 vs \x03foo\x03com\x00, over DoH and over DNS53, both directions
w("001-dotted-label-alias.txt",
  H().D("p","abc123",foo2).D("p","abc123",foodot,qid=0x3333,out="E"),
  H().D("p","abc123",foodot).D("p","abc123",foo2,qid=0x3333,out="E"),
  H().N(foo2).N(foodot,qid=0x4444,out="X"))
# 002 near-miss keys: letter case, profile, transport, class, type -- every second query must go upstream
w("002-near-miss-keys.txt",
  H().D("p","abc123",ex).D("p","abc123",EX,qid=2).D("p","def456",ex,qid=3).D("p","ABC123",ex,qid=4).N(ex,qid=5)
     .D("p","abc123",ex,cls=3,qid=6).D("p","abc123",ex,typ=28,qid=7).D("u","https://dns.nextdns.io/abc123",ex,qid=8,out="E")
     .D("p","abc123",ex,qid=9,out="E").N(ex,qid=10,out="X").N(EX,qid=11),
  # empty URL -> https://0.0.0.0, never the DNS53 context ""
  H().D("u","",ex).N(ex,qid=2).D("u","https://0.0.0.0",ex,qid=3,out="E").N(ex,qid=4,out="X").D("p","",ex,qid=5))
# 003 last-modified boundaries: announced == fetch second (stale), one second earlier (fresh), later (stale), unparsable, only-forward
T0=1000000
w("003-last-modified.txt",
  H().D("p","abc123",ex).D("p","abc123",foo2,qid=2,lm="s%d"%T0).D("p","abc123",ex,qid=3,out="E"),
  H().D("p","abc123",ex).D("p","abc123",foo2,qid=2,lm="s%d"%(T0-1)).D("p","abc123",ex,qid=3,out="E"),
  H().D("p","abc123",ex).A(10).D("p","abc123",foo2,qid=2,lm="s%d"%(T0+5)).D("p","abc123",ex,qid=3,out="E").D("p","abc123",foo2,qid=4,out="E"),
  H().D("p","abc123",ex).D("p","abc123",foo2,qid=2,lm="x").D("p","abc123",ex,qid=3,out="E"),
  H().D("p","abc123",ex,lm="s%d"%(T0-10)).D("p","abc123",foo2,qid=2,lm="s%d"%(T0-50)).D("p","abc123",ex,qid=3,out="E"),
  # another profile's change does not invalidate
  H().D("p","abc123",ex).D("p","def456",ex,qid=2,lm="s%d"%(T0+100)).D("p","abc123",ex,qid=3,out="E").D("p","def456",ex,qid=4,out="E"),
  # a change announced on a response that is not cached (empty body) is ignored
  H().D("p","abc123",ex).D("p","abc123",foo2,qid=2,lm="s%d"%(T0+100),body=b"").D("p","abc123",ex,qid=3,out="E"))
# 004 TTL / max-age boundaries
w("004-ttl-boundaries.txt",
  H().D("p","abc123",ex,ttls=(5,)).A(4).D("p","abc123",ex,qid=2,out="E").A(1).D("p","abc123",ex,qid=3,out="E"),
  H(maxage=3).D("p","abc123",ex,ttls=(300,)).A(3).D("p","abc123",ex,qid=2,out="E").A(1).D("p","abc123",ex,qid=3,out="E"),
  H(maxttl=60).D("p","abc123",ex,ttls=(300,30)).A(10).D("p","abc123",ex,qid=2,out="E").N(ex,ttls=(300,)).N(ex,qid=7,out="X"),
  H().N(ex,ttls=(2,)).A(1).N(ex,qid=2,out="X").A(1).N(ex,qid=3,out="X"),
  H().D("p","abc123",ex,ttls=(0,)).D("p","abc123",ex,qid=2,out="E"),
  H().D("p","abc123",ex,ttls=()).D("p","abc123",ex,qid=2,out="E"))
# 005 PTR is never read from the cache (but other types of the same name are)
ptr=wire("1","0","0","10","in-addr","arpa")
w("005-ptr.txt",
  H().D("p","abc123",ptr,typ=12).D("p","abc123",ptr,typ=12,qid=2,out="E").N(ptr,typ=12).N(ptr,typ=12,qid=3,out="X")
     .D("p","abc123",ptr,typ=1,qid=4).D("p","abc123",ptr,typ=1,qid=5,out="E"))
# 006 expired entry + failing upstream: error (SERVFAIL), in every failure flavour
w("006-stale-then-failure.txt",
  H().D("p","abc123",ex,ttls=(5,)).A(6).D("p","abc123",ex,qid=2,out="E").D("p","abc123",ex,qid=3,out="S")
     .D("p","abc123",ex,qid=4,rerr=1).N(ex,ttls=(5,)).A(6).N(ex,qid=5,out="X").N(ex,qid=6,out="T",pre=(b"\x00",)))
# 007 the clock is read before the request: a request that takes a (real) second
w("007-real-latency.txt",
  H().D("p","abc123",ex,ttls=(5,),lat=1).A(3).D("p","abc123",ex,qid=2,out="E").A(1).D("p","abc123",ex,qid=3,out="E"))
# 008 eviction, cache disabled, small buffers
w("008-evict-disabled-smallbuf.txt",
  H().D("p","abc123",ex).X(0).D("p","abc123",ex,qid=2,out="E").D("p","abc123",ex,qid=3).XA().D("p","abc123",ex,qid=4,out="E"),
  H(on=0).D("p","abc123",ex).D("p","abc123",ex,qid=2,out="E").N(ex).N(ex,qid=3,out="X"),
  H(buf=40).D("p","abc123",ex).D("p","abc123",ex,qid=2,out="E").N(ex,qid=3).N(ex,qid=4,out="X"),
  H(buf=47).D("p","abc123",ex,ttls=()).D("p","abc123",ex,qid=2,out="E"))
# 009 type/class confusion: a key that mixes up or repeats the numeric fields
w("009-type-class-confusion.txt",
  H().N(ex,typ=28).N(ex,typ=1,qid=2,out="X").N(ex,typ=1,cls=3,qid=3).N(ex,typ=3,cls=3,qid=4,out="X").N(ex,typ=3,cls=1,qid=5,out="X").N(ex,typ=28,cls=28,qid=6,out="X"),
  H().D("p","abc123",ex,typ=28).D("p","abc123",ex,typ=1,qid=2,out="E").D("p","abc123",ex,typ=1,cls=3,qid=3).D("p","abc123",ex,typ=3,cls=3,qid=4,out="E")
     .D("p","abc123",ex,typ=3,cls=1,qid=5,out="E").D("p","abc123",ex,typ=28,cls=28,qid=6,out="E"))
